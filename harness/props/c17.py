"""C17 — skool macros expand with their documented semantics, identically in every mode.

Theorems: lean/SkoolVerif/Props/C17.lean (Python integer semantics of the expression evaluator incl. floor
division, sign of the modulus and two's-complement bit operators; parser round trip on rendered ASTs; numeral
lexing; chained comparisons / short circuit; #EVAL digit rendering and nesting round trip; #FOR progression and
#FOR/#FOREACH joins; #MAP lookup; snapshot stack discipline and #POKES frame; #LET visibility; leftmost-first
search, position independence and fuel independence of the expansion loop).
Tie: hand models Model/Macro{Text,Expr,Args,Ops,Expand}.lean (a text-level model of expand_macros and 18 macro
parsers) run by Drivers/C17.lean against the real skoolkit.evaluate / parse_strings / parse_ints /
_split_unbracketed / AsmWriter.expand / HtmlWriter.expand on the same generated inputs, history by history.
E2E: (1) oracles written from the documentation (own expression evaluator, join spec, digit formatting, stack /
frame laws) against both writers; (2) the same histories through an AsmWriter and an HtmlWriter, equal modulo
HTML escaping and white space; (3) skool2asm.main and skool2html.main on skool files holding the same text in
ten places after @expand histories."""
import contextlib
import html as htmllib
import io
import os
import re
import warnings

from framework import fresh_import

PROPS = 'SkoolVerif.Props.C17'

SKOOL = '@start\n; Routine\nc32768 RET\n'

def codes(s):
    return ' '.join(str(ord(c)) for c in s)


def note_case(chk, tag, key=None, sample=None):
    """chk.case, passing a sample only for the first case of each tag (the evidence keeps the first 12 samples)."""
    chk.case(tag, key, sample if chk.dist[tag] == 0 else None)


# --------------------------------------------------------------------------------------------
# writers
# --------------------------------------------------------------------------------------------

class Env:
    """The real modules + factories for fresh writers on a one-instruction skool file."""

    def __init__(self, chk):
        (self.skoolkit, self.skoolmacro, self.skoolparser, self.skoolasm, self.skoolhtml, self.refparser,
         self.config, self.defaults, self.skool2asm, self.skool2html) = fresh_import(
            'skoolkit', 'skoolkit.skoolmacro', 'skoolkit.skoolparser', 'skoolkit.skoolasm', 'skoolkit.skoolhtml',
            'skoolkit.refparser', 'skoolkit.config', 'skoolkit.defaults', 'skoolkit.skool2asm', 'skoolkit.skool2html')
        self.scratch = chk.scratch
        self.skoolfile = os.path.join(chk.scratch, 'c17.skool')
        with open(self.skoolfile, 'w') as f:
            f.write(SKOOL)
        self.asm_config = self.config.get_config('skool2asm')

    def asm_writer(self, base=0, case=0, skoolfile=None):
        p = self.skoolparser.SkoolParser(skoolfile or self.skoolfile, asm_mode=1, base=base, case=case)
        return self.skoolasm.AsmWriter(p, {}, {}, self.asm_config)

    def html_writer(self, base=0, case=0, skoolfile=None):
        p = self.skoolparser.SkoolParser(skoolfile or self.skoolfile, html=True, base=base, case=case)
        ref = self.refparser.RefParser()
        ref.parse(io.StringIO(self.defaults.get_section('Config')))
        fi = self.skoolhtml.FileInfo(os.path.join(self.scratch, 'html'), 'c17', False, False)
        return self.skoolhtml.HtmlWriter(p, ref, fi)

    def writer(self, html, base=0, case=0):
        return self.html_writer(base, case) if html else self.asm_writer(base, case)


def real_expand(env, w, text):
    """Canonical outcome of writer.expand(text) on the real code."""
    sm, sk = env.skoolmacro, env.skoolkit
    try:
        with warnings.catch_warnings(), contextlib.redirect_stderr(io.StringIO()), limit_memory():
            warnings.simplefilter('ignore')
            out = w.expand(text)
        return 'ok ' + codes(out)
    except sk.SkoolParsingError as e:
        msg = e.args[0]
        m = re.match(r'Error while parsing (#[A-Z]+) macro', msg)
        if m:
            return 'err skool ' + m.group(1)
        m = re.match(r'Found unknown macro: (#[A-Z]+)', msg)
        if m:
            return 'err unknown ' + m.group(1)
        return 'err skool? ' + msg[:60]
    except sm.MacroParsingError as e:
        return 'err macro ' + type(e).__name__
    except RecursionError:
        return 'fuel'
    except Exception as e:
        return 'err py ' + type(e).__name__


# --------------------------------------------------------------------------------------------
# generators
# --------------------------------------------------------------------------------------------

class Gen:
    """Grammar-based generator of macro texts (ASCII, nesting bounded by `depth`)."""

    INT_EDGE = (0, 1, 2, 3, 5, 7, 10, 15, 16, 255, 256, 32768, 65535, 65536)

    def __init__(self, rng):
        self.rng = rng
        self.vars = ['a', 'b', 'n', 'xy']      # int variables possibly bound by #LET
        self.svars = ['s$', 't$']
        self.e2e = False

    # ---- integers and expressions --------------------------------------------------------
    def lit(self):
        r = self.rng
        v = r.choice(self.INT_EDGE) if r.random() < 0.6 else r.randrange(0, 1000)
        k = r.random()
        if k < 0.55:
            return str(v)
        if k < 0.9:
            return '$' + format(v, r.choice(('X', 'x', '04X', '02x')))
        return r.choice(('%s', ' %s', '%s ')) % v

    def expr(self, d):
        """Arithmetic expression text (only valid inside brackets); magnitudes stay small."""
        r = self.rng
        if d <= 0 or r.random() < 0.3:
            k = r.random()
            if k < 0.85:
                return self.lit().strip()
            if k < 0.9:
                return '{%s}' % r.choice(self.vars + ['base', 'case'])
            return r.choice(('0b101', '00', '1e2', 'a', 'def', '$', '01', '12ab', '%11'))
        k = r.random()
        if k < 0.08:
            return r.choice('+-') + self.expr(d - 1)
        if k < 0.2:
            return '(' + self.expr(d - 1) + ')'
        if k < 0.27:
            return self.expr(d - 1) + '**' + r.choice(('0', '1', '2', '3', '-1', '+2', '(2)'))
        if k < 0.34:
            return self.expr(d - 1) + r.choice(('<<', '>>')) + r.choice(('0', '1', '4', '9', '-1', '(3)'))
        op = r.choice(('+', '-', '*', '/', '%', '<', '<=', '>', '>=', '==', '!=', '&', '|', '^', '&&', '||',
                       '+', '-', '*', '/', '%', '=', '<>', '//'))
        sp = r.choice(('', '', '', ' '))
        return self.expr(d - 1) + sp + op + sp + self.expr(d - 1)

    def intarg(self, d, brackets):
        """One integer parameter: plain literal outside brackets, expression or macro inside."""
        r = self.rng
        if not brackets:
            k = r.random()
            if k < 0.5:
                return str(r.choice(self.INT_EDGE) if r.random() < 0.5 else r.randrange(300))
            if k < 0.93:
                return '$' + format(r.randrange(70000), r.choice('xX'))
            return r.choice(('', '-1', 'x', '$', '$g'))
        k = r.random()
        if k < 0.55 or d <= 0:
            return self.expr(r.randrange(0, 3))
        if k < 0.8:
            return self.int_macro(d - 1)
        if k < 0.9:
            return '{%s}' % r.choice(self.vars + ['base', 'case', 'fix', 'nosuch', '', '0', 's$', 'vars[a]', 'a:03'] + ([] if self.e2e else ['asm', 'html']))
        return r.choice(('', ' ', '-%d' % r.randrange(5), '"a"', '%101', '1_0', '{', '}', '{{1}}'))

    def ints(self, d, lo, hi, names_ok=False, ranges=None, free=(0,)):
        """Parameter list with between lo and hi parameters (sometimes too few / too many). Parameters whose
        position is not in `free` are sizes (widths, counts, loop bounds): they only take the small values of
        `ranges` (possibly written as an expression), so that no expansion is huge."""
        r = self.rng
        n = r.randrange(lo, hi + 1)
        if r.random() < 0.04:
            n = r.choice((max(lo - 1, 0), hi + 1))
        brackets = r.random() < 0.55
        args = []
        for i in range(n):
            if ranges and i < len(ranges) and (i not in free or r.random() < 0.6):
                v = r.choice(ranges[i])
                args.append(str(v) if (v >= 0 and r.random() < 0.7) or not brackets else self.small_expr(v))
            elif ranges and i not in free:
                args.append(str(r.randrange(0, 3)))
            else:
                args.append(self.intarg(d, brackets))
            if i >= lo and r.random() < 0.15:
                args[-1] = ''
        if not brackets and any(a.startswith('-') for a in args):
            brackets = True
        if self.e2e:
            # AsmWriter.expand strips nested expansions, HtmlWriter.expand does not: a white-space-only first/last
            # parameter is a default in ASM mode and an error in HTML mode, ( %101 ) is 5 in ASM mode and an error in HTML
            # mode (see probe_strip); the mode comparison generates no white space at the ends of a parameter list
            args = [a if a.strip() else '' for a in args]
            if args:
                args[0] = args[0].lstrip()
                args[-1] = args[-1].rstrip()
        s = ','.join(args)
        if brackets:
            sp = r.choice(('', '', ' ')) if not self.e2e else ''
            return '(' + sp + s + sp + ')'
        return s

    def small_expr(self, v):
        r = self.rng
        k = r.random()
        if k < 0.4:
            return str(v)
        if k < 0.6:
            return '%d+%d' % (v - 1, 1)
        if k < 0.8:
            return '(%d*2)/2' % v
        return '%d-(0-%d)' % (0, v) if v >= 0 else str(v)

    def int_macro(self, d):
        """A macro whose expansion is (usually) an integer."""
        r = self.rng
        k = r.random()
        if k < 0.4:
            return '#EVAL' + self.ints(d, 1, 1)
        if k < 0.55:
            return '#PEEK' + self.ints(d, 1, 1, ranges=[(0, 1, 5, 16384, 32768, 65535, 65536)])
        if k < 0.7:
            return '#IF' + self.ints(d, 1, 1) + '(1,0)'
        if k < 0.8:
            return '#MAP' + self.ints(d, 1, 1) + '(0,1:5,2:7)'
        if k < 0.9:
            return '#FORMAT/{%s}/' % r.choice(self.vars)
        return '#PC'

    # ---- strings ------------------------------------------------------------------------
    WORDS = ('a', 'b', 'n', 'x', 'foo', 'A', 'N', '1', '0', 'n+1', '[n]', 'n;', ' ', '', 'n n', 'an', '(n)', '<n>', 'a&b', '"n"')

    def word(self, d, avoid=''):
        r = self.rng
        k = r.random()
        if d > 0 and k < 0.3:
            return self.macro(d - 1)
        if d > 0 and k < 0.38:
            return self.word(0) + self.macro(d - 1) + self.word(0)
        w = r.choice(self.WORDS)
        if any(c in w for c in avoid):
            return 'w'
        return w

    def strings(self, d, parts, allow_alt=True):
        """String parameter list in one of the delimiter forms."""
        r = self.rng
        k = r.random()
        if k < 0.6 or not allow_alt:
            o, c, sep = '(', ')', ','
        elif k < 0.7:
            o, c, sep = '[', ']', ','
        elif k < 0.8:
            o, c, sep = '{', '}', ','
        else:
            d1 = r.choice('/|:;!@')
            sep = r.choice(',/|:;')
            o, c = d1 + sep, sep + d1
        if len(parts) == 1 and len(o) == 2 and r.random() < 0.5:
            pass
        body = sep.join(parts)
        if o in ('(', '[', '{'):
            # unbalanced brackets inside make the real parser fail: keep mostly balanced
            if body.count(o) != body.count(c) and r.random() < 0.9:
                body = body.replace(o, '').replace(c, '')
        elif c in body and r.random() < 0.9:
            body = body.replace(c, '')
        return o + body + c

    def string1(self, d, text):
        """Single string parameter (`parse_strings(text, index, 1)`): any delimiter, no separator."""
        r = self.rng
        k = r.random()
        if k < 0.7:
            o, c = '(', ')'
        elif k < 0.8:
            o, c = r.choice((('[', ']'), ('{', '}')))
        else:
            o = c = r.choice('/|:;!@"')
        if o != c:
            if text.count(o) != text.count(c) and r.random() < 0.9:
                text = text.replace(o, '').replace(c, '')
        elif c in text and r.random() < 0.9:
            text = text.replace(c, '')
        return o + text + c

    # ---- macros -------------------------------------------------------------------------
    def macro(self, d):
        r = self.rng
        k = r.choice(('EVAL', 'EVAL', 'N', 'IF', 'IF', 'MAP', 'FOR', 'FOR', 'FOREACH', 'FOREACH', 'LET', 'LET', 'FORMAT',
                      'PEEK', 'POKES', 'PUSHS', 'POPS', 'CHR', 'STR', 'SPACE', 'PC', 'RAW', 'WHILE', 'HASH', 'MISC'))
        return getattr(self, 'm_' + k)(d)

    def m_EVAL(self, d):
        return '#EVAL' + self.ints(d, 1, 3, ranges=[self.INT_EDGE + (-1, -255, -256, 1000000), (2, 10, 16, 16, 2, 8, 0), (0, 1, 2, 4, 8, 9, 17, -1)])

    def m_N(self, d):
        r = self.rng
        s = '#N' + self.ints(d, 1, 5, ranges=[self.INT_EDGE + (-1, -256, 255, 256, 255, 256), (0, 1, 2, 3, 4, 6), (0, 1, 3, 5, 7), (0, 1), (0, 1, 1)])
        if r.random() < 0.5:
            s += self.strings(d, [self.word(0, ',()'), self.word(0, ',()')][:r.randrange(0, 3)] or [''])
        return s

    def m_IF(self, d):
        r = self.rng
        parts = [self.word(d, ','), self.word(d, ',')][:r.choice((1, 2, 2, 2))]
        if r.random() < 0.03:
            parts.append('z')
        return '#IF' + self.ints(d, 1, 1) + self.strings(d, parts)

    def m_MAP(self, d):
        r = self.rng
        look = r.choice((0, 1, 2, 3, 4, 10, 255, -1))
        parts = [self.word(0, ',:')]
        for _ in range(r.randrange(0, 5)):
            k = r.choice(('0', '1', '2', '3', '$A', '1+1', '255', 'q', '2*2', '-1'))
            if r.random() < 0.3:
                k = r.choice((str(look), '%d+0' % look, '$%X' % look if look >= 0 else str(look)))    # (repeated) hit
            parts.append(k + ':' + r.choice(('p', 'q', 'rr', 's', 't', '', 'u v')) if r.random() < 0.85 else k)
        arg = str(look) if look >= 0 and r.random() < 0.5 else '(%d)' % look
        if r.random() < 0.3:
            arg = self.ints(d, 1, 1, ranges=[(0, 1, 2, 3, 4, 10, 255, -1)])
        return '#MAP' + arg + self.strings(d, parts)

    def loop_strings(self, d):
        r = self.rng
        var = r.choice(('n', 'n', 'n', 'x', 'nn', '$n', '', 'N', '1'))
        body = r.choice(('n', '[n]', 'n,n', 'xnx', 'n+1', '', ' n ', 'nn', '#EVAL(n*2)', '#EVAL(n,16,2)', '#IF(n>1)(>,<=)', '#PEEK(n)',
                         '#N(n)', 'x', '$n', '(n)', '#FOR1,2(m,nm)', 'a&b<n>', '"n"'))
        if d <= 0 and '#' in body:
            body = 'n'
        parts = [var, body]
        k = r.random()
        if k < 0.6:
            parts.append(r.choice((', ', ';', '', 'n', '-', ' and ', '+')))
            if k < 0.3:
                parts.append(r.choice((' and ', '', '&', 'n', ' or ')))
        if r.random() < 0.03:
            parts = parts[:1]
        if r.random() < 0.02:
            parts += ['p', 'q', 'r']
        return parts

    def m_FOR(self, d):
        r = self.rng
        parts = self.loop_strings(d)
        rng_ = [(0, 1, 2, 3, 5, 10, -2), (0, 1, 2, 3, 4, 5, 7, 12, -3), (1, 1, 1, 2, 3, -1, -2, 0), (0, 0, 0, 1, 2, 3, 4, 5, 6, 7)]
        alt = all(',' not in p and '(' not in p for p in parts)
        return '#FOR' + self.ints(d, 2, 4, ranges=rng_, free=()) + (self.strings(d, parts) if alt else self.strings(d, parts, False) if all(',' not in p for p in parts) else self.alt_strings(parts))

    def alt_strings(self, parts):
        r = self.rng
        for sep in ';|/:@':
            if all(sep not in p for p in parts):
                for d1 in '/|!@:':
                    if d1 != sep and all(d1 not in p for p in parts):
                        return d1 + sep + sep.join(parts) + sep + d1
        return '(' + ','.join(p.replace(',', '') for p in parts) + ')'

    def m_FOREACH(self, d):
        r = self.rng
        vals = [r.choice(('a', 'b', '1', '2', '10', 'foo', '', ' ', 'n', '(x,y)', '#EVAL(1+1)', 'POKE', 'ENTRY', 'x y')) for _ in range(r.randrange(1, 5))]
        if d <= 0:
            vals = [v for v in vals if '#' not in v] or ['a']
        if self.e2e:
            vals = [v for v in vals if v not in ('POKE', 'ENTRY')] or ['a']     # history-dependent by design
        parts = self.loop_strings(d)
        second = self.strings(d, parts) if all(',' not in p for p in parts) else self.alt_strings(parts)
        return '#FOREACH' + self.strings(d, vals, allow_alt=all('(' not in v for v in vals)) + second

    def m_LET(self, d):
        r = self.rng
        if r.random() < 0.7:
            name = r.choice(self.vars)
            val = r.choice((self.expr(2), self.lit(), self.int_macro(d - 1) if d > 0 else '1', '{%s}+1' % r.choice(self.vars), ' 5 ', '', 'q'))
        else:
            name = r.choice(self.svars)
            val = r.choice(('hello', ' x ', '{%s}' % r.choice(self.vars + self.svars), self.word(d), 'n,n', '', '#EVAL(2*3)'))
        if r.random() < 0.04:
            name = r.choice(('', 'a[1]', 'd[]', 'cfg[poke]', 'mode', ' a', 'a ', 'A', 'a$b', '1'))
        stmt = name + r.choice(('=', '=', '=', '=', '=', '', '==')) + val
        return '#LET' + self.string1(d, stmt)

    def m_FORMAT(self, d):
        r = self.rng
        body = r.choice(('{%s}' % r.choice(self.vars + self.svars + ['base', 'case', 'nosuch']), 'x{a}y', '{{a}}', '{a', 'a}', 'hello', 'Hello {s$}',
                         '{a}{b}', '{a:04}', '{vars[a]}', '{}', '{0}', 'n={n}', '#EVAL({a}+1)', '1', '2'))
        pre = r.choice(('', '', '', '0', '1', '2', '(1)', '(2)', '({case})', '3'))
        return '#FORMAT' + pre + self.string1(d, body)

    def m_PEEK(self, d):
        return '#PEEK' + self.ints(d, 1, 1, ranges=[(0, 1, 2, 5, 16383, 16384, 32768, 65535, 65536, 65537, -1)])

    def poke_args(self, d):
        return self.ints(d, 2, 4, ranges=[(0, 1, 2, 5, 16383, 16384, 32768, 65533, 65535, 65536, -1), (0, 1, 32, 65, 127, 128, 200, 255, 256, -1),
                                          (1, 1, 2, 3, 5, 0, -1), (1, 1, 2, 3, 256, 0, -1, -2)], free=(0, 1, 3))

    def m_POKES(self, d):
        r = self.rng
        s = '#POKES' + self.poke_args(d)
        while r.random() < 0.3:
            s += ';' + self.poke_args(d)
        return s

    def m_PUSHS(self, d):
        return '#PUSHS' + self.rng.choice(('', '', 'x', 'name1', '$#', ' ', '(', ';'))

    def m_POPS(self, d):
        return '#POPS'

    def m_CHR(self, d):
        return '#CHR' + self.ints(d, 1, 2, ranges=[(65, 97, 32, 48, 94, 96, 127, 163, 169, 8593, 0, 10, 38, 60, 256, -1, 1114112), (0, 1, 2, 3, 0)])

    def m_STR(self, d):
        return '#STR' + self.ints(d, 1, 3, ranges=[(0, 1, 2, 5, 16384, 32768, 65533, 65535, 65536, -1), (0, 0, 1, 2, 3, 4, 5, 6, 7, 8), (-1, -1, 0, 1, 2, 3, 5, 8)], free=(0, 1))

    def m_SPACE(self, d):
        r = self.rng
        if r.random() < 0.3:
            return '#SPACE'
        return '#SPACE' + self.ints(d, 0, 1, ranges=[(0, 1, 2, 3, 5, -1)], free=())

    def m_PC(self, d):
        return '#PC'

    def m_RAW(self, d):
        return '#RAW' + self.string1(d, self.word(d))

    def m_WHILE(self, d):
        r = self.rng
        v = r.choice(self.vars)
        k = r.random()
        if k < 0.6:
            lim = r.randrange(0, 5)
            pre = '#LET(%s=0)' % v if r.random() < 0.8 else ''
            return pre + '#WHILE({%s}<%d)(#LET(%s={%s}+1)%s)' % (v, lim, v, v, r.choice(('x', '#EVAL({%s})' % v, ' y ', '[#N({%s})]' % v)))
        if k < 0.8:
            return '#WHILE(0)(x)'
        return r.choice(('#WHILE()(x)', '#WHILE(x)', '#WHILE', '#WHILE(1,2)(x)', '#WHILE(q)(x)', '#WHILE(#PEEK1)(#POKES1,0)', '#WHILE(0)'))

    def m_HASH(self, d):
        """`#MACRO#(…)`: pre-expansion of an argument group."""
        r = self.rng
        k = r.random()
        if k < 0.4:
            return '#EVAL#(' + r.choice(('#EVAL(1+2)', '(1+2)', '3', '#IF1(4,5)', '#FOR1,2(n,n)')) + ')' + r.choice(('', ',16', ',2,8'))
        if k < 0.6:
            return '#IF#(1)(a,b)'
        if k < 0.8:
            return '#FOR#(1,3)(n,n)' if r.random() < 0.5 else '#FOR#(1,#(3))(n,n)'
        return r.choice(('#EVAL#/1/', '#EVAL#(', '#EVAL#', '#EVAL# 1', '#EVAL#(#(#(2)))', '#N#[7]', '#EVAL#(#EVAL#(1))'))

    def m_MISC(self, d):
        r = self.rng
        return r.choice(('#', '##', '#x', '#FOO', '#Eval1', '#EVAL', '#EVAL()', '#EVAL(', '#EVAL(1', '#EVALx', '#IF', '#IF1', '#IF(1)', '#MAP1', '#MAP',
                         '#FOR', '#FOR1', '#FOR1,2', '#FOR1,2()', '#FOREACH', '#FOREACH()', '#FOREACH(a)', '#LET', '#LET()', '#LET(a)', '#FORMAT', '#PEEK',
                         '#POKES', '#POKES1', '#CHR', '#STR', '#N', '#RAW', '#R32768', '#HTML(x)', '#VERSION', '#EVALUATE1', '#EVAL1#EVAL2',
                         '#EVAL1,#EVAL2', '#EVAL(1)(2)', '#FOR1,3,(n,n)', '#FOR1,3(,a)', '#IF1()', '#N5,,,1(a,b)', '#SPACE3|', 'x #SPACE2 y', ' #PC ', '#IF0()'))

    def text(self, d):
        """A comment text with a few macros."""
        r = self.rng
        n = r.choice((1, 1, 1, 2, 2, 3))
        out = []
        for _ in range(n):
            if r.random() < 0.3:
                out.append(r.choice(('x', ' ', 'abc ', ', ', '.', '(', ')', 'A', '1', '#', ' # ', ';', '&', '<b>')))
            out.append(self.macro(d))
        if r.random() < 0.3:
            out.append(r.choice(('x', ' ', '.', ',1', '(y)', '1', 'A')))
        return ''.join(out)

    def snapshot_story(self):
        """#PUSHS / #POKES / #POPS / #PEEK interleaved, mostly well bracketed, peeking where it poked."""
        r = self.rng
        texts, depth, addrs = [], 0, [0, 32768]
        for _ in range(r.randrange(2, 7)):
            parts = []
            for _ in range(r.randrange(1, 4)):
                k = r.random()
                if k < 0.25:
                    parts.append('#PUSHS' + r.choice(('', 'a', 'lvl2')) + ' ')
                    depth += 1
                elif k < 0.6:
                    a = r.choice((0, 1, 16383, 16384, 40000, 65535, r.randrange(65536)))
                    addrs.append(a)
                    length, step = r.choice((1, 1, 2, 3)), r.choice((1, 1, 2, 256))
                    addrs.append((a + (length - 1) * step) % 65536)
                    parts.append('#POKES%d,%d,%d,%d' % (a, r.randrange(256), length, step) if r.random() < 0.5 else
                                 '#POKES(%d,%d)' % (a, r.randrange(256)))
                elif k < 0.8 and (depth > 0 or r.random() < 0.1):
                    parts.append('#POPS')
                    depth -= 1
                else:
                    parts.append('[#PEEK%d]' % r.choice(addrs))
            texts.append(''.join(parts))
        texts.append(' '.join('#PEEK%d' % a for a in r.sample(addrs, min(3, len(addrs)))))
        return texts

    def history(self, d):
        """A sequence of texts expanded on one writer: state changes first, readers later."""
        r = self.rng
        if r.random() < 0.15:
            return self.snapshot_story()
        hist = []
        for _ in range(r.randrange(0, 4)):
            hist.append(r.choice((self.m_LET, self.m_LET, self.m_POKES, self.m_POKES, self.m_PUSHS, self.m_POPS))(d))
        for _ in range(r.randrange(1, 4)):
            hist.append(self.text(d))
        return hist


def safe_text(t):
    """Reject texts whose real expansion could take unbounded time/memory (huge powers, shifts, loops)."""
    s = t.replace(' ', '')
    if s.count('**') > 2 or s.count('<<') > 2:
        return False
    for m in re.finditer(r'\*\*|<<', s):
        m2 = re.match(r'[-+(]*(\d+)(?![0-9a-fA-Fx$eE{])', s[m.end():])
        if not m2 or int(m2.group(1)) > (5 if m.group() == '**' else 64):
            return False
    return True


# --------------------------------------------------------------------------------------------
# correspondence
# --------------------------------------------------------------------------------------------

def py_eval(env, s):
    try:
        with warnings.catch_warnings():
            warnings.simplefilter('ignore')
            v = env.skoolkit.evaluate(s)
        if abs(v) > 10 ** 600:
            return None
        return 'ok %d' % v
    except ValueError:
        return 'err'


def macro_err(env, f):
    sm = env.skoolmacro
    try:
        return f()
    except sm.MacroParsingError as e:
        return 'err macro ' + type(e).__name__


def py_strings(env, mode, s):
    sm = env.skoolmacro

    def f():
        if mode == '1':
            end, p = sm.parse_strings(s, 0, 1)
            return 'ok %d ; %s' % (len(s) - end, codes(p))
        num, defaults = {'0': (0, ()), '2': (2, ('',)), '3': (2, ('', '')), '4': (4, ('', None))}[mode]
        end, parts = sm.parse_strings(s, 0, num, defaults)
        return 'ok %d ; %s' % (len(s) - end, ' ; '.join('N' if p is None else codes(p) for p in parts))
    return macro_err(env, f)


def py_ints(env, mode, s):
    sm = env.skoolmacro
    num, defaults = {'1': (1, ()), '3': (3, (10, 1)), '4': (4, (1, 0)), '5': (5, (None, 1, 0, 0))}[mode]

    def f():
        sm._writer = None
        with warnings.catch_warnings():
            warnings.simplefilter('ignore')
            res = sm.parse_ints(s, 0, num, defaults, fields={})
        if any(v is not None and abs(v) > 10 ** 600 for v in res[1:]):
            return None                  # beyond the model's (and CPython's int -> str) limit
        return 'ok %d %s' % (len(s) - res[0], ' '.join('N' if v is None else str(v) for v in res[1:]))
    return macro_err(env, f)


def py_split(env, s):
    def f():
        return 'ok ' + ' ; '.join(codes(p) for p in env.skoolmacro._split_unbracketed(s))
    return macro_err(env, f)


@contextlib.contextmanager
def limit_memory():
    """A runaway expansion (huge width/count) must end in MemoryError, not in the OOM killer. The limit is lifted
    again before any Lean process is started (Lean reserves a large address space)."""
    try:
        import resource
        soft, hard = resource.getrlimit(resource.RLIMIT_AS)
        lim = 12 * 2 ** 30
        if hard != resource.RLIM_INFINITY:
            lim = min(lim, hard)
        resource.setrlimit(resource.RLIMIT_AS, (lim, hard))
    except (ImportError, ValueError, OSError):
        resource = None
    try:
        yield
    finally:
        if resource is not None:
            resource.setrlimit(resource.RLIMIT_AS, (soft, hard))


def norm(line):
    return ' '.join(line.split())


def corr_functions(chk, env, gen):
    """Direct ties of evaluate / parse_strings / parse_ints / _split_unbracketed."""
    rng = chk.rng
    ops, impl = [], []
    AE = ' !=+-*/<>&|^%$ABCDEFabcdef0123456789()'
    fixed = [' 12 ', '+5', '-5', '$-5', '$ 5', '1_0', '1__0', '_1', '0x10', '$0x10', '$0x_1f', '%101', '%0b1', '%2', '"a"', '"\\a"', '"ab"',
             '"', '""', '$FF ', ' $FF', '1&lt2', '1&#49', '&a', '1&&&1', '1|||1', '()', '(())', '()==()', '1e+5', '1e-5+1', '2**-1', '0**-1', '0&&a',
             '1||a', '1>2>a', '1<2<a', '1<2<3<4', '1<2>1', '(1<2)==1', '1<2==1', '-2**2', '2**-1**2', '2**3**2', '--1', '1---1', '1<<-1', '1 2',
             '(1', '1)', '1+', '*1', '', ' ', '1 + 1', '1== 1', '1= =1', '1! =1', '1<-1', '1->1', '0&&1(2)', '1(2)', '0&&def', '-7/2', '7/-2', '-7%2',
             '7%-2', '-7/-2', '-7%-2', '0/5', '5/0', '5%0', '-5&3', '-5|3', '-5^3', '5&-3', '5|-3', '5^-3', '-5&-3', '-5|-3', '-5^-3', '-1>>1',
             '-256>>4', '1<<64', '$FFFF*$FFFF', '00', '01', '0b', '0b2', '0B11', '0xg', '$', '$$1', '1$2', 'a$1', '1==1==1', '1!=1', '2>1>0', '1&&2',
             '0||3', '2&&0||4', '1<2&&2<3', '1|2==3', '(1|2)==3', '1+2*3', '(1+2)*3', '2*3**2', '-3**2', '2**-0', '10-2-3', '100/10/5', '2**2**0',
             '7&3|8', '7^3&1', '1<<2+1', '1+1<<2', '5%3*2', '-(-(5))', '+-+-5', '1<2<3', '3>2>1>0', '1<2>3', '1==1<2']
    n_rand = chk.scale(2500, 40000)
    for i in range(n_rand + len(fixed)):
        if i < len(fixed):
            s, tag = fixed[i], 'eval-fixed'
        else:
            k = rng.random()
            if k < 0.75:
                s, tag = gen.expr(rng.randrange(1, 5)).replace('{', '').replace('}', ''), 'eval-gram'
            else:
                s, tag = ''.join(rng.choice(AE) for _ in range(rng.randrange(1, 8))), 'eval-soup'
        if not safe_text(s):
            continue
        r = py_eval(env, s)
        if r is None:
            continue
        ops.append('E ' + codes(s))
        impl.append(r)
        note_case(chk, tag, ('E', s) if any(c in s for c in '+-*/%&|^<>=') else None, {'op': 'evaluate', 'text': s, 'impl': r})
    # parse_strings / _split_unbracketed / parse_ints
    pieces = ('a', 'b', '', ' ', 'x,y', '(', ')', '(p,q)', '[', ']', '{', '}', '/', '|', ',', ';', ':', 'n', '#EVAL(1,2)', '((a),b)', ')(', 'a(b', 'c)d')
    for _ in range(chk.scale(1500, 20000)):
        k = rng.random()
        if k < 0.5:
            parts = [rng.choice(pieces[:8] + pieces[16:19]) for _ in range(rng.randrange(0, 6))]
            s = gen.strings(1, parts) + rng.choice(('', 'x', '(y)', ' '))
        else:
            s = ''.join(rng.choice(pieces) for _ in range(rng.randrange(0, 7)))
        mode = rng.choice('01234')
        ops.append('S %s %s' % (mode, codes(s)))
        impl.append(py_strings(env, mode, s))
        note_case(chk, 'parse_strings', ('S', mode, s), {'op': 'parse_strings', 'mode': mode, 'text': s, 'impl': impl[-1]})
        if rng.random() < 0.5:
            t = ''.join(rng.choice(pieces) for _ in range(rng.randrange(0, 7)))
            ops.append('U ' + codes(t))
            impl.append(py_split(env, t))
            note_case(chk, 'split_unbracketed', ('U', t) if '(' in t else None)
    for _ in range(chk.scale(1500, 20000)):
        mode = rng.choice('1345')
        k = rng.random()
        if k < 0.7:
            s = gen.ints(0, 0, 6) + rng.choice(('', 'x', '(a)', ',', ';1'))
            s = s.replace('{', '').replace('}', '').replace('#', '')
        else:
            s = ''.join(rng.choice(('1', '$F', ',', '(', ')', '2+2', 'x', ' ', '$', '-', '10', 'g')) for _ in range(rng.randrange(0, 7)))
        if not safe_text(s):
            continue
        r = py_ints(env, mode, s)
        if r is None:
            continue
        ops.append('I %s %s' % (mode, codes(s)))
        impl.append(r)
        note_case(chk, 'parse_ints', ('I', mode, s), {'op': 'parse_ints', 'mode': mode, 'text': s, 'impl': impl[-1]})
    model = chk.run_driver('C17', ops)
    if model is None:
        return
    # inputs the model declares outside its fragment are not compared (counted)
    keep = [i for i, m in enumerate(model) if m not in ('unsup', 'fuel')]
    chk.extra['model_unsupported_functions'] = len(ops) - len(keep)
    chk.compare('Macro{Expr,Args} models vs skoolkit.evaluate/parse_strings/parse_ints/_split_unbracketed',
                [ops[i] for i in keep], [norm(impl[i]) for i in keep], [norm(model[i]) for i in keep])


def corr_expand(chk, env, gen):
    """writer.expand on fresh AsmWriter/HtmlWriter instances vs MacroExpand.expand, history by history."""
    rng = chk.rng
    ops, impl, info = [], [], []
    n_hist = chk.scale(2200, 20000)
    peeks = (0, 1, 2, 5, 6, 16384, 32768, 65535)
    for h in range(n_hist):
        html = rng.random() < 0.3
        base = rng.choice((0, 0, 10, 16))
        case = rng.choice((0, 0, 1, 2))
        w = env.writer(html, base, case)
        ops.append('R %d %d %d' % (html, base, case))
        impl.append('ok')
        info.append(None)
        depth = rng.choice((0, 1, 1, 2, 2, 3, 4))
        hist_texts = []
        for t in gen.history(depth):
            if not safe_text(t):
                continue
            hist_texts.append(t)
            r = real_expand(env, w, t)
            ops.append('X ' + codes(t))
            impl.append(r)
            info.append(t)
            macros = tuple(sorted(set(re.findall(r'#[A-Z]+', t))))
            note_case(chk, 'expand-html' if html else 'expand-asm', ('X', t, html, base, case) if macros else None,
                     {'op': 'expand', 'html': html, 'base': base, 'case': case, 'text': t, 'impl': r})
            for m in macros:
                chk.dist['macro ' + m] += 1
            chk.dist['expand-result ' + ' '.join(r.split()[:2 if r.startswith('err') else 1])] += 1
            if not r.startswith('ok'):
                break
        else:
            # probe the memory image where the history poked (numbers spelled in the texts) and at fixed cells
            nums = set()
            for t in hist_texts:
                for m in re.findall(r'\$[0-9A-Fa-f]+|\d+', t):
                    v = int(m[1:], 16) if m[0] == '$' else int(m)
                    if v < 10 ** 6:
                        nums.add(v % 65536)
            probes = rng.sample(sorted(nums), min(4, len(nums))) + rng.sample(peeks, 2)
            for a in probes:
                ops.append('K %d' % a)
                v = w.snapshot[a]
                impl.append('ok %d' % v if abs(v) < 10 ** 1000 else 'ok huge')
                info.append(None)
    model = chk.run_driver('C17', ops)
    if model is None:
        return
    # a history is compared up to the first op the model declares unsupported
    keep, skip = [], False
    unsup = 0
    for i, (op, m) in enumerate(zip(ops, model)):
        if op.startswith('R '):
            skip = False
        if skip:
            continue
        if m in ('unsup', 'fuel') or impl[i] == 'fuel':
            skip = True
            unsup += 1
            continue
        keep.append(i)
    chk.extra['model_unsupported_expansions'] = unsup
    chk.compare('MacroExpand.expand vs AsmWriter/HtmlWriter.expand',
                [ops[i] + ('   # ' + repr(info[i]) if info[i] else '') for i in keep],
                [norm(impl[i]) for i in keep], [norm(model[i]) for i in keep])


# --------------------------------------------------------------------------------------------
# end-to-end: the property itself on the real writers and tools
# --------------------------------------------------------------------------------------------

def canon(s):
    """Modulo HTML escaping and white space: both tools reflow white space (skool2asm wraps comment lines, HTML
    collapses runs), `#SPACE` is ' ' in ASM and '&#160;' in HTML, and AsmWriter.expand strips its result. Escaping
    is undone to a fixed point, because a text such as `&#1` that one mode prints raw and the other as `&amp;#1`
    would itself be read as a character reference by a single pass."""
    for _ in range(8):
        t = htmllib.unescape(s)
        if t == s:
            break
        s = t
    return re.sub(r'\s+', '', s)


BAD_CHARREF = re.compile(r'&#(\d+);')


def charref_ok(s):
    """`html.unescape` follows HTML5: &#128;..&#159; are cp1252, &#0; and invalid code points are replaced — #CHR
    output in that range legitimately differs from chr(n); such cases are not compared."""
    for m in BAD_CHARREF.finditer(s):
        n = int(m.group(1))
        if n > 0x10FFFF or 0xD800 <= n <= 0xDFFF or htmllib.unescape('&#%d;' % n) != chr(n):
            return False
    return True


def decode(r):
    """'ok 65 66' -> 'AB'"""
    return ''.join(chr(int(c)) for c in r.split()[1:])


def macros_of(t):
    return '+'.join(sorted(set(re.findall(r'#[A-Z]+', t)))) or 'none'


class IndepExpr:
    """Random expression trees with an evaluator written from the documentation of numeric parameters (integer
    arithmetic, `/` = floor division, `%` with the sign of the divisor, C-like precedence, `&&`/`||` returning an
    operand, comparisons 1/0) that does not use Python's eval, `//`, `%`, `&`, `|` or `^` on negative numbers."""

    PREC = {'||': 1, '&&': 2, '<': 4, '<=': 4, '>': 4, '>=': 4, '==': 4, '!=': 4, '|': 5, '^': 6, '&': 7,
            '<<': 8, '>>': 8, '+': 9, '-': 9, '*': 10, '/': 10, '%': 10, 'neg': 11, '**': 12}

    def __init__(self, rng):
        self.rng = rng

    def tree(self, d):
        r = self.rng
        if d <= 0 or r.random() < 0.25:
            return ('num', r.choice((0, 1, 2, 3, 5, 7, 10, 16, 255, 256, 1000, 65535)) if r.random() < 0.7 else r.randrange(100000))
        k = r.random()
        if k < 0.1:
            return ('neg', self.tree(d - 1))
        if k < 0.16:
            return ('**', self.tree(d - 1), ('num', r.randrange(0, 4)))
        if k < 0.24:
            return (r.choice(('<<', '>>')), self.tree(d - 1), ('num', r.randrange(0, 12)))
        op = r.choice(('+', '-', '*', '/', '%', '/', '%', '<', '<=', '>', '>=', '==', '!=', '&', '|', '^', '&&', '||'))
        return (op, self.tree(d - 1), self.tree(d - 1))

    @staticmethod
    def floordiv(a, b):
        q = abs(a) // abs(b)              # magnitudes only
        if (a < 0) != (b < 0):
            q = -q
            if q * b != a:
                q -= 1
        return q

    @staticmethod
    def bits(op, a, b):
        w = max(a.bit_length(), b.bit_length()) + 2
        m = 1 << w
        ua, ub = a + m if a < 0 else a, b + m if b < 0 else b     # two's complement in w bits
        res = 0
        for i in range(w):
            x, y = (ua >> i) % 2, (ub >> i) % 2
            bit = {'&': x * y, '|': max(x, y), '^': (x + y) % 2}[op]
            res += bit << i
        return res - m if res >= m // 2 else res

    def value(self, t):
        """None = error (division by zero) anywhere evaluated."""
        k = t[0]
        if k == 'num':
            return t[1]
        if k == 'neg':
            v = self.value(t[1])
            return None if v is None else -v
        a = self.value(t[1])
        if a is None:
            return None
        if k == '&&':
            return a if a == 0 else self.value(t[2])
        if k == '||':
            return a if a != 0 else self.value(t[2])
        b = self.value(t[2])
        if b is None:
            return None
        if k == '+':
            return a + b
        if k == '-':
            return a - b
        if k == '*':
            return a * b
        if k == '/':
            return None if b == 0 else self.floordiv(a, b)
        if k == '%':
            return None if b == 0 else a - b * self.floordiv(a, b)
        if k == '**':
            v = 1
            for _ in range(b):
                v *= a
            return v
        if k == '<<':
            return a * 2 ** b
        if k == '>>':
            return self.floordiv(a, 2 ** b)
        if k in '&|^':
            return self.bits(k, a, b)
        return int({'<': a < b, '<=': a <= b, '>': a > b, '>=': a >= b, '==': a == b, '!=': a != b}[k])

    def text(self, t, ctx=0, right=False):
        """Render with the minimum of parentheses the documented precedence requires (sometimes more)."""
        r = self.rng
        k = t[0]
        if k == 'num':
            v = t[1]
            s = str(v) if r.random() < 0.6 else '$' + format(v, r.choice(('X', 'x', '04X')))
            return s
        if k == 'neg':
            s = '-' + self.text(t[1], self.PREC['neg'])
            return '(' + s + ')' if ctx > self.PREC['neg'] or r.random() < 0.1 else s
        p = self.PREC[k]
        if p == 4:
            # comparisons do not associate (Python would chain them): always parenthesise operands that are comparisons
            s = self.text(t[1], p + 1) + k + self.text(t[2], p + 1)
        elif k == '**':
            s = self.text(t[1], p + 1) + k + self.text(t[2], p)
        else:
            sp = r.choice(('', '', ' '))
            s = self.text(t[1], p) + sp + k + sp + self.text(t[2], p + 1)
        if p < ctx or r.random() < 0.1:
            return '(' + s + ')'
        return s

    def size_ok(self, t):
        """Keep magnitudes sane (no huge powers / shifts)."""
        try:
            v = self.value(t)
        except (OverflowError, MemoryError):
            return False
        if v is not None and abs(v) > 10 ** 60:
            return False
        k = t[0]
        if k == 'num':
            return True
        return all(self.size_ok(c) for c in t[1:] if isinstance(c, tuple)) and all(
            (self.value(c) is None or abs(self.value(c)) < 10 ** 30) for c in t[1:] if isinstance(c, tuple))


def join_spec(elems, seps, fsep):
    """Documented #FOR/#FOREACH output: elements in order, sep between consecutive ones, fsep between the last two."""
    out = ''
    for i, e in enumerate(elems):
        out += e
        if i < len(elems) - 2:
            out += seps[i]
        elif i == len(elems) - 2:
            out += seps[i] if fsep is None else fsep
    return out


def e2e_semantics(chk, env):
    """Documented semantics, oracle written from the documentation, evaluated through both writers."""
    rng = chk.rng
    ie = IndepExpr(rng)
    writers = [(m, b, c, env.writer(m, b, c)) for m in (False, True) for b, c in ((0, 0), (16, 1), (10, 2))]

    def both(text, expected, key, sample):
        for html, base, case, w in writers[:2] if rng.random() < 0.7 else writers:
            r = real_expand(env, w, text)
            note_case(chk, 'sem-' + key, (key, text), sample)
            if expected is None:
                if r.startswith('ok'):
                    chk.violation('semantics-%s-no-error' % key, f'{text!r} expands to {decode(r)!r} (html={html}) but an operand is undefined (division by zero)',
                                  {'kind': 'sem', 'html': html, 'base': base, 'case': case, 'text': text, 'expected': None})
            elif not r.startswith('ok') or canon(decode(r)) != canon(expected):
                got = decode(r) if r.startswith('ok') else r
                chk.violation('semantics-%s' % key, f'{text!r} expands to {got!r} (html={html}), documented semantics give {expected!r}',
                              {'kind': 'sem', 'html': html, 'base': base, 'case': case, 'text': text, 'expected': expected})

    # arithmetic
    for _ in range(chk.scale(700, 12000)):
        t = ie.tree(rng.randrange(1, 5))
        if not ie.size_ok(t):
            continue
        v = ie.value(t)
        s = ie.text(t)
        both('#EVAL(%s)' % s, None if v is None else str(v), 'arith', {'expr': s, 'expected': v})
    # #EVAL base / width, #N
    for _ in range(chk.scale(250, 4000)):
        v = rng.choice((0, 1, 5, 255, 256, 65535, -1, -255, rng.randrange(-70000, 70000)))
        base = rng.choice((2, 10, 16))
        width = rng.choice((0, 1, 2, 4, 8, 9, 16, 17))
        mag = {2: format(abs(v), 'b'), 10: str(abs(v)), 16: format(abs(v), 'X')}[base]
        for html, b_, case, w in writers:
            digits = mag.lower() if case == 1 else mag
            pad = max(0, width - len(digits) - (1 if v < 0 else 0))
            exp = ('-' if v < 0 else '') + '0' * pad + digits
            text = '#EVAL(%d,%d,%d)' % (v, base, width)
            r = real_expand(env, w, text)
            note_case(chk, 'sem-digits', ('digits', v, base, width, case), {'text': text, 'expected': exp})
            if r != 'ok ' + codes(exp) and not (exp == '' and r == 'ok'):
                chk.violation('semantics-eval-digits', f'{text!r} (case={case}, html={html}) gives {r!r}, expected {exp!r}',
                              {'kind': 'sem', 'html': html, 'base': b_, 'case': case, 'text': text, 'expected': exp, 'exact': True})
            elif int(decode(r), base) != v:
                chk.violation('semantics-eval-roundtrip', f'{text!r}: digits do not read back to {v}',
                              {'kind': 'sem', 'html': html, 'base': b_, 'case': case, 'text': text, 'expected': exp, 'exact': True})
    # #N: hexadecimal when --hex, or when hex=1 unless --decimal; default hwidth 2 below 256 else 4; prefix/suffix on hex only
    for _ in range(chk.scale(300, 5000)):
        v = rng.choice((0, 1, 9, 10, 15, 16, 255, 256, 257, 4095, 4096, 65535, 65536, rng.randrange(70000)))
        hw = rng.choice((None, None, 1, 2, 3, 4, 6))
        dw = rng.choice((None, None, 1, 3, 5, 6))
        affix = rng.choice((0, 0, 1))
        tohex = rng.choice((0, 0, 1))
        pre, suf = rng.choice(('', '0x', '$', '~')) if affix else '', rng.choice(('', 'h', '')) if affix else ''
        args = [str(v), '' if hw is None else str(hw), '' if dw is None else str(dw), str(affix), str(tohex)]
        while len(args) > 1 and args[-1] in ('', '0') and rng.random() < 0.8:
            args.pop()
        if affix and len(args) < 4:
            args = (args + ['', '', ''])[:3] + ['1']
        text = '#N' + (','.join(args) if rng.random() < 0.5 else '(' + ','.join(args) + ')')
        if affix:
            text += '(%s)' % pre if not suf and rng.random() < 0.5 else '(%s,%s)' % (pre, suf)
        tohex_eff = tohex if len(args) > 4 else 0
        for html, base, case, w in writers:
            if base == 16 or (tohex_eff and base != 10):
                width = hw if hw is not None and len(args) > 1 else (2 if v < 256 else 4)
                digits = format(v, 'x' if case == 1 else 'X')
                exp = pre + '0' * max(0, width - len(digits)) + digits + suf
            else:
                width = dw if dw is not None and len(args) > 2 else 1
                exp = '0' * max(0, width - len(str(v))) + str(v)
            r = real_expand(env, w, text)
            note_case(chk, 'sem-n', ('n', text, base, case), {'text': text, 'base': base, 'case': case, 'expected': exp})
            if r != 'ok ' + codes(exp):
                chk.violation('semantics-n', f'{text!r} (base={base}, case={case}, html={html}) gives {decode(r) if r.startswith("ok") else r!r}, documented: {exp!r}',
                              {'kind': 'sem', 'html': html, 'base': base, 'case': case, 'text': text, 'expected': exp, 'exact': True})
    # #CHR / #SPACE / #STR / #PEEK on a poked string
    for _ in range(chk.scale(100, 1500)):
        html = rng.random() < 0.5
        w = env.writer(html)
        word = ''.join(rng.choice('ABCxyz 019,.') for _ in range(rng.randrange(1, 8))).strip() or 'A'
        addr = rng.choice((30000, 40000, 65000, 16384))
        pokes = ';'.join('%d,%d' % (addr + i, ord(c) | (128 if i == len(word) - 1 else 0)) for i, c in enumerate(word))
        real_expand(env, w, '#POKES' + pokes)
        for text, exp in (('#STR%d' % addr, word), ('#STR(%d,0,%d)' % (addr, len(word) - 1), word[:-1]),
                          ('#PEEK%d' % addr, str(ord(word[0]) | (128 if len(word) == 1 else 0))),
                          ('#CHR%d' % ord(word[0]), word[0]), ('[#SPACE%d]' % len(word), '[' + ' ' * len(word) + ']'),
                          ('#FOR%d,%d(a,#CHR(#PEEKa&127))' % (addr, addr + len(word) - 1), word)):
            r = real_expand(env, w, text)
            note_case(chk, 'sem-str', ('str', word, text), {'poked': word, 'text': text})
            got = decode(r) if r.startswith('ok') else r
            if html:
                got = htmllib.unescape(got).replace('\xa0', ' ')
            if ' ' in word or 'SPACE' in text:
                ok = canon(got) == canon(exp) and (html or 'SPACE' not in text or got == exp)
            else:
                ok = got == exp
            if not ok:
                chk.violation('semantics-str-chr', f'after poking {word!r} at {addr}: {text!r} gives {got!r}, expected {exp!r} (html={html})',
                              {'kind': 'hist', 'html': html, 'base': 0, 'case': 0, 'history': ['#POKES' + pokes, text], 'expected': exp, 'canon': True})
                break
    # #FOR / #FOREACH / #MAP / #IF
    for _ in range(chk.scale(500, 8000)):
        start, stop = rng.randrange(-3, 12), rng.randrange(-3, 14)
        step = rng.choice((1, 1, 1, 2, 3, 5, -1, -2, -3))
        nums = []
        n = start
        while (step > 0 and n <= stop) or (step < 0 and n >= stop):
            nums.append(n)
            n += step
        body = rng.choice(('n', '[n]', 'n*', 'x', '<n>', 'n-n', '(n)'))
        sep = rng.choice((None, ', ', ';', '', ' + '))
        fsep = rng.choice((None, None, ' and ', '/', '')) if sep is not None else None       # '' is a separator like any other
        flags = rng.choice((0, 0, 0, 1, 2, 3))
        if sep is not None and rng.random() < 0.25:
            # flag 4: the variable is replaced in each separator, too (by the value of the element before it)
            flags += 4
            sep = rng.choice(('-n-', 'n', ' n: ', sep))
        args = ['n', body] + ([sep] if sep is not None else []) + ([fsep] if fsep is not None else [])
        d = rng.choice([c for c in '|/@!' if all(c not in a for a in args)])
        strs = '(' + ','.join(args) + ')' if all(',' not in a for a in args) else d + ';' + ';'.join(args) + ';' + d
        ints = '%d,%d' % (start, stop) + (',%d' % step if step != 1 or flags or rng.random() < 0.3 else '') + (',%d' % flags if flags else '')
        if start < 0 or stop < 0 or step < 0 or rng.random() < 0.3:
            ints = '(' + ints + ')'
        esep = sep or ''
        if flags & 1:
            esep = ',' + esep
        if flags & 2:
            esep = esep + ','
        exp = join_spec([body.replace('n', str(k)) for k in nums], [esep.replace('n', str(k)) if flags & 4 else esep for k in nums], fsep)
        both('#FOR' + ints + strs, exp, 'for', {'start': start, 'stop': stop, 'step': step, 'flags': flags, 'expected': exp})
        if flags & 4:
            flags, sep = flags - 4, rng.choice((None, ', ', ';'))
            args = ['n', body] + ([sep] if sep is not None else [])
            strs = '(' + ','.join(args) + ')' if all(',' not in a for a in args) else d + ';' + ';'.join(args) + ';' + d
            fsep = None
        vals = [rng.choice(('a', 'bb', '1', '22', 'x y', 'Q')) for _ in range(rng.randrange(1, 5))]
        exp = join_spec([body.replace('n', v) for v in vals], [sep or ''] * len(vals), fsep)
        both('#FOREACH(' + ','.join(vals) + ')' + strs, exp, 'foreach', {'values': vals, 'expected': exp})
        keys = [rng.randrange(0, 6) for _ in range(rng.randrange(0, 5))]
        pairs = [(k, rng.choice(('a', 'b', 'cc', 'd', '', 'x:y', ':', '1:2'))) for k in keys]    # the first colon ends the key
        look = rng.randrange(-1, 7)
        exp = 'dflt'
        for k, v in pairs:
            if k == look:
                exp = v
        both('#MAP(%d)(dflt%s)' % (look, ''.join(',%s:%s' % (rng.choice((str(k), '$%X' % k, '%d+0' % k)), v) for k, v in pairs)), exp, 'map',
             {'lookup': look, 'pairs': pairs, 'expected': exp})
        a, b = rng.randrange(-3, 4), rng.randrange(-3, 4)
        op = rng.choice(('<', '<=', '==', '!=', '>', '>='))
        truth = {'<': a < b, '<=': a <= b, '==': a == b, '!=': a != b, '>': a > b, '>=': a >= b}[op]
        both('#IF(%d%s%d)(yes,no)' % (a, op, b), 'yes' if truth else 'no', 'if', {'cond': '%d%s%d' % (a, op, b)})
        # truth value of an arithmetic expression: non-zero (negative values included) is true
        v = rng.choice((0, 1, -1, 2, -2, 255, -256, a * b, a - b))
        both('#IF(%d)%s' % (v, rng.choice(('(yes,no)', '[yes,no]', '{yes,no}', '/|yes|no|/'))), 'yes' if v else 'no', 'if', {'cond': str(v)})
    # #STRaddr[,flags,length][(end)]: terminators (zero byte, bit 7, end expression, length), strip flags, #SPACE runs
    def exact(w, html, text):
        r = real_expand(env, w, text)
        got = decode(r) if r.startswith('ok') else r
        return htmllib.unescape(got).replace('\xa0', ' ') if html and r.startswith('ok') else got
    for _ in range(chk.scale(60, 900)):
        core = ''.join(rng.choice('ABcd19 ., ') for _ in range(rng.randrange(1, 9))).strip() or 'Q'
        if rng.random() < 0.5:
            core = core.replace(' ', rng.choice((' ', '  ', '   ')), 1)
        lead, trail = ' ' * rng.choice((0, 0, 1, 3)), ' ' * rng.choice((0, 0, 1, 2))
        body = lead + core + trail
        term = rng.choice(('zero', 'bit7', 'end255', 'length'))
        if term == 'bit7' and body.endswith(' ') and rng.random() < 0.5:
            body = body.rstrip() or 'Q'
        data = [ord(c) for c in body]
        addr = rng.choice((30000, 49152, 65536 - len(data) - 1, 16384))
        if term == 'zero':
            data.append(0)
        elif term == 'bit7':
            data[-1] |= 128
        elif term == 'end255':
            data.append(255)
        else:
            data.append(rng.choice((65, 0, 200)))
        flags = rng.choice((0, 0, 1, 2, 3, 4, 5, 6, 7))
        exp = body
        if flags & 1:
            exp = exp.rstrip()
        if flags & 2:
            exp = exp.lstrip()
        if term == 'end255':
            text = '[#STR(%d,%d)(%s)]' % (addr, flags + 8, rng.choice(('$b==255', '$b>200', '$b&128')))
        elif term == 'length':
            text = '[#STR(%d,%d,%d)]' % (addr, flags, len(body))
        else:
            text = '[#STR%d%s]' % (addr, ',%d' % flags if flags or rng.random() < 0.3 else '')
        pokes = '#POKES' + ';'.join('%d,%d' % (addr + i, b) for i, b in enumerate(data))
        for html in (False, True):
            w = env.writer(html)
            real_expand(env, w, pokes)
            got = exact(w, html, text)
            note_case(chk, 'sem-str-flags', ('strf', body, term, flags, html), {'poked': body, 'text': text, 'expected': '[' + exp + ']'})
            if got != '[' + exp + ']':
                chk.violation('semantics-str-flags', f'after poking {body!r} (+ terminator: {term}) at {addr}: {text!r} gives {got!r}, documented: {"[" + exp + "]"!r} (html={html})',
                              {'kind': 'hist', 'html': html, 'base': 0, 'case': 0, 'history': [pokes, text], 'expected': '[' + exp + ']', 'nbsp': True})
                break
    # #WHILE(expr)(body): the body is expanded while expr is true, each expansion stripped; #FORMAT[case](text)
    for _ in range(chk.scale(40, 600)):
        k, dec = rng.randrange(0, 6), rng.choice((1, 1, 2))
        inner = rng.choice(('#EVAL({a})', '<#EVAL({a}*2)>', '#N({a}) x', 'y', '#IF({a}>2)(big,#EVAL({a}))'))
        pad = rng.choice(('', ' ', '  '))
        dl, dr = rng.choice(('()', '[]', '//', '||'))
        text = '#LET(a=%d)[#WHILE({a}>0)%s%s%s#LET(a={a}-%d)%s%s]' % (k, dl, pad, inner, dec, pad, dr)
        vals = list(range(k, 0, -dec))
        piece = {'#EVAL({a})': str, '<#EVAL({a}*2)>': lambda v: '<%d>' % (v * 2), '#N({a}) x': lambda v: '%d x' % v, 'y': lambda v: 'y',
                 '#IF({a}>2)(big,#EVAL({a}))': lambda v: 'big' if v > 2 else str(v)}[inner]
        exp = '[' + ''.join(piece(v) for v in vals) + ']'
        s_val = rng.choice(('AbC', 'x Y', 'q'))
        case = rng.choice((None, 0, 1, 2))
        ftext = '#LET(s$=%s)#LET(a=%d)#FORMAT%s%s' % (s_val, k, '' if case is None else case, rng.choice(('(%s)', '[%s]', '/%s/', '{%s}')) % 'Val={s$}-{a}|Zz')
        fexp = 'Val=%s-%d|Zz' % (s_val, k)
        fexp = fexp.lower() if case == 1 else fexp.upper() if case == 2 else fexp
        for html in (False, True):
            for t, e, key in ((text, exp, 'while'), (ftext, fexp, 'format')):
                got = exact(env.writer(html), html, t)
                note_case(chk, 'sem-' + key, (key, t, html), {'text': t, 'expected': e})
                if got != e:
                    chk.violation('semantics-' + key, f'{t!r} gives {got!r}, documented: {e!r} (html={html})',
                                  {'kind': 'hist', 'html': html, 'base': 0, 'case': 0, 'history': [t], 'expected': e, 'nbsp': True})
    # #CHRnum[,flags]: flag 2 maps 94/96/127 to the ZX Spectrum characters (and nothing else), flag 1 selects the
    # character itself instead of a numeric character reference in HTML mode
    for num in (32, 65, 93, 94, 95, 96, 97, 126, 127, 128, 163, 169, 255, 8593):
        for flags in (None, 0, 1, 2, 3):
            code = {94: 8593, 96: 163, 127: 169}.get(num, num) if flags in (2, 3) else num
            text = '[#CHR%d%s]' % (num, '' if flags is None else ',%d' % flags) if rng.random() < 0.5 else '[#CHR(%d%s)]' % (num, '' if flags is None else ',%d' % flags)
            for html, base, case, w in writers[:1] + writers[3:4]:
                r = real_expand(env, w, text)
                exp = '[&#%d;]' % code if html and flags in (None, 0, 2) else '[%s]' % chr(code)
                note_case(chk, 'sem-chr', ('chr', text, html), {'text': text, 'expected': exp})
                if r != 'ok ' + codes(exp):
                    chk.violation('semantics-chr', f'{text!r} (html={html}) gives {decode(r) if r.startswith("ok") else r!r}, documented: {exp!r}',
                                  {'kind': 'sem', 'html': html, 'base': base, 'case': case, 'text': text, 'expected': exp, 'exact': True})
    # string parameter lists in every delimiter form: commas between parentheses are retained whenever the separator
    # is a comma; with another separator the parameters are split at every separator
    for parts in (['a', '(b,c)', 'd'], ['(x,y)'], ['p', 'f(1,(2,3))', ''], ['', '(,)'], ['a b', '(c, d)'], ['u', 'v'], ['(m,n)', '(o,p)', 'q', 'r']):
        exp = ''.join('[%s]' % x for x in parts)
        body = ','.join(parts)
        forms = ['(%s)' % body, '[%s]' % body, '{%s}' % body, '/,%s,/' % body, '|,%s,|' % body, '!,%s,!' % body]
        for d1, sep in (('/', ';'), ('/', '/'), ('|', ':'), ('@', '|'), (':', ';')):
            if all(x and sep not in x and d1 not in x for x in parts):
                forms.append(d1 + sep + sep.join(parts) + sep + d1)
        for f in forms:
            both('#FOREACH%s(n,[n])' % f, exp, 'string-params', {'form': f, 'parts': parts})
        if len(parts) == 2:
            for f in forms:
                both('#IF(1)%s' % f, parts[0], 'string-params', {'form': f})
                both('#IF(0)%s' % f, parts[1], 'string-params', {'form': f})
    # #PUSHS[name]: the name is limited to '$', '#', 0-9, A-Z, a-z; whatever follows is text
    names = ('', 'x', 'name1', '$#', 'a$', '9', 'q#1')
    for i, tail in enumerate(('_y', '-1', '.', ',z', ':', ';', '(a)', '[b]', '{c}', '/', '_', '~', '!k', '=', '+2', '*', '%', '@', '|', "'", '"', '<', '>', '&', '?', '^', '\\')):
        for name in (names[i % len(names)], names[(i + 3) % len(names)]):
            text = '#PUSHS%s%s#POPS' % (name, tail)
            for html, base, case, w in writers[:1] + writers[3:4]:      # (a #POPS copies 64K: two writers only)
                r = real_expand(env, w, text)
                note_case(chk, 'sem-pushs-name', ('pushs-name', text, html), {'name': name, 'tail': tail})
                if not r.startswith('ok') or canon(decode(r)) != canon(tail):
                    chk.violation('semantics-pushs-name', f'{text!r} expands to {decode(r) if r.startswith("ok") else r!r} (html={html}), documented: the name ends at {tail[0]!r}, giving {tail!r}',
                                  {'kind': 'sem', 'html': html, 'base': base, 'case': case, 'text': text, 'expected': tail})
    # #LET visible later, across separate expand calls; #PEEK after #POKES; push/pop restores
    for _ in range(chk.scale(120, 2000)):
        for html in (False, True):
            w = env.writer(html)
            env_vals = {}
            hist = []
            for _ in range(rng.randrange(1, 6)):
                name = rng.choice(('a', 'b', 'cnt', 'x1'))
                if rng.random() < 0.6 or not env_vals:
                    val = rng.randrange(-50, 500)
                    text = '#LET(%s=%d)' % (name, val)
                else:
                    src = rng.choice(sorted(env_vals))
                    val = env_vals[src] * 2 + 1
                    text = '#LET(%s={%s}*2+1)' % (name, src)
                env_vals[name] = val
                hist.append(text)
                real_expand(env, w, text)
                probe = rng.choice(sorted(env_vals))
                q = rng.choice(('#EVAL({%s})', '#FORMAT/{%s}/', '#N({%s})', '#IF({%s}==%d)(%d,wrong)' % ('%s', env_vals[probe], env_vals[probe])))
                q = q % probe
                hist.append(q)
                r = real_expand(env, w, q)
                note_case(chk, 'sem-let', ('let', tuple(hist)), {'history': hist[-4:], 'expected': env_vals[probe]})
                exp = str(env_vals[probe])
                if q.startswith('#N') and not (0 <= env_vals[probe]):
                    continue
                if r != 'ok ' + codes(exp):
                    chk.violation('semantics-let-visible', f'after {hist[:-1]!r}, {q!r} gives {r!r}, expected {exp!r}',
                                  {'kind': 'hist', 'html': html, 'base': 0, 'case': 0, 'history': hist, 'expected': exp})
                    break
    # dictionary variables: #LET(name[]=(default[,k1[:v1],...])), #LET(name[key]=value), fields {name[key]}
    for _ in range(chk.scale(60, 900)):
        keys = rng.sample(range(0, 12), rng.randrange(0, 5))
        strs_ = rng.random() < 0.4
        name = rng.choice(('n', 'dd', 'tbl')) + ('$' if strs_ else '')
        dflt = rng.choice(('?', 'none', 'z')) if strs_ else rng.randrange(0, 100)
        vals = {}
        pairs = []
        for k in keys:
            if rng.random() < 0.2:
                vals[k] = str(k) if strs_ else k          # value omitted: defaults to the key
                pairs.append(str(k))
            else:
                vals[k] = rng.choice(('a', 'bb', 'x y', 'Q')) if strs_ else rng.randrange(0, 1000)
                pairs.append('%s:%s' % (rng.choice((str(k), '$%X' % k, '%d+0' % k)), vals[k]))
        body = ','.join([str(dflt)] + pairs)
        hist = ['#LET(%s[]=%s)' % (name, rng.choice(('(%s)', '[%s]', '/,%s,/')) % body)]
        if rng.random() < 0.5:
            k2 = rng.randrange(0, 12)
            vals[k2] = rng.choice(('new', 'w')) if strs_ else rng.randrange(0, 1000)
            hist.append('#LET(%s[%s]=%s)' % (name, rng.choice((str(k2), '%d+1' % (k2 - 1), '#EVAL(%d)' % k2)), vals[k2]))
        probes = rng.sample(range(0, 12), 3)
        q = '|'.join(('#FORMAT0({%s[%d]})' if strs_ else '#EVAL({%s[%d]})') % (name, k) for k in probes)
        exp = '|'.join(str(vals.get(k, dflt)) for k in probes)
        for html in (False, True):
            w = env.writer(html)
            for t in hist:
                real_expand(env, w, t)
            r = real_expand(env, w, q)
            note_case(chk, 'sem-let-dict', ('letdict', tuple(hist), q, html), {'history': hist + [q], 'expected': exp})
            if not r.startswith('ok') or canon(decode(r)) != canon(exp):
                chk.violation('semantics-let-dictionary', f'after {hist!r}, {q!r} gives {decode(r) if r.startswith("ok") else r!r}, documented: {exp!r} (html={html})',
                              {'kind': 'hist', 'html': html, 'base': 0, 'case': 0, 'history': hist + [q], 'expected': exp, 'canon': True})
                break
    for _ in range(chk.scale(150, 2500)):
        html = rng.random() < 0.5
        w = env.writer(html)
        # some initial pokes, then a balanced block, then compare the whole 64K image
        def poke():
            return '#POKES%d,%d,%d,%d' % (rng.choice((0, 16383, 16384, 30000, 65530, 65535, rng.randrange(65536))), rng.randrange(256),
                                         rng.choice((1, 1, 2, 5, 300)), rng.choice((1, 1, 2, 256, 32)))
        def balanced(d):
            out = []
            for _ in range(rng.randrange(0, 4)):
                if d > 0 and rng.random() < 0.4:
                    out += ['#PUSHS' + rng.choice(('', 'n', 'x1')) + ' '] + balanced(d - 1) + ['#POPS']
                else:
                    out.append(poke())
            return out
        pre = [poke() for _ in range(rng.randrange(0, 3))]
        for t in pre:
            real_expand(env, w, t)
        before = w.snapshot[0:65536]
        depth_before = len(w._snapshots)
        block = ['#PUSHS '] + balanced(2) + ['#POPS']
        text = rng.choice((' ', '')).join(block)
        r = real_expand(env, w, text)
        after = w.snapshot[0:65536]
        note_case(chk, 'sem-pushpop', ('pushpop', text), {'pre': pre, 'text': text})
        if not r.startswith('ok') or after != before or len(w._snapshots) != depth_before:
            bad = [a for a in range(65536) if after[a] != before[a]][:5]
            chk.violation('semantics-push-pop-restore', f'after {pre!r}, {text!r} does not restore memory (result {r!r}, differing cells {bad})',
                          {'kind': 'pushpop', 'html': html, 'pre': pre, 'text': text})
        # #POKES frame
        addr, byte, length, step = rng.choice((0, 5, 16383, 65534, 65535, 40000)), rng.randrange(256), rng.choice((1, 2, 3, 7, 400)), rng.choice((1, 2, 3, 255, 256, 8192))
        text = '#POKES%d,%d,%d,%d' % (addr, byte, length, step)
        if rng.random() < 0.3:
            # downwards (addr + i*step with a negative step), kept inside the address space
            length, step = rng.choice((1, 2, 3, 7)), rng.choice((-1, -1, -2, -3, -256))
            addr = rng.choice((65535, 40000, 16384 + (length - 1) * -step, (length - 1) * -step))
            text = '#POKES(%d,%d,%d,%d)' % (addr, byte, length, step)
        real_expand(env, w, text)
        after2 = w.snapshot[0:65536]
        cells = {(addr + i * step) % 65536 for i in range(length)}
        wrong = [a for a in range(65536) if after2[a] != (byte if a in cells else after[a])][:5]
        note_case(chk, 'sem-pokes', ('pokes', addr, byte, length, step), {'text': text})
        if wrong:
            chk.violation('semantics-pokes-frame', f'{text!r} changes cells other than addr+i*step or misses some: {wrong}',
                          {'kind': 'pokes', 'html': html, 'text': text})
        a = rng.choice(sorted(cells))
        r = real_expand(env, w, '#PEEK%d' % a)
        if r != 'ok ' + codes(str(byte)):
            chk.violation('semantics-peek-after-pokes', f'{text!r} then #PEEK{a} gives {r!r}', {'kind': 'pokes', 'html': html, 'text': text})


class Nest:
    """Integer-valued texts built together with their documented value: literals, replacement fields of variables
    bound by the history, sums/products, and *nested macros whose own string arguments use every delimiter form*
    (parentheses, square brackets, braces, alternative delimiter + separator) — the forms the documentation of
    numeric parameters allows inside a parenthesised parameter list. The oracle is the construction itself."""

    def __init__(self, rng, ivars):
        self.rng = rng
        self.ivars = dict(ivars)        # variables bound by #LET before the text is expanded (never re-bound by the text)
        self.fresh = 0
        self.prebound = []              # #LET texts for the history: earlier values of variables the text re-binds

    @staticmethod
    def bare_comma(s):
        """a comma outside parentheses (what `_split_unbracketed` would split on)"""
        depth = 0
        for c in s:
            if c == '(':
                depth += 1
            elif c == ')':
                depth -= 1
            elif c == ',' and depth <= 0:
                return True
        return False

    def strs(self, parts, forms='([{a'):
        """parts as a string parameter list, in a delimiter form that the documentation allows for them"""
        r = self.rng
        body_chars = ''.join(parts)
        ok = []
        nocomma = not any(self.bare_comma(p) for p in parts)
        for f in forms:
            if f == '(' and nocomma and body_chars.count('(') == body_chars.count(')'):
                ok.append(f)
            elif f == '[' and nocomma and '[' not in body_chars and ']' not in body_chars:
                ok.append(f)
            elif f == '{' and nocomma and all(self.balanced(p, '{', '}') for p in parts):
                ok.append(f)
            elif f == 'a':
                ok.append(f)
        f = r.choice(ok)
        if f == 'a':
            for _ in range(50):
                d1, sep = r.choice('/|:;!@'), r.choice('/|:;')
                if d1 != sep and d1 not in body_chars and sep not in body_chars:
                    return d1 + sep + sep.join(parts) + sep + d1
            return None
        o, c = {'(': '()', '[': '[]', '{': '{}'}[f]
        return o + ','.join(parts) + c

    @staticmethod
    def balanced(s, o, c):
        depth = 0
        for ch in s:
            if ch == o:
                depth += 1
            elif ch == c:
                depth -= 1
                if depth < 0:
                    return False
        return depth == 0

    def lit(self):
        r = self.rng
        v = r.choice((0, 1, 2, 3, 5, 7, 10, 16, 100, 255, 256, r.randrange(1000)))
        return (str(v) if r.random() < 0.7 else '$%X' % v), v

    def val(self, d):
        """(text, value): an integer parameter valid inside a parenthesised parameter list"""
        r = self.rng
        k = r.random()
        if d <= 0 or k < 0.12:
            if self.ivars and r.random() < 0.35:
                n = r.choice(sorted(self.ivars))
                return '{%s}' % n, self.ivars[n]
            return self.lit()
        if k < 0.24:
            (ta, va), (tb, vb) = self.val(d - 1), self.val(d - 1)
            op = r.choice('+*-')
            # operands are parenthesised: the expansion of a nested loop is itself a sum
            return '(%s)%s(%s)' % (ta, op, tb), {'+': va + vb, '*': va * vb, '-': va - vb}[op]
        for _ in range(20):
            res = self.nested(d, r.choice(('if', 'if', 'if', 'for', 'for', 'foreach', 'foreach', 'map', 'eval', 'evalhex', 'n', 'format',
                                            'let', 'pokepeek', 'ifvar', 'hash')))
            if res is not None and res[0] is not None:
                return res
        return self.lit()

    def nested(self, d, kind):
        r = self.rng
        if kind == 'if':
            (tc, vc) = self.val(d - 1) if r.random() < 0.4 else r.choice((('1', 1), ('0', 0), ('2>1', 1), ('1==2', 0)))
            (ta, va), (tb, vb) = self.val(d - 1), self.val(d - 1)
            s = self.strs([ta, tb])
            return (None if s is None else '#IF(%s)%s' % (tc, s)), (va if vc else vb)
        if kind == 'ifvar' and self.ivars:
            n = r.choice(sorted(self.ivars))
            (ta, va), (tb, vb) = self.val(d - 1), self.val(d - 1)
            lim = r.choice((self.ivars[n], self.ivars[n] + 1, 0))
            s = self.strs([ta, tb])
            return (None if s is None else '#IF({%s}<%d)%s' % (n, lim, s)), (va if self.ivars[n] < lim else vb)
        if kind == 'for':
            lo, hi = r.randrange(0, 4), r.randrange(0, 6)
            if hi < lo:
                lo, hi = hi, lo
            var = r.choice(('k', 'q', 'zz'))       # not a substring of a variable name used in the body
            form = r.random()
            if form < 0.4 or not self.ivars:
                body, f = var, (lambda i: i)
            elif form < 0.7:
                n = r.choice(sorted(self.ivars))
                body, f = '%s*{%s}' % (var, n), (lambda i, m=self.ivars[n]: i * m)
            else:
                body, f = '(%s+1)*2' % var, (lambda i: (i + 1) * 2)
            s = self.strs([var, body, '+'])
            return (None if s is None else '#FOR(%d,%d)%s' % (lo, hi, s)), sum(f(i) for i in range(lo, hi + 1))
        if kind == 'foreach':
            vals = [r.randrange(0, 20) for _ in range(r.randrange(1, 5))]
            var = r.choice(('k', 'q', 'zz'))       # not a substring of a variable name used in the body
            if self.ivars and r.random() < 0.5:
                n = r.choice(sorted(self.ivars))
                body, f = '%s*{%s}' % (var, n), (lambda i, m=self.ivars[n]: i * m)
            else:
                body, f = var, (lambda i: i)
            s1, s2 = self.strs([str(v) for v in vals]), self.strs([var, body, '+'])
            return (None if s1 is None or s2 is None else '#FOREACH%s%s' % (s1, s2)), sum(f(v) for v in vals)
        if kind == 'map':
            (tk, vk) = self.val(d - 1)
            keys = r.sample(range(0, 12), r.randrange(1, 4))
            if r.random() < 0.6:
                keys[0] = vk
            outs = {k: r.randrange(0, 50) for k in keys}
            dflt = r.randrange(50, 60)
            s = self.strs([str(dflt)] + ['%d:%d' % (k, outs[k]) for k in keys])
            return (None if s is None else '#MAP(%s)%s' % (tk, s)), outs.get(vk, dflt)
        if kind == 'eval':
            t, v = self.val(d - 1)
            return '#EVAL(%s)' % t, v
        if kind == 'evalhex':
            t, v = self.val(d - 1)
            if v < 0:
                return None
            return '$#EVAL(%s,16)' % t, v
        if kind == 'n':
            t, v = self.val(d - 1)
            if v < 0:
                return None
            return '#N(%s)' % t, v          # decimal writers only
        if kind == 'format' and self.ivars:
            n = r.choice(sorted(self.ivars))
            return r.choice(('#FORMAT0({%s})', '#FORMAT/{%s}/', '#FORMAT0{{%s}}', '#FORMAT0[{%s}]', '#FORMAT|{%s}|')) % n, self.ivars[n]
        if kind == 'let':
            # a nested #LET binds a variable that a replacement field later in the same parameter string reads. The
            # variable is fresh (read nowhere else in the text), so the value does not depend on whether the enclosing
            # branch is selected or on the order in which other fields are substituted; the history may have bound
            # it to another value before
            if self.fresh >= 26:
                return None
            n = 'v' + 'abcdefghijklmnopqrstuvwxyz'[self.fresh]
            self.fresh += 1
            t, v = self.val(d - 1)
            s = self.strs(['%s=%s' % (n, t)], forms='([a' if '{' in t else '([{a')
            if s is None:
                return None
            if s[0] not in '([{':
                s = s[0] + s[2:-2] + s[0]      # single string parameter: one delimiter character, no separator
                if s[0] in t:
                    return None
            if r.random() < 0.5:
                self.prebound.append('#LET(%s=%d)' % (n, r.randrange(0, 9)))
            return '#LET%s{%s}' % (s, n), v
        if kind == 'pokepeek':
            a = r.choice((30000, 65535, 16384, 45000 + r.randrange(1000)))     # cells no context pokes
            (tv, vv) = self.val(d - 1)
            if not 0 <= vv < 256 or '#PEEK' in tv:
                return None
            return '#POKES(%d,%s)#PEEK(%d)' % (a, tv, a), vv
        if kind == 'hash':
            t, v = self.val(d - 1)
            return '#EVAL#((%s))' % t, v
        return None


def e2e_nested(chk, env):
    """Macros nested inside integer parameters, with every delimiter form for the nested macro's own string
    arguments (documentation of numeric parameters: a parenthesised parameter may contain skool macros and
    replacement fields; documentation of string parameters: (..), [..], {..} or delimiter+separator), and nested
    #LET followed by a replacement field. Values are known by construction; both writers must produce them."""
    rng = chk.rng
    fixed = [('#EVAL(#IF(1){2,3})', '2'), ('#EVAL(#IF(0){2,3})', '3'), ('#EVAL(#FOR(1,3){n,n,+})', '6'),
             ('#N(#IF(0)[2,3]+#IF(1){4,5})', '7'), ('#LET(a=2)#EVAL(#FOREACH[1,2,3]{n,n*{a},+})', '12'),
             ('#LET(x=1)#EVAL(#LET(x=5){x})', '5'), ('#LET(x=1)#EVAL({x}+#LET(x=5)0)', '5'), ('#EVAL(#MAP(2){0,1:5,2:7})', '7'),
             ('#LET(a=4)#EVAL(#IF({a}>3){{a},0}*2)', '8'), ('#LET(a=4)#IF(#IF(1){{a},0}==4){yes,no}', 'yes'),
             ('#LET(a=3)#FOR(1,#IF(1){{a},9})(n,n,;)', '1;2;3'), ('#LET(a=65)#CHR(#IF(1){{a},9})', 'A'),
             ('#POKES(30000,#IF(1){7,8})#PEEK(30000)', '7'), ('#LET(a=2)#PEEK(#POKES(30000+{a},9)#IF(1){30002,0})', '9'),
             ('#LET(a=2)#MAP(#IF(1){{a},0})(x,2:hit)', 'hit'), ('#LET(a=2)#LET(b=#IF(1){{a}+1,0})#EVAL({b})', '3'),
             ('#LET(a=2)[#SPACE(#IF(1){{a},9})]', '[  ]'), ('#LET(a=2)#EVAL#((#IF(1){{a},9}+1))', '3'),
             ('#LET(a=7)#EVAL(#FORMAT0{{a}}+1)', '8'), ('#LET(a=1)#LET(b=2)#EVAL(#FOR({a},{b}){n,n*{b},+})', '6'),
             ('#LET(n$=ab)#IF(#IF(1){1,0}){{n$},x}', '{n$}'), ('#EVAL(#IF(1)/|2|3|/)', '2'), ('#EVAL(#FOREACH{1,2}[n,n,+])', '3')]
    writers = None

    def check(history, text, exp, tag):
        for html in (False, True):
            w = env.writer(html)
            hist = list(history) + [text]
            r = None
            for t in hist:
                r = real_expand(env, w, t)
            note_case(chk, 'sem-nested-' + tag, ('nested', tuple(hist), html), {'history': hist, 'expected': exp})
            got = decode(r) if r.startswith('ok') else r
            if '#SPACE' in text and r.startswith('ok'):
                # white space is what #SPACE is about: compared exactly (the HTML writer emits &#160;)
                bad = (htmllib.unescape(got).replace('\xa0', ' ') if html else got) != exp
            else:
                bad = not r.startswith('ok') or canon(got) != canon(exp)
            if bad:
                macros = '+'.join(sorted(set(re.findall(r'#[A-Z]+', text))))
                chk.violation('semantics-nested-int-parameter:' + macros,
                              f'after {list(history)!r}, {text!r} expands to {got!r} (html={html}); the documented semantics (nested macros are '
                              f'expanded, then replacement fields are substituted, then the parameters are evaluated) give {exp!r}',
                              {'kind': 'hist', 'html': html, 'base': 0, 'case': 0, 'history': hist, 'expected': exp, 'canon': True,
                               'nbsp': '#SPACE' in text})
                return False
        return True

    nbad = sum(not check([], text, exp, 'fixed') for text, exp in fixed)
    for _ in range(chk.scale(450, 6000)):
        if nbad >= 8:
            break                    # enough concrete inputs
        ivars = {n: rng.randrange(0, 9) for n in rng.sample(['a', 'b', 'c', 'nv'], rng.randrange(0, 4))}
        history = ['#LET(%s=%d)' % (n, v) for n, v in sorted(ivars.items())]
        nest = Nest(rng, ivars)
        d = rng.choice((1, 1, 2, 2, 3))
        t, v = nest.val(d)
        if '#' not in t:
            continue
        ctx = rng.choice(('eval', 'eval', 'n', 'if', 'map', 'for', 'chr', 'space', 'peek', 'pokes', 'let', 'evalw', 'def'))
        if ctx == 'eval':
            text, exp = '#EVAL(%s)' % t, str(v)
        elif ctx == 'evalw':
            t2, v2 = nest.val(1)
            if not 0 <= v2 <= 12:
                t2, v2 = '3', 3
            text = '#EVAL(%s,10,%s)' % (t, t2)
            exp = ('-' if v < 0 else '') + str(abs(v)).rjust(v2 - (1 if v < 0 else 0), '0')
        elif ctx == 'n':
            if v < 0:
                continue
            text, exp = '#N(%s)' % t, str(v)
        elif ctx == 'if':
            text, exp = '#IF(%s==%d)%s' % (t, v + rng.choice((0, 0, 1)), rng.choice(('(yes,no)', '[yes,no]', '{yes,no}', '/|yes|no|/'))), None
            exp = 'yes' if text.startswith('#IF(%s==%d)' % (t, v)) else 'no'
        elif ctx == 'map':
            text, exp = '#MAP(%s)%s' % (t, rng.choice(('(miss,%d:hit)', '[miss,%d:hit]', '{miss,%d:hit}')) % v), 'hit'
        elif ctx == 'for':
            t2, v2 = nest.val(1)
            if not (-3 <= v <= 30 and -3 <= v2 <= 30 and abs(v2 - v) < 12):
                continue
            text, exp = '#FOR(%s,%s)(n,[n],;)' % (t, t2), ';'.join('[%d]' % i for i in range(v, v2 + 1))
        elif ctx == 'chr':
            if not 0 <= v <= 25:
                continue
            text, exp = '#CHR(65+%s)' % (t if '-' not in t else '(%s)' % t), chr(65 + v)
        elif ctx == 'space':
            if not 0 <= v <= 8:
                continue
            text, exp = '[#SPACE(%s)]' % t, '[' + ' ' * v + ']'
        elif ctx == 'peek':
            if not 0 <= v <= 200:
                continue
            history.append('#POKES%d,%d' % (40000 + v, 77))
            text, exp = '#PEEK(40000+%s)' % (t if '-' not in t else '(%s)' % t), '77'
        elif ctx == 'pokes':
            if not 0 <= v <= 255:
                continue
            text, exp = '#POKES(50000,%s)#PEEK50000' % t, str(v)
        elif ctx == 'let':
            text, exp = '#LET(res=%s)#EVAL({res})' % t, str(v)
        else:
            history.append('#DEF(#ZQSUM(p,q=1) #EVAL($p*2+$q))')
            text, exp = '#ZQSUM(%s)' % t, str(v * 2 + 1)
        if not safe_text(text):
            continue
        nbad += not check(nest.prebound + history, text, exp, ctx)


MODE_INDEPENDENT = {'#' + m for m in ('EVAL', 'N', 'IF', 'MAP', 'FOR', 'FOREACH', 'WHILE', 'LET', 'FORMAT', 'DEF', 'PEEK', 'POKES', 'PUSHS',
                                         'POPS', 'CHR', 'STR', 'SPACE', 'PC', 'RAW', 'VERSION')}


def printable(s):
    return all(32 <= ord(c) < 127 or ord(c) > 160 for c in s)


def e2e_def(chk, env):
    """#DEF (not modelled in Lean): the documented semantics — integer parameters with defaults, positional or
    keyword arguments, an optional string parameter, $-placeholders or replacement fields in the body, the body
    expanded after substitution — evaluated through both writers with an oracle written from the documentation."""
    rng = chk.rng
    for k in range(chk.scale(150, 2500)):
        name = 'ZQ' + ''.join(rng.choice('ABCDEFGH') for _ in range(3))
        inames = rng.sample(['a', 'b', 'c', 'len'], rng.randrange(1, 4))
        ndef = rng.randrange(0, len(inames) + 1)
        defaults = {n: rng.randrange(0, 50) for n in inames[len(inames) - ndef:]}
        flags = rng.choice((0, 0, 0, 1, 1, 2, 3))      # 1: replacement fields; 2: expanded in isolation, output stripped
        sname = rng.choice((None, None, 's'))
        sdefault = rng.choice((None, 'dflt', '', 'REF')) if sname else None
        if flags & 1:
            ph = lambda n: '{%s}' % n
        else:
            ph = lambda n: rng.choice(('$%s', '${%s}')) % n
        kind = rng.choice(('list', 'sum', 'if'))
        if kind == 'list':
            body = '[' + '|'.join(ph(n) for n in inames) + ']'
        elif kind == 'sum':
            body = '#EVAL(' + '+'.join(ph(n) + '*%d' % (i + 2) for i, n in enumerate(inames)) + ')'
        else:
            body = '#IF(%s>%d)(big,small)' % (ph(inames[0]), 20)
        if sname:
            body += '<' + ph(sname) + '>'
        sig = ','.join(n + ('=%d' % defaults[n] if n in defaults else '') for n in inames)
        if sdefault == 'REF':
            sdefault = '<%s>' % ph(inames[0])        # the default of a string parameter may refer to an integer argument
        ssig = '' if not sname else '(%s%s)' % (sname, '' if sdefault is None else '=' + sdefault)
        define = '#DEF%s(#%s(%s)%s %s)' % (flags or '', name, sig, ssig, body)
        # a call: required arguments always, optional ones sometimes; positional or keyword
        vals = {n: rng.randrange(0, 60) for n in inames}
        given = [n for n in inames if n not in defaults or rng.random() < 0.5]
        given = [n for n in inames if n in given or any(m in given for m in inames[inames.index(n) + 1:])] \
            if rng.random() < 0.6 else given
        if not given:
            given = [inames[0]]          # `#NAME(str)` would be read as the integer arguments
        positional = all(n in given for n in inames[:len(given)]) and given == inames[:len(given)]
        if positional and rng.random() < 0.6:
            args = ','.join(str(vals[n]) for n in given)
            call = '#%s%s' % (name, args if rng.random() < 0.5 else '(' + args + ')')
        else:
            order = given[:]
            rng.shuffle(order)
            call = '#%s(%s)' % (name, ','.join('%s=%d' % (n, vals[n]) for n in order))
        eff = {n: (vals[n] if n in given else defaults[n]) for n in inames}
        sval = None
        if sname:
            if sdefault is None or rng.random() < 0.5:
                sval = rng.choice(('str', 'x y', 'Q'))
                call += '(%s)' % sval
            else:
                sval = sdefault if not sdefault.startswith('<') else '<%d>' % eff[inames[0]]
        if kind == 'list':
            exp = '[' + '|'.join(str(eff[n]) for n in inames) + ']'
        elif kind == 'sum':
            exp = str(sum(eff[n] * (i + 2) for i, n in enumerate(inames)))
        else:
            exp = 'big' if eff[inames[0]] > 20 else 'small'
        if sname:
            exp += '<' + sval + '>'
        tail = rng.choice(('', '.', ' end'))
        for html in (False, True):
            w = env.writer(html)
            r0 = real_expand(env, w, define)
            r = real_expand(env, w, call + tail)
            note_case(chk, 'sem-def', ('def', define, call), {'define': define, 'call': call, 'expected': exp + tail})
            if r0 != 'ok' and r0 != 'ok ':
                chk.violation('semantics-def-define', f'{define!r} gives {r0!r} (html={html})',
                              {'kind': 'hist', 'html': html, 'base': 0, 'case': 0, 'history': [define], 'expected': '', 'canon': True})
            elif not r.startswith('ok') or canon(decode(r)) != canon(exp + tail):
                chk.violation('semantics-def', f'after {define!r}, {call + tail!r} gives {decode(r) if r.startswith("ok") else r!r}, documented: {exp + tail!r} (html={html})',
                              {'kind': 'hist', 'html': html, 'base': 0, 'case': 0, 'history': [define, call + tail], 'expected': exp + tail, 'canon': True})


# #DEF flags as a SUM (documentation: 1 = replacement fields instead of $-placeholders, 2 = expanded in isolation as soon as
# it is encountered + output stripped).  Bodies are written once in a neutral form ('<<a>>' marks a parameter) and rendered
# in $-form (flags 0/2) and in field form (flags 1/3, literal braces doubled); all four macros live in one writer.
DEF_PH = re.compile(r'<<([a-z]+)>>')

# (label, integer parameters with defaults, string parameter (name, default in neutral form) or None, body in neutral form)
DEF_DIRECTED = (
    ('let-eval', 'n', None, '#LET(x=<<n>>*<<n>>) #EVAL({x})'),                 # empty expansion leaves a leading blank
    ('let-eval-tail', 'n', None, '#LET(x=<<n>>+1) #EVAL{x}'),
    ('peek-open', 'a', None, '#PEEK<<a>>'),                                   # unbracketed last parameter: can swallow digits
    ('peek-sum', 'a,b=2', None, '#PEEK<<a>>+<<b>>'),
    ('eval-open', 'a', None, '#EVAL<<a>>'),
    ('eval-open2', 'a,b=3', None, 'v=#EVAL<<a>>*<<b>>'),
    ('n-open', 'a', None, '#N<<a>>'),
    ('n-lead', 'a', None, ' #N(<<a>>,2)'),
    ('chr-open', 'a', None, '#CHR<<a>>'),
    ('chr-closed', 'a', None, '#CHR(<<a>>)'),
    ('space-tail', 'a', None, 'x<<a>>#SPACE2'),                               # trailing blanks produced by a macro
    ('space-lead', 'a', None, '#SPACE(2)y<<a>>'),
    ('space-open', 'a', None, 'z#SPACE<<a>>'),
    ('let-tail', 'a', None, 'v<<a>> #LET(q=<<a>>)'),
    ('let-lead', 'a', None, '#LET(q=<<a>>) v<<a>>'),
    ('let-both', 'a', None, '#LET(q=<<a>>)  m<<a>>  #LET(r=1)'),
    ('inner-blanks', 'a', None, 'p<<a>>  q   r'),
    ('if-open', 'n', None, '#IF(<<n>>==0)'),                                  # the documentation's #IFZERO: not self-contained
    ('if-closed', 'n', ('s', None), '#IF(<<n>>==0)(<<s>>, no )'),
    ('map-open', 'n', None, '#MAP<<n>>'),
    ('for-open', 'n', None, '#FOR1,<<n>>'),
    ('for-closed', 'n', None, '#FOR(1,<<n>>)(k, k )'),
    ('format-brace', 'a', None, '#LET(w=<<a>>)#FORMAT({w:03})'),
    ('str-default', 'a', ('s', '(<<a>>)'), '<<s>>#EVAL<<a>>'),
    ('str-default-blank', 'a', ('s', ' d<<a>> '), '#LET(q=0) <<s>> #N<<a>>'),
    ('str-tail', 'a', ('s', None), '#EVAL(<<a>>) <<s>>'),
    ('literal', 'a', None, 'plain'),
    ('peek-after-text', 'a,b=15', None, 'k #PEEK<<b>>'),
)
DEF_POSTS = ('', '5', '07', ',16', ',2,8', '+1', '*2', '(x)', '(1)', '(a,b)', '(7,2)', '[q]', '{z}', ' end', '.', ' 5', '-1')
DEF_ELEMS = ('w<<a>>', '#LET(x=<<a>>+1)', '#EVAL(<<a>>*2)', '#EVAL({x})', '#N(<<a>>)', '#SPACE(1)', '#SPACE<<b>>', '#IF(<<a>>>5)(hi,lo)',
             '#IF(<<b>>)( t,f )', '#FOR(1,<<b>>)(k,k)', '#LET(y=<<b>>)', '<<a>>', '[<<b>>]', '{lit}', '#CHR(65+<<b>>)', '#PEEK(<<a>>)')
DEF_LAST = ('#PEEK<<a>>', '#EVAL<<b>>', '#N<<a>>', '#CHR<<a>>', '#EVAL<<a>>+<<b>>', '#SPACE<<b>>', '#N<<a>>,2', '#EVAL<<a>>,16', '#MAP<<b>>',
            '#IF(<<a>>)', '#PEEK(<<a>>)', '#EVAL(<<b>>)', '#LET(z=<<a>>)', 'end<<b>>', '#FOR(0,<<b>>)', '#STR<<a>>')


def def_render(neutral, field):
    """Neutral body -> $-form (`$a`, `${a}` before a name character) or field form (`{a}`, other braces doubled)."""
    out, i = [], 0
    for m in DEF_PH.finditer(neutral):
        lit = neutral[i:m.start()]
        i = m.end()
        if field:
            out.append(lit.replace('{', '{{').replace('}', '}}') + '{%s}' % m.group(1))
        else:
            nxt = neutral[i:i + 1]
            out.append(lit + ('${%s}' if (nxt.isalnum() or nxt == '_') else '$%s') % m.group(1))
    lit = neutral[i:]
    out.append(lit.replace('{', '{{').replace('}', '}}') if field else lit)
    return ''.join(out)


def def_subst(neutral, values):
    return DEF_PH.sub(lambda m: str(values[m.group(1)]), neutral)


def def_random_body(rng):
    n = rng.choice((0, 1, 1, 2, 3))
    parts = [rng.choice(DEF_ELEMS) for _ in range(n)] + [rng.choice(DEF_LAST if rng.random() < 0.7 else DEF_ELEMS)]
    body = ''
    for p in parts:
        body += (rng.choice(('', ' ', ' ', '  ')) if body else '') + p
    return body


def e2e_def_flags(chk, env):
    """#DEF flags 0..3 on the same body.  Oracles, all exact (no white-space canonicalisation; the call site is bracketed
    so that AsmWriter.expand's strip of the whole text cannot hide anything):
      * flags 3 = flags 2 and flags 1 = flags 0 (the two ways of writing the arguments define the same macro);
      * flags 0: the call expands to what the body, with the arguments put in textually, expands to at the call site
        (so a macro ending in an unbracketed parameter goes on reading the text that follows the call);
      * flags 2: the body is expanded on its own, stripped, and the text after the call is untouched; a body that is not
        self-contained (the documentation's #IFZERO) is an error;
      * directed cases with the expected text written out."""
    rng = chk.rng
    reset = '#LET(x=0)#LET(y=0)#LET(z=0)#LET(q=0)#LET(r=0)#LET(w=0)'       # every variable a body assigns or reads
    pre = '#POKES1,77;15,99;2,7;12,8;20,3;150,4;157,6 ' + reset
    bodies = [(lab, sig, sp, body) for lab, sig, sp, body in DEF_DIRECTED]
    for k in range(chk.scale(45, 700)):
        sig = rng.choice(('a,b', 'a,b=2', 'a=1,b=2', 'b,a=15'))
        sp = rng.choice((None, None, ('s', None), ('s', 'D<<a>>'), ('s', ' ')))
        body = def_random_body(rng)
        if sp:
            body = rng.choice((body + rng.choice(('', ' ')) + '<<s>>', '<<s>>' + rng.choice(('', ' ')) + body))
        bodies.append(('random', sig, sp, body))

    def outcome(w, text):
        real_expand(env, w, reset)                   # each evaluation starts from the state a fresh writer has after `pre`
        r = real_expand(env, w, text)
        return decode(r) if r.startswith('ok') else None, r

    for lab, sig, sp, body in bodies:
        inames = [p.partition('=')[0] for p in sig.split(',')]
        idef = {p.partition('=')[0]: int(p.partition('=')[2]) for p in sig.split(',') if '=' in p}
        pad = (rng.choice((' ', '  ')), rng.choice(('', ' ', '  ')))
        defs = []
        for flags in range(4):
            field = flags & 1
            ssig = ''
            if sp:
                ssig = '(%s%s)' % (sp[0], '' if sp[1] is None else '=' + def_render(sp[1], field))
            defs.append('#DEF%s(#ZQ%s(%s)%s%s%s%s)' % (flags or rng.choice(('', '0')), 'ABCD'[flags], sig, ssig, pad[0], def_render(body, field), pad[1]))
        posts = DEF_POSTS if lab != 'random' else rng.sample(DEF_POSTS, 5)
        for html in (False, True):
            w = env.writer(html)
            hist = [pre] + defs
            bad_def = False
            for t in hist:
                r = real_expand(env, w, t)
                if not r.startswith('ok'):
                    chk.violation('semantics-def-define', f'{t!r} gives {r!r} (html={html})',
                                  {'kind': 'hist', 'html': html, 'base': 0, 'case': 0, 'history': hist[:hist.index(t) + 1], 'expected': '', 'canon': True})
                    bad_def = True
                    break
            if bad_def:
                continue
            for post in posts:
                for trial in range(2 if lab != 'random' else 1):
                    vals = {n: rng.choice((1, 1, 2, 12, 15)) for n in inames}
                    given = [n for n in inames if n not in idef or rng.random() < 0.5]
                    if rng.random() < 0.5 or not given:
                        given = inames[:max(1, max((inames.index(n) for n in given), default=0) + 1)]
                        args = ','.join(str(vals[n]) for n in given)
                    else:
                        rng.shuffle(given)
                        args = ','.join('%s=%d' % (n, vals[n]) for n in given)
                    eff = {n: (vals[n] if n in given else idef[n]) for n in inames}
                    bare = post in ('', ' end', '.', ' 5') and '=' not in args and not sp and rng.random() < 0.4
                    sarg = ''
                    if sp:
                        if sp[1] is None or (rng.random() < 0.5 and post[:1] != '(') or post[:1] == '(':
                            sval = rng.choice(('str', ' pad ', '', 'x y', '9'))
                            sarg = '(%s)' % sval
                        else:
                            sval = def_subst(sp[1].strip(), eff)          # (a default value is stripped when the macro is defined)
                        eff[sp[0]] = sval
                    site = (lambda name: '[#ZQ%s%s%s%s]' % (name, args if bare else '(' + args + ')', sarg, post))
                    # oracles computed with the body written out by hand at the call site / on its own
                    plain = def_subst(body.strip(), eff)           # (the body is stripped when the macro is defined, before substitution)
                    inplace, rin = outcome(w, '[' + plain + post + ']')
                    alone, ral = outcome(w, plain)
                    isolated = None if alone is None else '[' + alone.strip() + post + ']'
                    res = [outcome(w, site('ABCD'[f])) for f in range(4)]
                    note_case(chk, 'sem-def-flags', ('defflags', body, sig, args, sarg, post, html),
                              {'defs': defs, 'call': site('D'), 'flags0': rin[:60], 'flags2': ral[:60]})
                    hz = lambda f: {'kind': 'hist', 'html': html, 'base': 0, 'case': 0, 'history': hist + [site('ABCD'[f])]}
                    ctx = f'after {pre!r}, (html={html})'
                    for f, g in ((3, 2), (1, 0)):
                        (of, rf), (og, rg) = res[f], res[g]
                        if of != og or (of is None) != (og is None):
                            exp = og if og is not None else None
                            chk.violation(f'semantics-def-flags:{f}-differs-from-{g}',
                                          f'{defs[f]!r} then {site("ABCD"[f])!r} gives {of if of is not None else rf!r}; the same macro written with '
                                          f'$-placeholders, {defs[g]!r} then {site("ABCD"[g])!r}, gives {og if og is not None else rg!r} {ctx}',
                                          dict(hz(f), expected=exp) if exp is not None else
                                          {'kind': 'sem', 'html': html, 'base': 0, 'case': 0, 'text': ' '.join(hist + [site('ABCD'[f])]), 'expected': None})
                    for f in (0, 1):
                        of, rf = res[f]
                        if of != inplace:
                            exp = inplace
                            chk.violation(f'semantics-def-flags:{f}-not-the-body-at-the-call-site',
                                          f'{defs[f]!r} then {site("ABCD"[f])!r} gives {of if of is not None else rf!r}; the body written at the call '
                                          f'site, {"[" + plain + post + "]"!r}, gives {inplace if inplace is not None else rin!r} {ctx}',
                                          dict(hz(f), expected=exp) if exp is not None else
                                          {'kind': 'sem', 'html': html, 'base': 0, 'case': 0, 'text': ' '.join(hist + [site('ABCD'[f])]), 'expected': None})
                    for f in (2, 3):
                        of, rf = res[f]
                        if of != isolated:
                            exp = isolated
                            chk.violation(f'semantics-def-flags:{f}-not-isolated-and-stripped',
                                          f'{defs[f]!r} then {site("ABCD"[f])!r} gives {of if of is not None else rf!r}; documented (flags & 2): the body '
                                          f'{plain!r} expanded on its own ({alone if alone is not None else ral!r}), stripped, followed by {post!r} {ctx}',
                                          dict(hz(f), expected=exp) if exp is not None else
                                          {'kind': 'sem', 'html': html, 'base': 0, 'case': 0, 'text': ' '.join(hist + [site('ABCD'[f])]), 'expected': None})
    # expected texts written out (documentation examples and the two shapes above, ASM and HTML)
    fixed = (
        ('#DEF2(#SQ(n) #LET(x=$n*$n) #EVAL({x}))', '[#SQ7]', '[49]'),
        ('#DEF3(#SQ(n) #LET(x={n}*{n}) #EVAL({{x}}))', '[#SQ7]', '[49]'),
        ('#DEF(#SQ(n) #LET(x=$n*$n) #EVAL({x}))', '[#SQ7]', '[ 49]'),
        ('#DEF1(#SQ(n) #LET(x={n}*{n}) #EVAL({{x}}))', '[#SQ7]', '[ 49]'),
        ('#POKES1,77;15,99 #DEF2(#PK(a) #PEEK$a)', '[#PK(1)5]', '[775]'),
        ('#POKES1,77;15,99 #DEF3(#PK(a) #PEEK{a})', '[#PK(1)5]', '[775]'),
        ('#POKES1,77;15,99 #DEF(#PK(a) #PEEK$a)', '[#PK(1)5]', '[99]'),
        ('#POKES1,77;15,99 #DEF1(#PK(a) #PEEK{a})', '[#PK(1)5]', '[99]'),
        ('#DEF2(#IFZERO(n)(a,b) #IF($n==0)($a,$b))', '[#IFZERO(0)(yes,no)|#IFZERO(3)(yes,no)]', '[yes|no]'),
        ('#DEF3(#IFZERO(n)(a,b) #IF({n}==0)({a},{b}))', '[#IFZERO(0)(yes,no)|#IFZERO(3)(yes,no)]', '[yes|no]'),
        ('#DEF(#IFZERO(n) #IF($n==0))', '[#IFZERO(0)(yes,no)|#IFZERO(3)(yes,no)]', '[yes|no]'),
        ('#DEF1(#IFZERO(n) #IF({n}==0))', '[#IFZERO(0)(yes,no)|#IFZERO(3)(yes,no)]', '[yes|no]'),
        ('#DEF2(#IFZERO(n) #IF($n==0))', '[#IFZERO(0)(yes,no)]', None),
        ('#DEF3(#IFZERO(n) #IF({n}==0))', '[#IFZERO(0)(yes,no)]', None),
        ('#DEF1(#HEX(n) {n:04X})', '[#HEX(255)0]', '[00FF0]'),
        ('#DEF3(#HEX(n) {n:04X} )', '[#HEX(255)0]', '[00FF0]'),
        ('#DEF2(#PAD(n)(s) #IF($n)( $s , - ))', '[#PAD(1)(mid)]', '[mid]'),
        ('#DEF3(#PAD(n)(s) #IF({n})( {s} , - ))', '[#PAD(1)(mid)]', '[mid]'),
        ('#DEF3(#NUM(a)(s={a}) {s}#N{a})', '[#NUM(15),,4]', '[1515,,4]'),
        ('#DEF1(#NUM(a)(s={a}) {s}#N{a})', '[#NUM(15),,4]', '[150015]'),
    )
    for define, call, exp in fixed:
        for html in (False, True):
            w = env.writer(html)
            r0 = real_expand(env, w, define)
            r = real_expand(env, w, call)
            note_case(chk, 'sem-def-flags-fixed', ('defflagsfixed', define, html), {'define': define, 'call': call, 'expected': exp})
            got = decode(r) if r.startswith('ok') else None
            if not r0.startswith('ok') or got != exp:
                chk.violation('semantics-def-flags:documented-example',
                              f'after {define!r}, {call!r} gives {got if got is not None else r!r}; documented: {exp if exp is not None else "an error (the definition is not self-contained)"!r} (html={html})',
                              {'kind': 'hist', 'html': html, 'base': 0, 'case': 0, 'history': [define, call], 'expected': exp} if exp is not None else
                              {'kind': 'sem', 'html': html, 'base': 0, 'case': 0, 'text': define + ' ' + call, 'expected': None})


def e2e_modes(chk, env, gen):
    """Same histories through an AsmWriter and an HtmlWriter: equal modulo HTML escaping (and white space)."""
    rng = chk.rng
    gen.e2e = True
    skipped = 0
    for h in range(chk.scale(900, 15000)):
        base = rng.choice((0, 0, 10, 16))
        case = rng.choice((0, 0, 1, 2))
        wa, wh = env.asm_writer(base, case), env.html_writer(base, case)
        depth = rng.choice((0, 1, 1, 2, 2, 3, 4))
        hist = []
        for t in gen.history(depth):
            if not safe_text(t) or '{asm}' in t or '{html}' in t:
                continue
            if not set(re.findall(r'#[A-Z]+', t)) <= MODE_INDEPENDENT:
                continue                 # #HTML, #R, … differ between the modes by design; unknown names are errors in both
            hist.append(t)
            ra, rh = real_expand(env, wa, t), real_expand(env, wh, t)
            note_case(chk, 'modes', ('modes', t, base, case) if '#' in t else None, {'text': t, 'asm': ra[:80], 'html': rh[:80]})
            if ra.startswith('ok') and rh.startswith('ok'):
                sa, sh = decode(ra), decode(rh)
                if not charref_ok(sh):
                    skipped += 1
                    break
                if canon(sa) != canon(sh):
                    chk.violation('asm-html-differ:' + macros_of(t), f'{t!r} expands to {sa!r} in ASM mode and {sh!r} in HTML mode (base={base}, case={case})',
                                  {'kind': 'modes', 'base': base, 'case': case, 'history': hist})
                    break
            elif ra != rh:
                if ra.startswith('err py') or rh.startswith('err py') or 'fuel' in (ra, rh):
                    skipped += 1          # crashes (uncaught exceptions) are not expansions; not compared
                    break
                if '#SPACE' in t:
                    # #SPACE's own text is mode-dependent by design (' ' vs '&#160;'): nested inside an integer
                    # parameter it parses in one mode and not in the other - not a mode-independence failure
                    skipped += 1
                    break
                chk.violation('asm-html-error-differ:' + macros_of(t), f'{t!r}: ASM mode gives {ra!r}, HTML mode gives {rh!r} (base={base}, case={case})',
                              {'kind': 'modes', 'base': base, 'case': case, 'history': hist})
                break
            if not ra.startswith('ok'):
                break
        else:
            ma, mh = wa.snapshot[0:65536], wh.snapshot[0:65536]
            if ma != mh:
                bad = [a for a in range(65536) if ma[a] != mh[a]][:5]
                chk.violation('asm-html-memory-differ', f'after {hist!r} the snapshots differ at {bad}', {'kind': 'modes', 'base': base, 'case': case, 'history': hist})
    gen.e2e = False
    chk.extra['modes_skipped'] = skipped


SENT = re.compile(r'XQZ(\d+)\[(.*?)\]ZQX\1', re.S)


def skool_with(text, expands):
    def s(i):
        return 'XQZ%d[ %s ]ZQX%d' % (i, text, i)
    lines = ['@start'] + ['@expand=' + e for e in expands] + [
        '; ' + s(0), ';', '; ' + s(1), ';', '; A ' + s(2), ';', '; ' + s(3),
        'c32768 LD A,1   ; ' + s(4), '; ' + s(5), ' 32770 RET      ; ' + s(6), '; ' + s(7), '',
        '; Data ' + s(8), 'b32771 DEFB 1,2,3 ; ' + s(9), '']
    return '\n'.join(lines)


def run_tools(env, chk, src, base, case, tag):
    """(asm: {place: text}, html: {place: set(texts)}) or an error string per tool."""
    fn = os.path.join(chk.scratch, 'tool_%s.skool' % tag)
    with open(fn, 'w') as f:
        f.write(src)
    opts = []
    if base == 16:
        opts.append('-H')
    elif base == 10:
        opts.append('-D')
    if case == 1:
        opts.append('-l')
    elif case == 2:
        opts.append('-u')
    res = []
    odir = os.path.join(chk.scratch, 'tool_out_%s' % tag)
    for tool in ('asm', 'html'):
        out, err = io.StringIO(), io.StringIO()
        try:
            with contextlib.redirect_stdout(out), contextlib.redirect_stderr(err), warnings.catch_warnings():
                warnings.simplefilter('ignore')
                if tool == 'asm':
                    env.skool2asm.main(['-q'] + opts + [fn])
                else:
                    env.skool2html.main(['-q', '-d', odir] + opts + [fn])
        except SystemExit:
            res.append('exit: ' + err.getvalue().strip()[:200])
            continue
        except env.skoolkit.SkoolKitError as e:
            res.append('error: ' + str(e.args[0])[:200])
            continue
        except Exception as e:
            res.append('crash: ' + type(e).__name__)
            continue
        found = {}
        if tool == 'asm':
            parts = []
            for line in out.getvalue().split('\n'):
                ls = line.lstrip()
                if ls.startswith(';'):
                    parts.append(ls[1:])
                elif ' ; ' in line:
                    parts.append(line.split(' ; ', 1)[1])
            for i, t in SENT.findall(' '.join(parts)):
                found.setdefault(int(i), set()).add(canon(t))
        else:
            for root, _, files in os.walk(odir):
                for f in files:
                    if f.endswith('.html'):
                        with open(os.path.join(root, f)) as fh:
                            txt = re.sub(r'<[^>]+>', '', fh.read())
                        for i, t in SENT.findall(txt):
                            found.setdefault(int(i), set()).add(canon(t))
        res.append(found)
    import shutil
    shutil.rmtree(odir, ignore_errors=True)
    return res


def closed_text(gen, d):
    """A text whose expansion does not depend on what was expanded before it and that may be expanded repeatedly:
    it (re)binds every variable and memory cell it reads to constants first; no unbalanced #PUSHS/#POPS, no #PC."""
    r = gen.rng
    pre = ''.join('#LET(%s=%d)' % (v, r.randrange(0, 9)) for v in gen.vars) + '#LET(s$=S)#LET(t$=tt)'
    pre += '#POKES%d,%d,3' % (r.choice((30000, 40000)), r.randrange(1, 127))
    body = []
    for _ in range(r.choice((1, 1, 2, 3))):
        for _ in range(20):
            t = gen.macro(d)
            if any(x in t for x in ('#PC', '#POPS', '#PUSHS', '#RAW', '#LET', '#WHILE', '#POKES')) or not safe_text(t):
                continue
            if not set(re.findall(r'#[A-Z]+', t)) <= MODE_INDEPENDENT:
                continue
            if any(c in t for c in '<>&;\n{}') and not re.fullmatch(r'[^<>&;{}]*(\{[a-z$]+\}[^<>&;{}]*)*', t):
                continue
            body.append(t)
            break
    return pre + ' '.join(body)


def e2e_tools(chk, env, gen):
    """skool2asm.main / skool2html.main on a skool file holding the same text in ten places, after @expand histories."""
    rng = chk.rng
    gen.e2e = True
    n_ok = 0
    # directed: markup characters passing through macros (the HTML tool must escape them: they are text, not tags)
    markup = ['#FOR(1,2)(n,<n>)', '#FOREACH(a,b)(n,n&n,>)', '#IF(1)(<x>,y)[#MAP(1)(a,1:<b>)]', '#LET(a=1)#FORMAT(<{a}>&)[#EVAL(1<2)]',
              '#FOR(1,3)(n,#IF(n<2)(<,>),&)']
    for k in range(len(markup) + chk.scale(45, 700)):
        base, case = rng.choice(((0, 0), (0, 0), (16, 1), (10, 2), (16, 0))), None
        base, case = base
        depth = rng.choice((1, 2, 2, 3, 4))
        directed = k < len(markup)
        text = markup[k] if directed else closed_text(gen, depth)
        if not directed and any(c in text for c in '<>&') and rng.random() < 0.9:
            continue
        expands = [rng.choice((gen.m_LET, gen.m_POKES))(1) for _ in range(rng.randrange(0, 3))]
        expands = [e for e in expands if safe_text(e) and '\n' not in e]
        # the history must expand without error on its own (else both tools stop before reaching the text)
        w = env.asm_writer(base, case)
        if any(not real_expand(env, w, e).startswith('ok') for e in expands):
            expands = []
        wa, wh = env.asm_writer(base, case), env.html_writer(base, case)
        for e in expands:
            real_expand(env, wa, e)
            real_expand(env, wh, e)
        probe, probe_h = real_expand(env, wa, text), real_expand(env, wh, text)
        src = skool_with(text, expands)
        asm, html = run_tools(env, chk, src, base, case, str(k % 4))
        note_case(chk, 'tools', ('tools', text, base, case), {'text': text, 'expands': expands, 'asm': str(asm)[:100]})
        rep = {'kind': 'tools', 'base': base, 'case': case, 'text': text, 'expands': expands}
        if isinstance(asm, str) or isinstance(html, str):
            if isinstance(asm, str) and isinstance(html, str):
                continue             # both tools reject the text (malformed macro): same behaviour
            if 'crash' in str(asm) or 'crash' in str(html):
                continue
            chk.violation('tools-error-differ:' + macros_of(text), f'{text!r}: skool2asm -> {str(asm)[:120]!r}, skool2html -> {str(html)[:120]!r}', rep)
            continue
        n_ok += 1
        if not probe.startswith('ok') or not probe_h.startswith('ok') or not charref_ok(decode(probe_h)) or not printable(decode(probe)) \
                or ((not directed) and ('<' in decode(probe_h) or '>' in decode(probe_h))):      # raw markup (#CHR(60,1)) cannot be told from tags
            continue                 # control characters do not survive the line formatting of either tool
        vals_a = set().union(*asm.values()) if asm else set()
        vals_h = set().union(*html.values()) if html else set()
        if len(asm) < 10 or len(html) < 10:
            chk.violation('tools-place-missing:' + macros_of(text), f'{text!r}: found in places asm={sorted(asm)}, html={sorted(html)} of 0..9', rep)
        elif len(vals_a) != 1:
            chk.violation('asm-position-dependent:' + macros_of(text), f'{text!r} expands differently at different places of the skool file (skool2asm): {sorted(vals_a)[:3]}', rep)
        elif len(vals_h) != 1:
            chk.violation('html-position-dependent:' + macros_of(text), f'{text!r} expands differently at different places of the skool file (skool2html): {sorted(vals_h)[:3]}', rep)
        elif vals_a != vals_h:
            chk.violation('tools-asm-html-differ:' + macros_of(text), f'{text!r}: skool2asm gives {sorted(vals_a)[0]!r}, skool2html gives {sorted(vals_h)[0]!r}', rep)
    gen.e2e = False
    chk.extra['tool_runs_compared'] = n_ok


LET_STRIP_KEY = 'asm-strips-let-string-value'


def probe_strip(chk, env):
    """AsmWriter.expand strips its result, HtmlWriter.expand does not; #LET expands its value through writer.expand,
    so a string variable keeps leading/trailing white space only in HTML mode. Reported as an observation unless the
    integrator lists the key in KNOWN_FINDINGS.txt (then as a known finding)."""
    import framework
    diffs = []
    for text in ('#LET(s$= x )[#FORMAT({s$})]', '#LET(pad$=#SPACE2)#FORMAT(a{pad$}b)', '#EVAL(5, )', '#SPACE( )|', '#EVAL( %101 )'):
        ra, rh = real_expand(env, env.asm_writer(), text), real_expand(env, env.html_writer(), text)
        sa = decode(ra) if ra.startswith('ok') else ra
        sh = htmllib.unescape(decode(rh)).replace('\xa0', ' ') if rh.startswith('ok') else rh
        if sa != sh and not (text.startswith('#SPACE') and ra.startswith('ok') and rh.startswith('ok')):
            diffs.append((text, sa, sh))
    if diffs:
        msg = '; '.join(f'{t!r}: ASM {a!r}, HTML {h!r}' for t, a, h in diffs)
        chk.extra['observation_let_strip'] = msg
        if LET_STRIP_KEY in framework.load_known(chk.pid):
            chk.violation(LET_STRIP_KEY, 'white space at the ends of a #LET string value is dropped in ASM mode only: ' + msg,
                          {'kind': 'letstrip'})
        else:
            chk.note('observation (not raised as a violation; the e2e comparison is modulo white space and generates no white-space-only parameters): AsmWriter.expand strips nested expansions, HtmlWriter.expand does not: ' + msg)



MODULES = ['SkoolVerif.Model.MacroText', 'SkoolVerif.Model.MacroExpr', 'SkoolVerif.Model.MacroArgs', 'SkoolVerif.Model.MacroOps',
           'SkoolVerif.Model.MacroExpand', 'SkoolVerif.Proofs.MacroOpsLemmas', 'SkoolVerif.Proofs.MacroExprLemmas',
           'SkoolVerif.Proofs.MacroBitLemmas', 'SkoolVerif.Proofs.MacroExpandLemmas', 'SkoolVerif.Proofs.MacroNestLemmas',
           'SkoolVerif.Proofs.MacroSpecLemmas', 'SkoolVerif.Proofs.MacroFuelLemmas', PROPS]


def run(chk):
    chk.rule = ('macro texts from a grammar over #EVAL #N #IF #MAP #FOR #FOREACH #WHILE #LET #FORMAT #PEEK #POKES #PUSHS #POPS '
                '#CHR #STR #SPACE #PC #RAW (+ #MACRO#(..) pre-expansion), nesting depth 0..4, all bracket/delimiter forms, positional '
                'integer parameters as literals, $hex, arithmetic expressions over all operators, nested macros and replacement '
                'fields, preceded by histories of #LET/#POKES/#PUSHS/#POPS, x {ASM, HTML} x base {0,10,16} x case {0,1,2}; plus '
                'malformed texts and character soups for evaluate/parse_strings/parse_ints. non-trivial = contains an operator / '
                'a macro (distinct by text+mode); e2e cases are distinct by text. Directed e2e groups (oracle = construction / '
                'documentation): integer-valued texts with nested #IF/#FOR/#FOREACH/#MAP/#EVAL/#N/#FORMAT/#LET/#POKES+#PEEK/#() whose own '
                'string arguments use every delimiter form, inside the integer parameters of #EVAL #N #IF #MAP #FOR #CHR #SPACE #PEEK #POKES '
                '#LET and #DEF-defined macros (sem-nested-*); string parameter lists in every delimiter/separator form with parenthesised '
                'commas; #CHR and #STR flags, terminators and lengths; #PUSHS name character set; #FOR flag 4, empty fsep; #MAP values with '
                'colons; #IF on signed integers; #POKES with negative steps; dictionary variables; #WHILE; #FORMAT case; #DEF flags 0-3 with '
                'string defaults that refer to integer arguments; #DEF flags as a sum (sem-def-flags: every body defined four times, flags 0-3, '
                '$-form and field form, x integer/string defaults x positional/keyword calls x call sites followed by digits, commas, '
                'operators and brackets; bodies with leading/trailing/inner blanks, empty expansions and a last macro with an open '
                'parameter list (#PEEK #EVAL #N #CHR #SPACE #MAP #IF #FOR #STR); exact comparison: 3 = 2, 1 = 0, 0 = the body written at '
                'the call site, 2 = the body expanded alone and stripped); markup characters (< > &) passing through macros in both tools')
    chk.trusted += ['hand models lean/SkoolVerif/Model/Macro{Text,Expr,Args,Ops,Expand}.lean tied by correspondence (harness/props/c17.py)',
                    'CPython (eval() is the reference the evaluator model is tied to; html.unescape; str.format)']
    chk.assumptions += ['theorems are about the model; the real code is tied to it by differential execution on generated inputs only',
                        'tied but not proved: argument tokenisers (parse_brackets/parse_strings/_split_unbracketed/get_params), the '
                        'character-level lexer except numerals, str.replace, the textual rewrites of evaluate()',
                        'not modelled (model answers "unsup", skipped in correspondence; partly covered by e2e): float-valued '
                        'sub-expressions (1e5, negative powers), call syntax and () in expressions, #DEF, dictionary variables, format '
                        'specs / indexed replacement fields, html.unescape of character references, #FOREACH special values '
                        '(EREF/REF/ENTRY/POKE), #STR flag 8, keyword integer arguments, 128K memory, outputs larger than 2000 characters',
                        'termination is not proved (false for #WHILE(1)(x)); expand_fuel_monotone_partial only says fuel does not change results',
                        'observation reported as a note, not a violation: AsmWriter.expand strips nested expansions, HtmlWriter.expand '
                        'does not (see probe_strip); the ASM/HTML comparison is therefore modulo white space']
    if chk.thorough:
        chk.clean_modules(MODULES)
    env = Env(chk)
    ok = chk.lake_build([PROPS, 'SkoolVerif.Prelude.Proto'])
    chk.audit(PROPS)
    if chk.thorough and ok:
        chk.leanchecker([PROPS])
    gen = Gen(chk.rng)
    corr_functions(chk, env, gen)
    corr_expand(chk, env, gen)
    e2e_semantics(chk, env)
    e2e_def(chk, env)
    e2e_def_flags(chk, env)
    e2e_nested(chk, env)
    e2e_modes(chk, env, gen)
    e2e_tools(chk, env, gen)
    probe_strip(chk, env)


def replay(chk, data):
    env = Env(chk)
    kind = data.get('kind')
    if kind == 'sem':
        w = env.writer(data['html'], data['base'], data['case'])
        r = real_expand(env, w, data['text'])
        if data['expected'] is None:
            return r.startswith('ok')
        if data.get('exact'):
            return r != 'ok ' + codes(data['expected'])
        return not r.startswith('ok') or canon(decode(r)) != canon(data['expected'])
    if kind == 'hist':
        w = env.writer(data['html'], data['base'], data['case'])
        r = None
        for t in data['history']:
            r = real_expand(env, w, t)
        if data.get('nbsp') and r.startswith('ok'):
            got = decode(r)
            return (htmllib.unescape(got).replace('\xa0', ' ') if data['html'] else got) != data['expected']
        if data.get('canon'):
            return not r.startswith('ok') or canon(decode(r)) != canon(data['expected'])
        return r != 'ok ' + codes(data['expected'])
    if kind == 'pushpop':
        w = env.writer(data['html'])
        for t in data['pre']:
            real_expand(env, w, t)
        before = w.snapshot[0:65536]
        r = real_expand(env, w, data['text'])
        return not r.startswith('ok') or w.snapshot[0:65536] != before
    if kind == 'pokes':
        w = env.writer(data['html'])
        before = w.snapshot[0:65536]
        m = re.match(r'#POKES\(?(\d+),(\d+),(\d+),(-?\d+)', data['text'])
        addr, byte, length, step = map(int, m.groups())
        real_expand(env, w, data['text'])
        cells = {(addr + i * step) % 65536 for i in range(length)}
        after = w.snapshot[0:65536]
        return any(after[a] != (byte if a in cells else before[a]) for a in range(65536))
    if kind == 'modes':
        wa, wh = env.asm_writer(data['base'], data['case']), env.html_writer(data['base'], data['case'])
        for t in data['history']:
            ra, rh = real_expand(env, wa, t), real_expand(env, wh, t)
            if ra.startswith('ok') and rh.startswith('ok'):
                if canon(decode(ra)) != canon(decode(rh)):
                    return True
            elif ra != rh:
                return True
        return wa.snapshot[0:65536] != wh.snapshot[0:65536]
    if kind == 'tools':
        asm, html = run_tools(env, chk, skool_with(data['text'], data['expands']), data['base'], data['case'], 'r')
        if isinstance(asm, str) or isinstance(html, str):
            return isinstance(asm, str) != isinstance(html, str)
        va = set().union(*asm.values()) if asm else set()
        vh = set().union(*html.values()) if html else set()
        return len(asm) < 10 or len(html) < 10 or len(va) != 1 or len(vh) != 1 or va != vh
    if kind == 'letstrip':
        text = '#LET(s$= x )[#FORMAT({s$})]'
        return real_expand(env, env.asm_writer(), text) != real_expand(env, env.html_writer(), text)
    return False
