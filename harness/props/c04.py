"""C04 — skool2asm, skool2bin and the macro-visible snapshot agree on the assembled image.

Theorems: lean/SkoolVerif/Props/C04.lean (mode/weight tables of skoolparser.Mode vs
skool2bin.BinWriter, layout of BinWriter._add_instructions vs a sequential assembler over the
instruction list Mode.apply_asm_directives builds, label locations vs address_map and operand
relocation, the #PEEK snapshot on fixed-layout files, numeral base conversion).
Tie: hand models + correspondence (this file).  E2E: skool2asm.main output assembled by the
independent mini assembler (harness/indep/miniasm.py) vs skool2bin.main output, per mode x base x
case x -c; #PEEK probes."""
import contextlib
import io
import os
import re

from framework import fresh_import
from indep import miniasm

PROPS = 'SkoolVerif.Props.C04'

# ---------------------------------------------------------------------------------------------
# modes
# ---------------------------------------------------------------------------------------------
# (name, skool2asm options, skool2bin options) -- the option pairs put both tools in the same
# (asm_mode, fix_mode); proved equal-selecting in Props/C04.lean (cli_modes_agree).
MODES = [
    ('isub', [], ['-i']),
    ('ssub', ['-s'], ['-s']),
    ('rsub', ['-r'], ['-r']),
    ('ofix', ['-f', '1'], ['-i', '-o']),
    ('bfix', ['-f', '2'], ['-i', '-b']),
    ('rfix', ['-f', '3'], ['-R']),
    ('ssub+ofix', ['-s', '-f', '1'], ['-s', '-o']),
    ('ssub+bfix', ['-s', '-f', '2'], ['-s', '-b']),
    ('rsub+bfix', ['-r', '-f', '2'], ['-r', '-b']),
]
MODE_AF = {'none': (0, 0), 'isub': (1, 0), 'ssub': (2, 0), 'rsub': (3, 1), 'ofix': (1, 1), 'bfix': (1, 2), 'rfix': (3, 3),
           'ssub+ofix': (2, 1), 'ssub+bfix': (2, 2), 'rsub+bfix': (3, 2)}
CLASSES = ('isub', 'ssub', 'rsub', 'ofix', 'bfix', 'rfix')


def selected(cls, a, f):
    return {'isub': a > 0, 'ssub': a > 1, 'rsub': a > 2, 'ofix': f > 0, 'bfix': f > 1, 'rfix': f > 2}[cls]


# ---------------------------------------------------------------------------------------------
# running the real tools
# ---------------------------------------------------------------------------------------------
class Tools:
    def __init__(self, chk):
        self.chk = chk
        (self.skool2asm, self.skool2bin, self.skoolparser, self.z80, self.skoolkit) = fresh_import(
            'skoolkit.skool2asm', 'skoolkit.skool2bin', 'skoolkit.skoolparser', 'skoolkit.z80', 'skoolkit')
        self.assembler = self.z80.Assembler()
        self.n = 0

    def _file(self, text):
        self.n += 1
        fn = os.path.join(self.chk.scratch, f'c04_{self.n % 8}.skool')
        with open(fn, 'w') as f:
            f.write(text)
        return fn

    def asm(self, text, opts):
        """skool2asm.main -> ('ok', stdout, stderr) | ('error', message, stderr)"""
        fn = self._file(text)
        out, err = io.StringIO(), io.StringIO()
        try:
            with contextlib.redirect_stdout(out), contextlib.redirect_stderr(err):
                self.skool2asm.main(list(opts) + ['-q', fn])
        except self.skoolkit.SkoolKitError as e:
            return 'error', str(e), err.getvalue()
        except SystemExit as e:
            return 'error', f'exit {e.code}', err.getvalue()
        except Exception as e:  # a crash of the real tool is reported as such
            return 'crash', f'{type(e).__name__}: {e}', err.getvalue()
        return 'ok', out.getvalue(), err.getvalue()

    def bin(self, text, opts):
        """skool2bin.main -> ('ok', {addr: byte}, (start, end)) | ('error', message, None)"""
        fn = self._file(text)
        bn = os.path.join(self.chk.scratch, 'c04.bin')
        err = io.StringIO()
        try:
            with contextlib.redirect_stderr(err), contextlib.redirect_stdout(io.StringIO()):
                self.skool2bin.main(list(opts) + [fn, bn])
        except self.skoolkit.SkoolKitError as e:
            return 'error', str(e), None
        except SystemExit as e:
            return 'error', f'exit {e.code}', None
        except Exception as e:
            return 'crash', f'{type(e).__name__}: {e}', None
        m = re.search(r'start=(\d+), end=(\d+), size=(\d+)', err.getvalue())
        with open(bn, 'rb') as f:
            data = f.read()
        if not m:
            return 'error', 'no start/end reported: ' + err.getvalue()[-200:], None
        start, end = int(m.group(1)), int(m.group(2))
        return 'ok', {start + i: b for i, b in enumerate(data)}, (start, end)


# ---------------------------------------------------------------------------------------------
# skool file generator
# ---------------------------------------------------------------------------------------------
# templates: (text, size); operand kinds in braces:
#   n byte value  w word value  a address of an instruction (or external)  r relative-jump target
#   d index displacement (with sign)  b bit number  s RST target
T1 = ['NOP', 'XOR A', 'RET', 'EXX', 'INC HL', 'LD A,B', 'PUSH HL', 'RET NZ', 'EX DE,HL', 'JP (HL)', 'RST {s}', 'CCF', 'DEC E',
      'LD (HL),A', 'ADD HL,DE', "EX AF,AF'", 'OR (HL)', 'POP AF']
T2 = ['LD A,{n}', 'CP {n}', 'AND {n}', 'ADD A,{n}', 'SUB {n}', 'LD (HL),{n}', 'OUT ({n}),A', 'IN A,({n})', 'LD C,{n}', 'NEG',
      'LDIR', 'IM 1', 'BIT {b},A', 'SET {b},(HL)', 'RLC B', 'PUSH IX', 'SBC A,{n}', 'XOR {n}', 'LD E,{n}', 'INC IXl', 'ADD IX,BC',
      'JP (IY)', 'SBC HL,DE', 'IN B,(C)', 'SRL (HL)', 'RES {b},L']
T2R = ['JR {r}', 'JR NZ,{r}', 'DJNZ {r}', 'JR C,{r}']
T3 = ['LD HL,{w}', 'LD BC,{w}', 'LD A,({w})', 'LD ({w}),A', 'LD HL,({w})', 'LD ({w}),HL', 'CALL {a}', 'JP {a}', 'JP Z,{a}',
      'CALL NC,{a}', 'LD A,(IX{d})', 'LD (IY{d}),B', 'INC (IX{d})', 'ADD A,(IY{d})', 'LD SP,{w}', 'LD DE,{w}', 'LD IXh,{n}',
      'CP (IX{d})', 'JP M,{a}', 'CALL {a}', 'JP {a}']
T4 = ['LD IX,{w}', 'LD ({w}),BC', 'LD DE,({w})', 'LD (IX{d}),{n}', 'BIT {b},(IX{d})', 'SET {b},(IY{d})', 'RL (IX{d})',
      'LD ({w}),SP', 'LD IY,({w})', 'LD ({w}),IX', 'RES {b},(IY{d}),C', 'LD SP,({w})']
BY_SIZE = {1: T1, 2: T2, 3: T3, 4: T4}
INS_LABELS = True
STR_CHARS = 'abcXYZ 019,;:#$%+-*/()'
# strings whose bytes a careless case conversion (or the -u fix-up of IXH/IXL/IYH/IYL) would change
STR_WORDS = ['IXH', 'IYL', 'ixh', 'iyl', 'IXl', 'IYh', 'Hello', 'ld a,IXH', 'DEFB', "af'", 'Ix', 'LD (IY+1),IXL', 'hL', '$ff', '$FF']


class G:
    """One generated skool file (structure first, operand values later)."""

    def __init__(self, rng, allow_move, tools):
        self.rng = rng
        self.allow_move = allow_move
        self.tools = tools
        self.base = rng.choice((32768, 24576, 40000, 49152, 65000, 16384, 30000))
        self.lines = []            # ('text', str) | ('ins', dict)
        self.targets = []          # skool addresses usable as operand values (filled after layout)
        self.labelled = {}         # skool address -> explicit label
        self.all_addrs = []        # skool addresses of all addressed lines
        self.nlabels = 0
        self.moving = False        # some directive / block in the file can change the layout
        self.peeks = []
        self.first_insert = False   # '>' insertion before the first instruction of an entry
        self.has_overwrite = False  # a `|` chain: its 2nd+ instructions are not in the parser snapshot (known finding)
        self.has_addressless = False  # address-less lines are never assembled into the parser snapshot
        self.has_data = False       # @defb/@defs/@defw directives (snapshot only; skool2bin needs -d)
        self.bytes_addrs = set()    # addresses whose bytes come from @bytes (the ASM text assembles differently by design)
        self.data_addrs = set()     # addresses written by @defb/@defs/@defw directives (probed with #PEEK)
        self.short_labels = ['Q', 'K', 'V', 'W', 'Y', 'G', 'J', 'N']
        rng.shuffle(self.short_labels)

    # -- structure -------------------------------------------------------------------------
    def tmpl(self, size=None, rel_ok=True):
        rng = self.rng
        if size is None:
            size = rng.choice((1, 1, 2, 2, 2, 3, 3, 3, 4))
        if size == 2 and rel_ok and rng.random() < 0.2:
            return rng.choice(T2R), 2
        if size in BY_SIZE and rng.random() < 0.04:
            # a string statement (also as the operation of an @*sub/@*fix directive): ':' and ',' inside the
            # quotes must not be taken for the label / operand separators
            return 'DEFM "%s"' % ''.join(rng.choice('ab:,X h') for _ in range(size)), size
        if size in BY_SIZE:
            return rng.choice(BY_SIZE[size]), size
        return 'DEFS %d,{n}' % size, size

    def data_tmpl(self):
        rng = self.rng
        k = rng.randrange(6)
        if k == 0:
            n = rng.randrange(1, 5)
            return 'DEFB ' + ','.join('{n}' for _ in range(n)), n
        if k == 1:
            s = ''.join(rng.choice(STR_CHARS) for _ in range(rng.randrange(1, 7)))
            if rng.random() < 0.4:
                s = rng.choice(STR_WORDS)
            return rng.choice(('DEFM "%s"', 'DEFM "%s"', 'DEFB "%s"', 'defm "%s"')) % s, len(s)
        if k == 2:
            n = rng.randrange(1, 4)
            return 'DEFW ' + ','.join('{a}' for _ in range(n)), 2 * n
        if k == 3:
            n = rng.randrange(1, 9)
            return rng.choice(('DEFS %d' % n, 'DEFS %d,{n}' % n, 'DEFS $%X' % n)), n
        if k == 4:
            s = ''.join(rng.choice('abc"\\ ;,') for _ in range(rng.randrange(1, 5)))
            esc = s.replace('\\', '\\\\').replace('"', '\\"')
            return 'DEFB {n},"%s",{n}' % esc, len(s) + 2
        s = ''.join(rng.choice(STR_CHARS) for _ in range(rng.randrange(1, 4)))
        if rng.random() < 0.4:
            s = rng.choice(STR_WORDS)
        return 'DEFM "%s",{n}' % s, len(s) + 1

    def new_label(self):
        self.nlabels += 1
        if self.short_labels and self.rng.random() < 0.15:
            return self.short_labels.pop()      # one-letter label (not a register / condition name)
        return self.rng.choice(('LAB', 'Start', 'loop_', 'DATA', 'x')) + str(self.nlabels)

    def build(self):
        rng = self.rng
        addr = self.base
        n_entries = rng.randrange(1, 5)
        out = self.lines
        out.append(('text', '@start'))
        if rng.random() < 0.3:
            out.append(('equ', None))
        for e in range(n_entries):
            if e:
                out.append(('text', ''))
            data_entry = rng.random() < 0.3
            if e == 0:
                out.append(('text', rng.choice(('@org', '@org', '@org={base}'))))
            elif rng.random() < 0.25:
                gap = rng.choice((0, 1, 5, 300))
                addr += gap
                out.append(('text', '@org' if gap == 0 or rng.random() < 0.5 else '@org=%d' % addr))
                if gap == 0 and rng.random() < 0.5:
                    out[-1] = ('text', '@org=%s' % rng.choice((str(addr), '$%04X' % addr)))
            out.append(('title', e))
            n_ins = rng.randrange(1, 8)
            i = 0
            while i < n_ins:
                ctl = (rng.choice('bwtsu') if data_entry else 'c') if i == 0 else rng.choice('    *')
                if data_entry or rng.random() < 0.12:
                    t, size = self.data_tmpl()
                else:
                    t, size = self.tmpl()
                ins = {'ctl': ctl, 'addr': addr, 't': t, 'size': size, 'pre': [], 'comment': rng.random() < 0.6}
                self.all_addrs.append(addr)
                consumed = self.decorate(ins, addr, i == 0, out)
                addr += size
                i += 1
                # `consumed`: extra original instructions emitted by decorate (overwrite over two lines)
                for extra in consumed:
                    self.all_addrs.append(addr)
                    extra['addr'] = addr
                    addr += extra['size']
                    i += 1
            if rng.random() < 0.2:
                out.append(('text', '; End comment.'))
        out.append(('text', ''))
        self.end = addr

    def decorate(self, ins, addr, first, out):
        """Attach directives to an instruction; append it (and block-directive variants) to out.
        Returns extra original instructions that follow it (already appended)."""
        rng = self.rng
        pre = ins['pre']
        r = rng.random()
        extras = []
        if rng.random() < 0.35:
            lab = self.new_label()
            # `@label=*NAME` also marks the instruction as an entry point (not on the first line of an entry)
            pre.append('label=' + ('*' if ins['ctl'] == ' ' and rng.random() < 0.15 else '') + lab)
            self.labelled[addr] = lab
        elif rng.random() < 0.05:
            pre.append('label=')
        elif ins['ctl'] == ' ' and rng.random() < 0.05:
            pre.append('label=*')
        if rng.random() < 0.08:
            pre.append(rng.choice(('nowarn', 'ignoreua', 'nowarn=%d' % self.base)))
        if r < 0.40:
            if rng.random() < 0.15:
                ins['keep'] = rng.choice(('all', 'some'))
            if rng.random() < 0.08:
                self.has_data = True
                far = 60000 if self.base < 50000 else 20000
                pre.append(rng.choice(('defb=%d:1,$02,"a"' % (far + rng.randrange(50)), 'defs=%d:3,$AA' % (far + 60 + rng.randrange(50)),
                                       'defw=%d:$1234,5 ; comment' % (far + 120 + rng.randrange(50)), 'defb=%d:%%1010' % (far + 200))))
                da = int(re.match(r'def[bsw]=(\d+):', pre[-1]).group(1))
                self.data_addrs.update((da, da + 2))
            if not self.allow_move and ins['t'] in ('NEG', 'IM 1', 'NOP') and rng.random() < 0.5:
                alt = {'NEG': '237,76', 'IM 1': '$ED,$76', 'NOP': '0'}[ins['t']]
                pre.append('bytes=' + alt)
                if ins['t'] != 'NOP':
                    self.bytes_addrs.update((addr, addr + 1))
            out.append(('ins', ins))
            return extras
        if not self.allow_move and rng.random() < 0.06:
            ins['keep'] = rng.choice(('all', 'some'))
        cls = rng.choice(CLASSES)
        shape = rng.choice(('same', 'same', 'labelonly', 'ow-exact', 'ow-exact2', 'block-same', 'two-class', 'if')
                           + (('diff', 'prepend', 'append', 'chain', 'ow-move', 'remove', 'block-ins', 'block-diff', 'remove-range',
                               'pre-ow', 'pre-ow', 'pre-ow')
                              if self.allow_move else ()))
        size = ins['size']
        lab = lambda: (self.new_label() + ': ') if INS_LABELS and rng.random() < 0.25 else ''
        cmt = lambda: rng.choice(('', '', ' ; new comment', ' ;'))
        if shape == 'same':
            t, _ = self.tmpl(size)
            pre.append(f'{cls}={rng.choice(("", "/"))}{lab()}{t}{cmt()}')
        elif shape == 'labelonly':
            pre.append(f'{cls}=' + rng.choice((self.new_label() + ':', '; only a comment', '/; only a comment', ' ;')))
        elif shape == 'two-class':
            c2 = rng.choice([c for c in CLASSES if c != cls])
            t1, _ = self.tmpl(size)
            t2, _ = self.tmpl(size)
            pre.append(f'{cls}={t1}')
            pre.append(f'{c2}={t2}')
        elif shape == 'if':
            t1, _ = self.tmpl(size)
            t2, _ = self.tmpl(size)
            cond = rng.choice(('{asm}>1', '{fix}', '{asm}==3', '{fix}>1', '{asm}', '1', '0', '{asm}>{fix}'))
            if rng.random() < 0.5:
                pre.append(f'if({cond})/~{cls}={t1}~{rng.choice(CLASSES)}={t2}~/')
            else:
                pre.append(f'if({cond})/~{cls}={t1}~/')
        elif shape == 'diff':
            self.moving = True
            t, _ = self.tmpl(rng.choice([s for s in (1, 2, 3, 4) if s != size] or [1]))
            pre.append(f'{cls}={lab()}{t}{cmt()}')
        elif shape == 'prepend':
            self.moving = True
            self.first_insert |= first
            for _ in range(rng.randrange(1, 4)):
                t, _ = self.tmpl()
                pre.append(f'{cls}=>{lab()}{t}{cmt()}')
            if rng.random() < 0.3:
                t, _ = self.tmpl(size)
                pre.append(f'{cls}={t}')
        elif shape == 'append':
            self.moving = True
            t, _ = self.tmpl()
            pre.append(f'{cls}=+{lab()}{t}{cmt()}')
            for _ in range(rng.randrange(0, 3)):
                t, _ = self.tmpl()
                pre.append(f'{cls}={lab()}{t}{cmt()}')
        elif shape == 'chain':
            self.moving = True
            t, _ = self.tmpl(size)
            pre.append(f'{cls}={t}{cmt()}')
            for _ in range(rng.randrange(1, 3)):
                t, _ = self.tmpl()
                pre.append(f'{cls}={lab()}{t}{cmt()}')
        elif shape in ('ow-exact', 'ow-exact2', 'ow-move', 'pre-ow'):
            self.has_overwrite = True
            prepended = shape == 'pre-ow'
            if prepended:
                # `>` insertions AND a `|` chain on the same line (the chain's position in the original
                # address space must not be shifted by the inserted code); the chain is as long as,
                # shorter or longer than the code it replaces, optionally followed by a plain insertion
                self.moving = True
                self.first_insert |= first
                for _ in range(rng.randrange(1, 3)):
                    t, _ = self.tmpl(rel_ok=False)
                    pre.append(f'{cls}=>{lab()}{t}{cmt()}')
                shape = rng.choice(('ow-exact', 'ow-exact', 'ow-exact2', 'ow-exact2', 'ow-move', 'ow-move'))
            total = size
            if shape != 'ow-exact':
                t, s2 = self.tmpl(rel_ok=False)
                ex = {'ctl': ' ', 'addr': None, 't': t, 'size': s2, 'pre': [], 'comment': rng.random() < 0.5}
                extras.append(ex)
                total += s2
            if shape == 'ow-move':
                self.moving = True
                delta = rng.choice((-2, -1, 1, 2))
                if delta > 0:
                    # the chain spills into the next instruction, which is then removed: keep it plain
                    # (a removed instruction that carries directives of its own is the known divergence K6)
                    t, s3 = self.tmpl(rng.choice((2, 3, 4)), rel_ok=False)
                    extras.append({'ctl': ' ', 'addr': None, 't': t, 'size': s3, 'pre': [], 'comment': False})
                total = max(1, total + delta)
            parts = []
            while total > 0:
                s = rng.randrange(1, min(4, total) + 1)
                parts.append(s)
                total -= s
            for s in parts:
                t, _ = self.tmpl(s, rel_ok=False)
                pre.append(f'{cls}=|{lab()}{t}{cmt()}')
            if prepended and rng.random() < 0.35:
                t, _ = self.tmpl(rel_ok=False)
                pre.append(f'{cls}={lab()}{t}{cmt()}')
        elif shape == 'remove':
            self.moving = True
            pre.append(f'{cls}=!{addr}' if not first else f'{cls}=; nothing')
        elif shape == 'remove-range':
            self.moving = True
            t, s2 = self.tmpl(rel_ok=False)
            ex = {'ctl': ' ', 'addr': None, 't': t, 'size': s2, 'pre': [], 'comment': False}
            extras.append(ex)
            if not first:
                pre.append(f'{cls}=!{addr}-{addr + size}')
            else:
                ex['pre'].append(f'{cls}=!{addr + size}-{addr + size}')
        elif shape in ('block-same', 'block-diff'):
            if shape == 'block-diff':
                self.moving = True
                t, s2 = self.tmpl(rng.choice([s for s in (1, 2, 3, 4) if s != size] or [1]))
            else:
                t, s2 = self.tmpl(size)
            rep = {'ctl': ins['ctl'], 'addr': addr if rng.random() < 0.6 else None, 't': t, 'size': s2, 'pre': [],
                   'comment': rng.random() < 0.5, 'variant': True}
            if first:
                rep['addr'] = addr
            if rep['addr'] is None and not INS_LABELS:
                rep['ctl'] = ' '
            if rep['addr'] is None:
                self.has_addressless = True
            for d in pre:        # @label etc. apply to whichever variant is read
                out.append(('text', '@' + d))
            del pre[:]
            out.append(('text', f'@{cls}-begin'))
            out.append(('ins', ins))
            out.append(('text', f'@{cls}+else'))
            out.append(('ins', rep))
            out.append(('text', f'@{cls}+end'))
            return extras
        elif shape == 'block-ins':
            self.moving = True
            self.has_addressless = True
            out.append(('ins', ins))
            out.append(('text', f'@{cls}+begin'))
            for _ in range(rng.randrange(1, 3)):
                t, s2 = self.tmpl()
                out.append(('ins', {'ctl': ' ', 'addr': None, 't': t, 'size': s2, 'pre': [], 'comment': rng.random() < 0.5,
                                    'variant': True}))
            out.append(('text', f'@{cls}+end'))
            return extras
        out.append(('ins', ins))
        for ex in extras:
            out.append(('ins', ex))
        return extras

    # -- values ----------------------------------------------------------------------------
    def num8(self, v):
        rng = self.rng
        k = rng.randrange(9)
        if k == 0:
            return '$%02X' % v
        if k == 1:
            return '$%x' % v
        if k == 2:
            return '%' + format(v, '08b')
        if k == 3 and 32 <= v < 127 and chr(v) not in '"\\':
            return '"%s"' % chr(v)
        if k == 4:
            return '%03d' % v
        return str(v)

    def num16(self, v):
        rng = self.rng
        k = rng.randrange(6)
        if k == 0:
            return '$%04X' % v
        if k == 1:
            return '$%04x' % v
        if k == 2 and v < 65536:
            return '%' + format(v, '016b')
        return str(v)

    def target(self, near=None, rel=False):
        """An operand value that is safe in this file: the address of a (labelled, when the layout can
        move) instruction, or an address outside the file."""
        rng = self.rng
        pool = self.targets
        if rel:
            cands = [a for a in pool if abs(a - near) <= 30]
            return rng.choice(cands) if cands else None
        if pool and rng.random() < 0.75:
            return rng.choice(pool)
        lo, hi = self.base, self.end
        while True:
            v = rng.choice((0, 1, 255, 256, 257, 16384, 22528, 23296, 65535, rng.randrange(65536)))
            if not lo - 8 <= v <= hi + 8:
                return v

    def fill(self, t, addr_hint):
        """Replace the operand placeholders of a template."""
        rng = self.rng

        def rep(m):
            k = m.group(1)
            if k == 'n':
                r = rng.random()
                if r < 0.12:
                    a = self.target()
                    return self.num16(a) + rng.choice(('%256', '/256', ' % 256'))
                if r < 0.16:
                    return '%d+%d' % (rng.randrange(100), rng.randrange(100))
                if r < 0.19:
                    return '"%s"+%d' % (rng.choice('abc'), rng.randrange(1, 9))
                return self.num8(rng.choice((0, 1, 9, 10, 127, 128, 255, rng.randrange(256))))
            if k == 'b':
                return str(rng.randrange(8))
            if k == 's':
                return rng.choice(('0', '8', '16', '$18', '32', '40', '$30', '56'))
            if k == 'd':
                d = rng.choice((0, 1, 9, 10, 99, 127, rng.randrange(128)))
                sign = rng.choice('+-') if d else '+'     # (IX-0) assembles to the "byte" 256: z80.Assembler defect outside C04
                return sign + rng.choice((str(d), '$%02X' % d, '$%x' % d))
            if k in 'wa':
                a = self.target()
                r = rng.random()
                if r < 0.12:
                    # (the value stays inside 0..65535: an overflowing operand is rejected by every assembler)
                    return self.num16(a) + ('-' if a > 65500 else '+' if a < 4 else rng.choice(('+', '-'))) + str(rng.randrange(1, 4))
                if r < 0.15 and k == 'w':
                    return str(rng.randrange(1, 200)) + '*' + str(rng.randrange(1, 200))
                return self.num16(a)
            if k == 'r':
                a = self.target(addr_hint, True)
                if a is None:
                    return None
                return self.num16(a)
        parts = []
        pos = 0
        for m in re.finditer(r'\{([nwardbs])\}', t):
            v = rep(m)
            if v is None:
                return None
            parts.append(t[pos:m.start()] + v)
            pos = m.end()
        res = ''.join(parts) + t[pos:]
        if rng.random() < 0.08 and '"' not in res:
            res = res.replace(',', ', ', 1)
        if rng.random() < 0.06 and not res.startswith('DEF') and '"' not in res:
            res = res.lower()
        return res

    def fill_op(self, t, addr_hint):
        op = self.fill(t, addr_hint)
        if op is None:   # relative jump with no target in range
            op = self.fill('LD A,{n}', addr_hint)
        return op

    def render(self):
        rng = self.rng
        # reference targets: every instruction address when the layout cannot move; only explicitly
        # labelled ones otherwise (an unlabelled moved target is the known divergence, probed separately)
        self.targets = sorted(self.labelled) if (self.allow_move or self.moving) else list(self.all_addrs)
        res = []
        hint = self.base
        for kind, v in self.lines:
            if kind == 'text':
                res.append(v.replace('{base}', rng.choice((str(self.base), '$%04X' % self.base))))
            elif kind == 'equ':
                res.append('@equ=ATTRS=%s' % rng.choice(('22528', '$5800')))
                res.append('@equ=zero=0')
            elif kind == 'title':
                pk = ''
                if v == 0:
                    addrs = [rng.randrange(self.base, max(self.base + 1, self.end)) for _ in range(6)] + [self.base, self.end - 1]
                    self.peeks = sorted(set(addrs) | self.bytes_addrs | self.data_addrs)
                    pk = ' ' + ' '.join('P%d=#PEEK%s;' % (a, rng.choice((str(a), '(%d)' % a, '($%04X)' % a))) for a in self.peeks)
                res.append('; Entry %d%s' % (v, pk))
                if rng.random() < 0.2:
                    res.extend([';', '; Description of entry.', ';', '; A some register', ';', '; Start comment.'])
            else:
                ins = v
                if ins['addr'] is not None:
                    hint = ins['addr']
                for d in ins['pre']:
                    m = re.match(r'((?:if\([^)]*\)/~)?(?:[a-z]{4}=)?[>|+/]*(?:[A-Za-z_0-9]+: )?)(.*)$', d)
                    if d.startswith('if('):
                        segs = d.split('~')
                        segs = [s if '=' not in s else s.split('=', 1)[0] + '=' + self.fill_op(s.split('=', 1)[1], hint) for s in segs]
                        res.append('@' + '~'.join(segs))
                        continue
                    head, body = m.group(1), m.group(2)
                    if d.startswith(('label=', 'nowarn', 'ignoreua', 'keep', 'defb=', 'defs=', 'defw=', 'bytes=')) or '=!' in d:
                        res.append('@' + d)
                        continue
                    op, sep, c = body.partition(';')
                    opf = self.fill_op(op.rstrip(), hint) if op.strip() else op
                    res.append('@' + head + opf + ((' ;' + c) if sep else ''))
                op = self.fill_op(ins['t'], hint)
                if 'keep' in ins:
                    if ins['keep'] == 'all':
                        res.append('@keep')
                    else:
                        nums = re.findall(r'(?<![\w$%"])\d{3,5}(?![\w"])', op)
                        res.append('@keep' + ('=' + ','.join(nums[:1]) if nums else ''))
                a = ins['addr']
                astr = '     ' if a is None else rng.choice(('%05d' % a, '%05d' % a, '$%04X' % a, '$%04x' % a))
                line = ins['ctl'] + astr + ' ' + op
                if ins['comment']:
                    line = line.ljust(24) + ' ; ' + rng.choice(('Comment', 'Refers to 12345', 'x', 'Multi', 'end'))
                res.append(line)
                if ins['comment'] and rng.random() < 0.12:
                    # instruction comment continuation line(s): no instruction for either tool
                    for _ in range(rng.randrange(1, 3)):
                        res.append(' ' * rng.choice((1, 7, 25)) + '; ' + rng.choice(('continued', 'see 32768', 'LD A,1 ; "x"', '$8000')))
        return '\n'.join(res) + '\n'


def gen_file(rng, allow_move, tools):
    while True:
        g = G(rng, allow_move, tools)
        g.build()
        # a skool file cannot address beyond 65535 (base 65000 plus @org gaps could run past it, and
        # skool2asm then prints an ORG no assembler accepts): keep generated files inside the 64K space
        if max(g.all_addrs) + 64 < 65536:
            break
    text = g.render()
    return g, text


# ---------------------------------------------------------------------------------------------
# correspondence: mode tables
# ---------------------------------------------------------------------------------------------
def corr_modes(chk, tools):
    """skoolparser.Mode / BinWriter / skool2asm.main / read_skool vs Model/AsmModes.lean."""
    sp, sb = tools.skoolparser, tools.skool2bin
    (skoolutils,) = [__import__('skoolkit.skoolutils', fromlist=['x'])]
    empty = os.path.join(chk.scratch, 'empty.skool')
    with open(empty, 'w') as f:
        f.write('')
    ops, impl = [], []

    def tiny(d):
        fn = os.path.join(chk.scratch, 'tiny.skool')
        with open(fn, 'w') as f:
            f.write(f'@start\n@org\n; R\n@{d}=DEFS 1,1\nc32768 DEFS 1,0\n')
        return fn

    for asm in range(4):        # SkoolParser masks asm_mode & 3 before building Mode
        for fix in range(5):
            m = sp.Mode(0, 0, asm, False, fix, False, False, True, tools.assembler)
            pw = ' '.join('%d,%d' % m.weights[d] for d in CLASSES)
            bw_ = sb.BinWriter(empty, asm, fix)
            bc = '%d,%d' % (bw_.asm_mode, bw_.fix_mode)
            bw = ' '.join('%d,%d' % bw_.weights[d] for d in CLASSES)
            ps, bs, bp = '', '', ''
            for d in CLASSES:
                fn = tiny(d)
                # behavioural: is the @d= directive applied?
                par = sp.SkoolParser(fn, asm_mode=asm, fix_mode=fix)
                ps += str(int(par.memory_map[0].instructions[0].operation != 'DEFS 1,0'))
                b = sb.BinWriter(fn, asm, fix)
                bs += str(int(b.entries[0].instructions[0].operation != 'DEFS 1,0'))
                lines = [f'@{d}+begin', 'c32768 NOP', f'@{d}+end']
                blocks = list(skoolutils.read_skool(lines, 2, asm, fix))
                bp += str(int(any('c32768 NOP' in blk for _, blk in blocks)))
            ops.append(f'modes {asm} {fix}')
            impl.append(f'pw {pw} bc {bc} bw {bw} ps {ps} bs {bs} bp {bp}')
            chk.case('corr-modes', ('modes', asm, fix))
    # skool2asm.main coupling (CLI-reachable option combinations only)
    seen = {}
    real_run = tools.skool2asm.run
    tools.skool2asm.run = lambda skoolfile, options, config: seen.update(a=options.asm_mode, f=options.fix_mode)
    try:
        for aopt, asm in (([], 1), (['-s'], 2), (['-r'], 3)):
            for fix in range(4):
                tools.skool2asm.main(aopt + ['-f', str(fix), empty])
                ops.append(f'acouple {asm} {fix}')
                impl.append('ac %d,%d' % (seen['a'], seen['f']))
                chk.case('corr-modes', ('acouple', asm, fix))
    finally:
        tools.skool2asm.run = real_run
    # winner selection: self.subs[max(self.subs)]
    rng = chk.rng
    fn = os.path.join(chk.scratch, 'win.skool')
    for n in range(chk.scale(250, 3000)):
        asm, fix = rng.randrange(4), rng.randrange(4)
        ds = [rng.choice(CLASSES) for _ in range(rng.randrange(0, 6))]
        with open(fn, 'w') as f:
            f.write('@start\n@org\n; R\n' + ''.join(f'@{d}=DEFS 1,{k}\n' for k, d in enumerate(ds)) + 'c32768 DEFS 1,99\n')

        def idx(instrs):
            got = [int(i.operation[7:]) for i in instrs]
            return ' '.join(str(k) for k in got if k != 99)
        par = sp.SkoolParser(fn, asm_mode=asm, fix_mode=fix)
        b = sb.BinWriter(fn, asm, fix)
        ops.append(f'applied {asm} {fix} ' + ' '.join(ds))
        impl.append(('p ' + idx(par.memory_map[0].instructions)).ljust(2) + ' b ' + idx(b.entries[0].instructions))
        chk.case('corr-applied', ('applied', asm, fix, tuple(ds)) if ds else None)
    return ops, impl


# ---------------------------------------------------------------------------------------------
# correspondence: layout (BinWriter._add_instructions / Mode.apply_asm_directives + AsmWriter)
# ---------------------------------------------------------------------------------------------
FLAG_CHOICES = ['_'] * 6 + ['>'] * 4 + ['|'] * 5 + ['+'] * 3 + ['/', '>|', '|+', '>+', '/|', '>/', '|/+', '>|+']


def gen_subs(rng):
    """Directive flag lists: mostly the documented shapes, sometimes arbitrary."""
    k = rng.randrange(10)
    if k == 0:
        return [rng.choice(FLAG_CHOICES) for _ in range(rng.choice((1, 2, 3, 4)))]
    if k == 1:
        return ['_']
    if k == 2:
        return ['>'] * rng.randrange(1, 4) + ['_'] * rng.randrange(0, 2)
    if k == 3:
        return ['+'] + ['_'] * rng.randrange(0, 3)
    if k == 4:
        return ['_'] * rng.randrange(2, 4)
    if k == 5:
        return ['|'] * rng.randrange(1, 5)
    if k == 6:
        return ['|'] * rng.randrange(1, 3) + ['_'] * rng.randrange(1, 3)
    if k == 7:
        return ['>'] * rng.randrange(0, 3) + ['|'] * rng.randrange(1, 4)
    if k == 8:
        return [rng.choice(('/', '/|', '>/', '_'))] + ['_'] * rng.randrange(0, 2)
    return ['>', '|', '|', '_'][:rng.randrange(1, 5)]


def gen_layout(rng):
    """-> (tokens, skool text).  Blocks of instruction lines with random directive lists; an
    operation (size, id) is rendered as `DEFS size,id` (size 0 cannot be assembled).  Half of the
    streams stay inside the documented usage (so that the reference layout is defined), the other
    half are arbitrary (error branches, quirks)."""
    strict = rng.random() < 0.5
    toks, text = [], ['@start']
    ident = [0]
    addr = rng.choice((32768, 40000, 65000, 16384))

    def op(allow_none=False, allow0=True):
        if allow_none and rng.random() < 0.12:
            return None
        ident[0] = (ident[0] + 1) % 256
        s = rng.choice((1, 1, 2, 2, 3, 4) + ((0,) if allow0 and not strict and rng.random() < 0.15 else ()))
        return (s, ident[0])

    def rend(o):
        return '' if o is None else 'DEFS %d,%d' % o

    def tok(o):
        return '-' if o is None else '%d.%d' % o

    nblocks = rng.randrange(1, 4)
    for b in range(nblocks):
        toks.append('B')
        gone = set()        # strict: addresses this block's directives remove
        if b:
            text.append('')
        if b == 0 or rng.random() < 0.4:
            if b or strict or rng.random() < 0.9:
                if rng.random() < 0.6:
                    toks.append('O-')
                    text.append('@org')
                else:
                    v = addr + rng.choice((0, 0, 100, 7))
                    toks.append('O%d' % v)
                    text.append('@org=%d' % v)
        text.append('; Routine %d' % b)
        nlines = rng.randrange(1, 6)
        for i in range(nlines):
            if rng.random() < 0.12 and not (strict and i == 0):
                lo = addr + rng.choice((0, 0, 1, 2, 3, -2))
                hi = lo + rng.choice((0, 0, 1, 3))
                gone.update(range(lo, hi + 1))
                toks.append('R%d-%d' % (lo, hi))
                text.append('@isub=!%d' % lo if lo == hi and rng.random() < 0.5 else '@isub=!%d-%d' % (lo, hi))
            if i and not strict and rng.random() < 0.04:
                v = addr + rng.choice((0, 10))
                toks.append('O%d' % v)
                text.append('@org=%d' % v)
            addressless = i > 0 and rng.random() < 0.15
            o = op(allow_none=not addressless and i > 0 and not strict, allow0=rng.random() < 0.1)
            subs = []
            if rng.random() < 0.6 and not (strict and not addressless and addr in gone):
                allow0 = rng.random() < 0.1
                flags = gen_subs(rng)
                if strict:
                    # documented shapes only: `|` never after a non-`|` directive, not on address-less lines
                    seen_plain = False
                    fixed = []
                    for fl in flags:
                        if '|' in fl and (seen_plain or addressless):
                            fl = fl.replace('|', '') or '_'
                        if '>' not in fl and '|' not in fl:
                            seen_plain = True
                        fixed.append(fl)
                    flags = fixed
                for fl in flags:
                    so = op(allow_none=rng.random() < 0.5, allow0=allow0)
                    subs.append((fl, so))
                if strict and not addressless:
                    # the original addresses the chain overwrites
                    after = [(fl, so) for fl, so in subs if '>' not in fl]
                    cur = addr
                    if after and '+' not in after[0][0]:
                        chain = [(after[0][0], after[0][1] or o)] + after[1:]
                    else:
                        chain = [('_', o)] + after
                    for fl, so in chain:
                        if so is None:
                            continue
                        if '|' not in fl:
                            break
                        gone.update(range(cur, cur + so[0]))
                        cur += so[0]
            toks.append('L-' if addressless else 'L%d' % addr)
            toks.append('o' + tok(o))
            for fl, so in subs:
                toks.append('S%s:%s' % (fl, tok(so)))
                # every directive instruction and every addressed line gets a label (labels do not
                # influence the layout; they make the label locations observable)
                text.append('@isub=%s%s%s' % ('' if fl == '_' else fl, 'C%d_%d: ' % so if so else '', rend(so)))
            if not addressless:
                text.append('@label=A%d_%d' % (addr, len(toks)))
            ctl = 'c' if i == 0 else ' '
            text.append((ctl + ('     ' if addressless else '%05d' % addr) + ' ' + rend(o)).rstrip() if not addressless
                        else ctl + '      ' + rend(o))
            if not addressless:
                addr += o[0] if o else rng.choice((0, 1))
        if rng.random() < 0.3:
            addr += rng.choice((1, 5))
    text.append('')
    return toks, '\n'.join(text) + '\n'


def _tok_of(operation):
    m = re.match(r'DEFS (\d+),(\d+)$', operation.strip())
    if m:
        return '%d.%d' % (int(m.group(1)), int(m.group(2)))
    return '-' if not operation.strip() else '?' + operation


def real_bin_layout(tools, text):
    fn = tools._file(text)
    try:
        b = tools.skool2bin.BinWriter(fn, 1, 0)
    except tools.skoolkit.SkoolParsingError as e:
        return 'err assemble' if 'Failed to assemble' in str(e) else 'err other:' + str(e)[:40]
    except TypeError:
        return 'err noAddress'
    out = ' '.join('%d:%s' % (i.real_address, _tok_of(i.operation)) for e in b.entries for i in e.instructions)
    amap = ' '.join('%d=%s' % (k, v) for k, v in b.address_map.items() if k is not None)
    return ('ok ' + out + ' | m ' + amap).strip()


def _asm_err(msg):
    for k, v in (('Cannot determine address', 'cannotDetermine'), ('IndexError', 'indexError'), ('TypeError', 'typeError')):
        if k in msg:
            return 'err ' + v
    return 'err other:' + msg[:60]


def real_asm_layout(tools, text):
    tools.last_labels = {}
    st, out, err = tools.asm(text, ['-w'])
    if st != 'ok':
        return _asm_err(out)
    image, info = miniasm.assemble(out, tools.assembler)
    errors = [e for e in info['errors'] if not e.startswith(('label before ORG', 'unresolved symbol'))]   # labels are not modelled
    if errors:
        e = errors[0]
        for k, v in (('instruction before ORG', 'noOrg'), ('bad ORG', 'badOrg'), ('cannot size', 'assemble'), ('cannot assemble', 'assemble')):
            if k in e:
                return 'err ' + v
        return 'err other:' + e[:60]
    tools.last_labels = info['labels']
    return ('ok ' + ' '.join('%d:%s' % (a, _tok_of(op)) for a, op, data in info['placed'])).strip()


def real_par_layout(tools, text, toks=()):
    fn = tools._file(text)
    try:
        par = tools.skoolparser.SkoolParser(fn, asm_mode=1)
    except tools.skoolkit.SkoolParsingError as e:
        return _asm_err(str(e)), None
    except (IndexError, TypeError) as e:
        return _asm_err(type(e).__name__), None
    # the macro-visible snapshot around every line address
    snap = {}
    for t in toks:
        if t.startswith('L') and t != 'L-':
            for a in range(int(t[1:]), int(t[1:]) + 4):
                snap[a] = par.snapshot[a & 65535]
    res = []
    labels = getattr(tools, 'last_labels', {})
    pairs = [(i.address, labels.get(i.asm_label)) for e in par.memory_map for i in e.instructions if i.address is not None]
    tools.last_pos = None if any(v is None for _, v in pairs) else ' '.join('%d=%d' % p for p in pairs)
    for e in par.memory_map:
        res.append('E')
        for i in e.instructions:
            if not i.org:
                org = 'n'
            else:
                v = tools.skoolkit.parse_int(i.org)
                org = 'x' if v is None else str(v)
            res.append('%s/%s/%s' % ('-' if i.address is None else i.address, _tok_of(i.operation), org))
    return ('ok ' + ' '.join(res)).strip(), snap


def corr_layout(chk, tools, snaps):
    rng = chk.rng
    ops, impl = [], []
    for n in range(chk.scale(900, 12000)):
        toks, text = gen_layout(rng)
        line = ' '.join(toks)
        rb = real_bin_layout(tools, text)
        ra = real_asm_layout(tools, text)
        rp, snap = real_par_layout(tools, text, toks)
        snaps.append(snap)
        ops += ['bin ' + line, 'asm ' + line, 'par ' + line]
        impl += [rb, ra, rp]
        if ra.startswith('ok') and rp.startswith('ok') and tools.last_pos is not None:
            ops.append('pos ' + line)
            impl.append(('ok ' + tools.last_pos).strip())
        chk.case('corr-layout-' + ('agree' if rb.split(' | ')[0] == ra else 'bin!=asm'), (line,),
                 {'tokens': line, 'bin': rb[:200], 'asm': ra[:200]} if n < 3 else None)
        chk.dist['corr-bin-' + rb.split()[0] + ('-' + rb.split()[1] if rb.startswith('err') else '')] += 1
        chk.dist['corr-asm-' + ra.split()[0] + ('-' + ra.split()[1] if ra.startswith('err') else '')] += 1
    return ops, impl


# ---------------------------------------------------------------------------------------------
# correspondence: _replace_nums
# ---------------------------------------------------------------------------------------------
RN_PIECES = ['0', '7', '10', '007', '255', '256', '65535', '32768', '$0', '$ff', '$FF', '$8000', '$aBc', '$', '$G', '%101', '%',
             ' ', ',', '(', ')', '*', '/', '+', '-', '"', '\t', 'A', 'B', 'LD ', 'IX', 'HL', 'x', 'F', 'h', '#', ':', '12AB', '$12G',
             '1', '9', 'e', '"a"', '")"', ' %', ')%', '"%']
RN_OPS = ['LD A,{}', 'LD HL,{}', 'LD (IX+{}),{}', 'BIT {},(IY-{})', 'DEFB {},{},"{}",{}', 'LD A,({})', 'JP {}', 'DEFW {}+{}',
          'LD A,{}%{}', 'LD A,({}+{})*{}', 'LD A,"{}"+{}', 'DEFS {},{}', 'CP %{}', 'LD A, {} % {}', 'RST {}', 'OUT ({}),A',
          'LD B,{}/{}-{}']
RN_FMTS = [('n', None), ('2u', '${0:02X}'), ('2l', '${0:02x}'), ('4u', '${0:04X}'), ('4l', '${0:04x}')]


def corr_replace_nums(chk, tools):
    rng = chk.rng
    rn = tools.skoolparser._replace_nums
    ops, impl = [], []
    for n in range(chk.scale(2500, 40000)):
        if n % 3 == 0:
            t = rng.choice(RN_OPS)
            text = t.format(*[rng.choice(RN_PIECES[:19]) for _ in range(t.count('{}'))])
        else:
            text = ''.join(rng.choice(RN_PIECES) for _ in range(rng.randrange(0, 9)))
        tag, hex_fmt = rng.choice(RN_FMTS)
        skip = rng.random() < 0.25
        prefix = rng.choice((None, None, '"', '(', ' ', 'x'))
        try:
            got = rn(text, hex_fmt, skip, prefix)
            out = ('ok ' + ' '.join(str(ord(c)) for c in got)).strip()
        except Exception as e:   # not expected: the function has no error branch
            out = 'exc ' + type(e).__name__
        ops.append('rnum %s %d %s %s' % (tag, int(skip), '-' if prefix is None else ord(prefix), ' '.join(str(ord(c)) for c in text)))
        impl.append(out)
        chk.case('corr-replace-nums', ('rn', text, tag, skip, prefix) if got != text else None,
                 {'text': text, 'fmt': tag, 'skip_bit': skip, 'prefix': prefix, 'result': got} if n < 4 else None)
    return ops, impl


# ---------------------------------------------------------------------------------------------
# correspondence: convert_case
# ---------------------------------------------------------------------------------------------
CC_PIECES = ['ld ', 'LD ', 'a', 'A', 'z', 'Z', '"', '"', '\\', '\\"', ' ', '\t', ',', '(ix+', 'IXh', '$ff', '$FF', '1', ';', 'defm ',
             'DEFB ', '"a"', '"A\\"b"', "af'", '@', '[', '`', '{', '~']


def corr_convert_case(chk, tools):
    rng = chk.rng
    cc = tools.assembler.convert_case
    ops, impl = [], []
    for n in range(chk.scale(1500, 20000)):
        text = ''.join(rng.choice(CC_PIECES) for _ in range(rng.randrange(0, 10)))
        lower = rng.random() < 0.5
        got = cc(text, lower)
        ops.append('ccase %d %s' % (int(lower), ' '.join(str(ord(c)) for c in text)))
        impl.append(('ok ' + ' '.join(str(ord(c)) for c in got)).strip())
        chk.case('corr-convert-case', ('cc', text, lower) if got != text else None)
    return ops, impl


# ---------------------------------------------------------------------------------------------
# e2e
# ---------------------------------------------------------------------------------------------
PEEK_RE = re.compile(r'P(\d+)=(\d+);')


def run_mode(tools, text, aopts, bopts, extra, data=False):
    """One skool file in one mode with one set of skool2asm options."""
    st, out, err = tools.asm(text, aopts + extra + ['-w'])
    res = {'asm_status': st, 'asm_out': out}
    if st == 'ok':
        image, info = miniasm.assemble(out, tools.assembler)
        res['image'] = image
        res['asm_errors'] = info['errors']
        res['peeks'] = {int(a): int(v) for a, v in PEEK_RE.findall(out)}
    bst, bimg, brange = tools.bin(text, bopts)
    res['bin_status'] = bst
    res['bin'] = bimg
    res['range'] = brange
    if data and bst == 'ok':
        dst, dimg, _ = tools.bin(text, bopts + ['-d'])
        res['bin_d'] = dimg if dst == 'ok' else None
    return res


def compare_images(res, skip=()):
    """None when the assembled ASM equals the skool2bin image, else the first difference."""
    image, bimg = res['image'], res['bin']
    start, end = res['range']
    if image:
        lo, hi = min(image), max(image) + 1
        if (lo, hi) != (start, end):
            return f'extent: assembled [{lo},{hi}) skool2bin [{start},{end})'
    elif start != end:
        return f'extent: nothing assembled, skool2bin [{start},{end})'
    for a in range(start, end):
        if a not in skip and image.get(a, 0) != bimg[a]:
            return f'byte at {a}: assembled {image.get(a, 0)} skool2bin {bimg[a]}'
    return None


def compare_peeks(res):
    """#PEEK expansions in the ASM output vs the skool2bin image (with -d when data directives exist)."""
    bimg = res.get('bin_d') or res['bin']
    for a, v in sorted(res.get('peeks', {}).items()):
        if v != bimg.get(a, 0):
            return f'#PEEK({a}) expands to {v}, skool2bin image has {bimg.get(a, 0)}'
    return None


def judge(res, mode, extra, g=None):
    """-> (key, description) of a property failure, or None."""
    if res['asm_status'] == 'crash':
        return f'asm-crash-{mode}', 'skool2asm crashed: ' + res['asm_out'][:160]
    if res['bin_status'] == 'crash':
        return f'bin-crash-{mode}', 'skool2bin crashed: ' + str(res['bin'])[:160]
    if res['asm_status'] == 'ok' and res['bin_status'] == 'error' and not res['asm_errors']:
        # skool2asm converted the file and its output assembles, but skool2bin produces no image at all
        return f'bin-rejects-{mode}', 'skool2bin rejects a file whose skool2asm output assembles: ' + str(res['bin'])[:160]
    if res['asm_status'] == 'error' and res['bin_status'] == 'ok':
        return f'asm-rejects-{mode}', 'skool2asm rejects a file that skool2bin converts: ' + res['asm_out'][:160]
    if res['asm_status'] != 'ok' or res['bin_status'] != 'ok':
        return None
    if res['asm_errors']:
        return f'asm-does-not-assemble-{mode}', 'skool2asm output does not assemble: ' + '; '.join(res['asm_errors'][:3])
    d = compare_images(res, g.bytes_addrs if g else ())
    if d:
        return f'image-differs-{mode}', f'skool2asm {" ".join(extra)} assembled vs skool2bin: {d}'
    if g is None or (not g.moving and not g.has_overwrite and not g.has_addressless):
        d = compare_peeks(res)
        if d:
            return f'peek-differs-{mode}', f'skool2asm {" ".join(extra)}: {d}'
    return None


EXTRA_OPTS = [[], ['-D'], ['-H'], ['-l'], ['-u'], ['-c'], ['-H', '-l'], ['-D', '-u'], ['-H', '-c', '-u'], ['-D', '-l', '-c'], ['-F']]


def check_none_mode(chk, tools, g, text):
    """Mode `none`: the snapshot skool2html's parser builds (asm_mode=0, fix_mode=0; what #PEEK and the
    image macros read in HTML mode) vs plain skool2bin."""
    fn = tools._file(text)
    try:
        par = tools.skoolparser.SkoolParser(fn, html=True)
    except tools.skoolkit.SkoolKitError:
        par = None
    bst, bimg, brange = tools.bin(text, ['-d'] if g.has_data else [])
    chk.case('e2e-none', ('none', text[:80]))
    if par is None or bst != 'ok':
        chk.dist['e2e-rejected'] += 1
        return
    for a in range(*brange):
        if par.snapshot[a] != bimg[a]:
            chk.violation('peek-differs-none', f'HTML-mode snapshot byte at {a} is {par.snapshot[a]}, skool2bin (no options) has {bimg[a]}',
                          {'kind': 'none', 'skool': text, 'data': g.has_data})
            return


def e2e(chk, tools):
    rng = chk.rng
    nfiles = chk.scale(70, 1000)
    for n in range(nfiles):
        allow_move = n % 2 == 1
        g, text = gen_file(rng, allow_move, tools)
        modes = MODES if chk.thorough else rng.sample(MODES, 4)
        if n % 2 == 0 or not g.moving:
            check_none_mode(chk, tools, g, text)
        for mode, aopts, bopts in modes:
            extras = EXTRA_OPTS if chk.thorough and n % 10 == 0 else [[]] + rng.sample(EXTRA_OPTS[1:], 2)
            for extra in extras:
                res = run_mode(tools, text, aopts, bopts, extra, g.has_data)
                tag = f'e2e-{mode}-{"move" if g.moving else "fixed"}'
                chk.case(tag, (n, mode, tuple(extra)),
                         {'mode': mode, 'skool2asm': aopts + extra, 'skool2bin': bopts, 'skool': text[:600]} if n < 2 and not extra and mode == modes[0][0] else None)
                if res['asm_status'] != 'ok' or res['bin_status'] != 'ok':
                    chk.dist['e2e-rejected'] += 1
                bad = judge(res, mode, extra, g)
                if bad:
                    chk.violation(bad[0], bad[1], {'kind': 'e2e', 'skool': text, 'mode': mode, 'aopts': aopts, 'bopts': bopts,
                                                   'extra': extra, 'data': g.has_data, 'skip': sorted(g.bytes_addrs),
                                                   'peek': not g.moving and not g.has_overwrite and not g.has_addressless})


# ---------------------------------------------------------------------------------------------
# deterministic witnesses: known findings + regression probes for the defects fixed in /repo
# ---------------------------------------------------------------------------------------------
PROBES = [
    # (key, mode, skool text, what is compared)
    ('unlabelled-target-after-move', 'rsub',
     '@start\n@org\n; Routine\nc32768 JP 32773\n@rsub=>XOR A\n 32771 NOP\n 32772 NOP\n 32773 RET\n', 'image'),
    ('peek-overwrite-chain-not-assembled', 'bfix',
     '@start\n@org\n; Routine P49916=#PEEK49916;\nc49912 XOR A\n 49913 INC A\n@bfix=|LD L,0\n@bfix=|LD H,L\n 49914 LD HL,0\n 49917 RET\n', 'peek'),
    ('asm-crash-label-on-addressless-instruction', 'bfix',
     '@start\n@org\n; Routine\n@bfix=>DATA1: JP (IY)\nc24576 LD SP,0\n@label=Start2\n 24579 RET\n', 'image'),
    ('peek-removed-instruction-assembled', 'bfix',
     '@start\n@org\n; Routine P49913=#PEEK(49913);\n@bfix=|LD A,1\nc49912 XOR A\n 49913 INC A\n 49914 RET\n', 'peek'),
    ('asm-crash-addressless-first-or-last-instruction', 'rsub',
     '@start\n@org\n; Routine at 32768\nc32768 LD A,1\n@rsub=+XOR A\n 32770 RET ; at 32770\n', 'image'),
    ('asm-crash-addressless-first-or-last-instruction', 'rsub',
     '@start\n@org\n; Routine at 32768\n@rsub=>XOR A\nc32768 LD A,1\n 32770 RET ; at 32770\n', 'image'),
]


# ---------------------------------------------------------------------------------------------
# directed deterministic files (mutation sweep): input classes the random stream reaches too rarely
# ---------------------------------------------------------------------------------------------
DIRECTED = [
    # strings whose bytes a case conversion / the -u fix-up of IXH..IYL would change; string content that looks like numbers
    ('strings-case', """@start
@org
; Data P40000=#PEEK40000; P40002=#PEEK(40002); P40005=#PEEK40005; P40012=#PEEK40012; P40020=#PEEK40020; P40029=#PEEK40029;
@label=TEXT
t40000 DEFM "IXH"
 40003 DEFM "iyl",1
 40007 DEFB "IYL ixh"
 40014 DEFB 1,"Ld A,ixH",$ff
 40024 defm "IXl",%101,"$ff 255"
 40035 DEFW "I"+256*"X",40000
 40039 DEFS 3,"H"
@isub=DEFM "IYH:1;2"
 40042 DEFM "iyh:1;2"
@isub=DEFB ";",":"    ; comment
 40049 DEFB 0,0
 40051 LD A,"h"
 40053 LD HL,"H"*256+"l"
""", True),
    # label forms: one-letter names, `*NAME`, `*`, blank
    ('label-forms', """@start
@org
; Routine
@label=Q
c32768 LD HL,32775
@label=*K
 32771 JP 32771
@label=*
 32774 RET
@label=
*32775 JP 32768
@label=*LongName
 32778 CALL 32774
@label=V
 32781 DEFW 32771,32778

; Routine 2
c32785 JR 32785
 32787 DJNZ 32787
*32789 JP NZ,32789
 32792 RET
""", True),
    # instruction comment continuation lines and multi-instruction comments (braces)
    ('comment-layout', """@start
@org
; Routine
@label=START
c49152 LD A,1        ; first line
                     ; second line: LD A,2
 ; third line 49152
@label=NEXT
 49154 LD B,2        ; {shared by
@label=THIRD
 49156 LD C,3        ; three
@isub=LD D,5
 49158 LD D,4        ; instructions}
 49160 JP 49156      ; {over two
 49163 JP 49158      ;
                     ; lines}
 49166 RET           ; {alone}
""", True),
    # @bytes, @defb/@defs/@defw (with and without an address), #PEEK of every affected byte
    ('bytes-and-data', """@start
@org
; Routine P49152=#PEEK49152; P49153=#PEEK49153; P49154=#PEEK49154; P49155=#PEEK49155; P60000=#PEEK60000; P60001=#PEEK60001; P60002=#PEEK60002; P60010=#PEEK60010; P60012=#PEEK60012; P60020=#PEEK60020; P60021=#PEEK60021; P60031=#PEEK60031; P60033=#PEEK60033;
@bytes=237,76
c49152 NEG
@bytes=$ED,$76
@isub=IM 1
 49154 IM 1
@defb=60000:1,"a"
@defb=3
@defs=60010:3,$AA
@defw=60020:$1234 ; comment
@defb=60030:"a;b",1 ; comment
 49156 RET
""", False),
    # @assemble=,1 (data definitions only) and @assemble=,2 with lower- and upper-case statements: the
    # #PEEK-visible snapshot holds every DEFB/DEFM/DEFS/DEFW byte whatever the case of the source
    # (seeded C04-set-byte-values-lowercase-def was missed: no generated file changed the assemble level)
    ('assemble-level-case', """@start
@org
@assemble=,1
; Data P40000=#PEEK40000; P40001=#PEEK40001; P40002=#PEEK40002; P40003=#PEEK40003; P40004=#PEEK40004; P40005=#PEEK40005; P40006=#PEEK40006; P40007=#PEEK40007; P40008=#PEEK40008; P40009=#PEEK40009;
b40000 defb 201,2
 40002 DEFW 1027
 40004 defs 2,255
 40006 defm "ab"
 40008 defw 513

@assemble=,2
; Routine P40010=#PEEK40010; P40011=#PEEK40011; P40012=#PEEK40012; P40013=#PEEK40013;
c40010 ld a,7
 40012 defb 9
 40013 RET
""", True),
]
DIRECTED_MODES = ('isub', 'bfix', 'rfix')


def directed(chk, tools):
    """Every directed file in three modes with every skool2asm option set (plus mode none)."""
    for name, text, plain in DIRECTED:

        class _G:
            bytes_addrs = {49152, 49153, 49154, 49155} if not plain else set()
            moving = has_overwrite = has_addressless = False
            has_data = not plain
        check_none_mode(chk, tools, _G, text)
        for mode, aopts, bopts in MODES:
            if mode not in DIRECTED_MODES:
                continue
            for extra in EXTRA_OPTS:
                res = run_mode(tools, text, aopts, bopts, extra, _G.has_data)
                chk.case('directed-' + name, ('directed', name, mode, tuple(extra)))
                bad = judge(res, mode, extra, _G)
                if res['asm_status'] != 'ok' or res['bin_status'] != 'ok':
                    bad = bad or (f'directed-file-rejected-{mode}', 'a directed (valid) file is rejected: ' +
                                  (res['asm_out'] if res['asm_status'] != 'ok' else str(res['bin']))[:160])
                if bad:
                    chk.violation(bad[0], f'[{name}] ' + bad[1],
                                  {'kind': 'e2e', 'skool': text, 'mode': mode, 'aopts': aopts, 'bopts': bopts, 'extra': extra, 'data': _G.has_data,
                                   'skip': sorted(_G.bytes_addrs), 'peek': True, 'must_convert': True})


def run_probe(tools, key, mode, text, what):
    aopts, bopts = next((a, b) for m, a, b in MODES if m == mode)
    res = run_mode(tools, text, aopts, bopts, [])
    if res['asm_status'] == 'crash' or res['bin_status'] == 'crash':
        return 'tool crashed: ' + (res['asm_out'] if res['asm_status'] == 'crash' else str(res['bin']))[:160]
    if res['asm_status'] != 'ok' or res['bin_status'] != 'ok':
        return None
    if res['asm_errors']:
        return 'output does not assemble: ' + res['asm_errors'][0]
    return compare_peeks(res) if what == 'peek' else compare_images(res)


def probes(chk, tools):
    for key, mode, text, what in PROBES:
        d = run_probe(tools, key, mode, text, what)
        chk.case('probe-' + key, None)
        if d:
            chk.violation(key, f'{mode}: {d}', {'kind': 'probe', 'key': key, 'mode': mode, 'skool': text, 'what': what})


def spec_implication(chk, tools, cases):
    """The layout theorems, replayed on the real tools: whenever the reference layout is defined for
    a generated token stream, real skool2bin and real skool2asm+assembler must both produce it."""
    model = chk.run_driver('C04', ['spec ' + line for line, _, _ in cases])
    if model is None:
        return
    n_ok = 0
    for (line, rb, ra), m in zip(cases, model):
        if not m.startswith('ok'):
            continue
        n_ok += 1
        if rb != m or ra != m.split(' | ')[0]:
            chk.corr_diffs += 1
            chk.breaks.append({'kind': 'correspondence', 'name': 'reference layout vs real tools',
                               'detail': [{'op': 'spec ' + line, 'impl': f'bin: {rb} / asm: {ra}', 'model': m}]})
            break
    chk.corr_cases += n_ok
    chk.extra['layout_cases_inside_documented_usage'] = n_ok


def snapshot_correspondence(chk, lines, snaps):
    """Model `parPokes` vs the real parser snapshot: replay the model's poke list (an operation
    (size, id) assembles to `id` repeated `size` times) and compare the bytes around every line."""
    model = chk.run_driver('C04', ['pokes ' + line for line in lines])
    if model is None:
        return
    diffs = []
    for line, snap, m in zip(lines, snaps, model):
        if snap is None or not m.startswith('ok'):
            if (snap is None) != m.startswith('err'):
                diffs.append({'op': 'pokes ' + line, 'impl': 'parser ' + ('failed' if snap is None else 'succeeded'), 'model': m})
            continue
        mem = {}
        for t in m.split()[1:]:
            a, o = t.split(':')
            size, ident = map(int, o.split('.'))
            for k in range(size):
                mem[int(a) + k] = ident
        chk.corr_cases += 1
        bad = [a for a in snap if snap[a] != mem.get(a, 0)]
        if bad:
            chk.corr_diffs += 1
            diffs.append({'op': 'pokes ' + line, 'impl': 'snapshot ' + ' '.join(f'{a}={snap[a]}' for a in bad[:6]),
                          'model': ' '.join(f'{a}={mem.get(a, 0)}' for a in bad[:6])})
    if diffs:
        chk.breaks.append({'kind': 'correspondence', 'name': 'parPokes model vs SkoolParser snapshot', 'detail': diffs[:5]})


def run(chk):
    chk.rule = ('e2e: generated skool files (1-4 entries of 1-7 instructions from ~80 Z80 instruction templates and DEFB/DEFM/DEFS/DEFW '
                'with strings, characters, expressions, numbers in decimal/$hex/%binary; operands that are addresses of other '
                'instructions; @label/@keep/@nowarn/@ignoreua/@equ/@org/@if/@bytes/@defb/@defs/@defw; @*sub/@*fix directives that '
                'replace, insert before (>), insert after (+), overwrite (|) and remove (!), block directives) converted by '
                'skool2asm.main in 9 mode combinations x option sets drawn from {-D,-H,-l,-u,-c,-F}, assembled by an independent '
                'two-pass assembler and compared byte for byte with skool2bin.main in the same mode; #PEEK probes; mode none via '
                'the HTML-mode parser snapshot. Half of the files keep the layout fixed (all checks), half move code (references '
                'only to labelled instructions). Directed deterministic files (strings whose bytes a case conversion or the -u '
                'IXH..IYL fix-up would change and strings holding : ; , inside quotes, also as @*sub operations; label forms '
                'Q / *K / * / blank / *LongName with and without -c; comment continuation lines and multi-instruction brace '
                'comments; @bytes and @defb/@defs/@defw with #PEEK of every affected byte) in modes isub/bfix/rfix x all 11 '
                'option sets + mode none; a directed file must be converted by both tools. A generated file that skool2bin '
                'rejects while skool2asm converts it into text that assembles (or vice versa) is a violation '
                '(bin-rejects-<mode> / asm-rejects-<mode>). non-trivial = distinct (file, mode, options). Correspondence: mode tables '
                '(all 20 mode pairs), winner selection, layout token streams (bin/asm/par/pos/pokes/spec ops), _replace_nums and '
                'convert_case strings.')
    chk.trusted += ['hand models lean/SkoolVerif/Model/{AsmModes,AsmLayout,ReplaceNums}.lean tied by correspondence (harness/props/c04.py)',
                    'reference layout lean/SkoolVerif/Spec/AsmLayout.lean (written from sphinx/source/asm.rst)',
                    'harness/indep/miniasm.py (ORG/EQU/labels/sequential placement) + skoolkit.z80.Assembler for single-operation encodings',
                    'CPython re (the regex of _replace_nums is modelled as a state machine and tied by correspondence)']
    chk.assumptions += [
        'Layout theorems hold inside the documented usage (Spec.specLayout defined): @org only before the first instruction of an '
        'entry; a removed line carries no directives of its own; `|` only after `|` in a chain; every placed operation assembles. '
        'Outside it the models still mirror the code (correspondence) and a concrete disagreement is proved (layout_agree_full_false).',
        'Operations are abstract with an address-independent size; label/comment handling, @bytes sizing, the -S/-E window, @if and '
        '@bank are not modelled (e2e only). Operand relocation is proved at the level of addresses (BinWriter.address_map = reference '
        'map; the ASM label of every line lands on the mapped address; relocation_agrees needs the operand to be labelled or unmoved - '
        'relocation_agrees_full_false is the known finding); the regex-driven replacement of operand TEXT by labels '
        '(_replace_addresses/_get_label, shared by both tools) is e2e only.',
        'Snapshot (#PEEK): the parser is proved to poke the same (address, operation) sequence as skool2bin for fixed-layout files '
        '(Spec.specLayoutFixed defined); outside that class peek_agrees_full_false is the known finding. @bytes, @defb/@defs/@defw, '
        '@assemble and HTML mode are e2e only.',
        'convert_case: ASCII only (Python upper()/lower()/isspace() on other characters are not modelled; non-ASCII letters outside '
        'strings are left alone by the model); the -u fix-up of IXh/IXl (re.sub) is e2e only.',
        '_replace_nums: ASCII only; value preservation of the output STRING is proved under the side condition that no decimal numeral is '
        'directly followed by a hexadecimal letter (`12AB` -> `$0CAB` is the counterexample); how the assembler tokenises operands '
        '(its own regex, no look-behind) is e2e only.',
        'E2E exclusions (documented design, not reported): (a) in a mode that moves code an operand naming an UNLABELLED instruction is '
        'relocated by skool2bin but left numeric by skool2asm, which warns (witness reported as known finding unlabelled-target-after-move) '
        '- generated moving files refer only to explicitly labelled instructions; (b) the parser snapshot (#PEEK) is laid out by skool '
        'address and never contains address-less lines or the 2nd+ instructions of a `|` chain (known finding '
        'peek-overwrite-chain-not-assembled), so #PEEK is compared only in files without movement, overwrite chains and address-less '
        'lines; (c) a removed line that carries `>`/`+` directives of its own, and @keep on a line with `>`/`+` insertions after movement, '
        'are handled differently by the two tools (not generated); (d) @bytes values differ from the assembled operation by design '
        '(those addresses are skipped in the image comparison, not in #PEEK); (e) mid-entry @org is honoured by skool2bin only (documented).']
    tools = Tools(chk)
    ok = chk.lake_build([PROPS, 'SkoolVerif.Prelude.Proto'])
    chk.audit(PROPS)
    if chk.thorough and ok:
        chk.leanchecker([PROPS])
    # correspondence
    ops, impl = corr_modes(chk, tools)
    snaps = []
    o2, i2 = corr_layout(chk, tools, snaps)
    o3, i3 = corr_replace_nums(chk, tools)
    o4, i4 = corr_convert_case(chk, tools)
    ops, impl = ops + o2 + o3 + o4, impl + i2 + i3 + i4
    model = chk.run_driver('C04', ops)
    chk.compare('C04 models vs skoolparser / skool2bin / skool2asm', ops, impl, model)
    cases = [(o2[k][4:], i2[k], i2[k + 1]) for k in range(len(o2)) if o2[k].startswith('bin ')]
    spec_implication(chk, tools, cases)
    snapshot_correspondence(chk, [c[0] for c in cases], snaps)
    # the property itself
    probes(chk, tools)
    directed(chk, tools)
    e2e(chk, tools)
    chk.note('documented design limits excluded from the random stream (see assumptions): unlabelled targets after movement, '
             '#PEEK under movement / overwrite chains / address-less lines, removed lines with own directives, @keep scope')


def replay(chk, data):
    tools = Tools(chk)
    if data['kind'] == 'probe':
        return bool(run_probe(tools, data['key'], data['mode'], data['skool'], data['what']))
    if data['kind'] == 'none':
        fn = tools._file(data['skool'])
        par = tools.skoolparser.SkoolParser(fn, html=True)
        bst, bimg, brange = tools.bin(data['skool'], ['-d'] if data.get('data') else [])
        return bst == 'ok' and any(par.snapshot[a] != bimg[a] for a in range(*brange))
    if data['kind'] == 'e2e':
        res = run_mode(tools, data['skool'], data['aopts'], data['bopts'], data['extra'], data.get('data', False))

        class _G:
            bytes_addrs = set(data.get('skip', ()))
            moving = has_overwrite = has_addressless = not data.get('peek', False)
        if data.get('must_convert') and (res['asm_status'] != 'ok' or res['bin_status'] != 'ok'):
            return True
        return judge(res, data['mode'], data['extra'], _G) is not None
    return False
