"""C01 correspondence generators: control-file text from the ctl grammar (structure only),
statement-splitting calls, BinWriter placement.  Real code in-process vs Drivers/C01.lean."""
import contextlib
import io
import os
import re

ERR_TEXT = ('invalid address', 'blank directive with no containing block', 'invalid integer',
            'extra parameters after address', 'loop length not specified', 'loop count not specified',
            'invalid directive')


# --------------------------------------------------------------------------------------
# control files from the grammar
# --------------------------------------------------------------------------------------

def gen_ctl_text(rng, base, span):
    """Random control file around [base, base+span): mostly valid lines, some malformed.  Only
    characters inside the lexical model's domain (no quotes in parameters, no signs/underscores)."""
    def addr(wild=True):
        k = rng.randrange(40)
        if wild and k == 0:
            return rng.choice(('', 'x', '12A', '$', '$G1', '%102', '%', 'b5', '5b', '$$1', 'g'))
        if k == 1:
            return rng.choice(('0', str(base + span + rng.randrange(0, 5)), str(max(base - 1, 0)), '65535', '65536', '70000'))
        a = base + rng.randrange(span)
        f = rng.randrange(6)
        if f == 0:
            return '${:04X}'.format(a)
        if f == 1:
            return '${:x}'.format(a)
        if f == 2 and a < 4096:
            return '%{:b}'.format(a)
        if f == 3:
            return '{:05d}'.format(a)
        return str(a)

    def num(small=True):
        k = rng.randrange(30)
        if k == 0:
            return rng.choice(('', 'x', '1x', '$', '%3', 'q'))
        n = rng.choice((0, 1, 1, 2, 2, 3, 4, 5, 8, 16)) if small else rng.randrange(0, span)
        f = rng.randrange(8)
        if f == 0:
            return '${:X}'.format(n)
        if f == 1:
            return '%{:b}'.format(n)
        if f == 2:
            return '{:03d}'.format(n)
        return str(n)

    def pfx():
        k = rng.randrange(8)
        if k < 4:
            return ''
        if k < 7:
            return rng.choice('bcdhmn')
        return rng.choice('bcdhmn') + rng.choice('bcdhmn')

    def sublist(letter):
        items = []
        for _ in range(rng.choice((0, 1, 1, 2, 3))):
            parts = [pfx() + (num() if rng.randrange(6) else '') for _ in range(rng.choice((1, 1, 1, 2, 3)))]
            t = ':'.join(parts)
            if rng.randrange(4) == 0:
                t += '*' + rng.choice(('0', '1', '2', '3', '', 'x', '2*2', '$2'))
            items.append(t)
        return items

    def text():
        return rng.choice(('', '', ' text', ' some, text', ' {x}', ' 1,2', ' a:b*c'))

    lines = []
    n = rng.choice((1, 2, 3, 5, 8, 13, 20))
    for _ in range(n):
        k = rng.randrange(100)
        if k < 22:
            lines.append(rng.choice('bcgistuw') + rng.choice((' ', ' ', '', '  ')) + addr() + text())
        elif k < 62:
            letter = rng.choice('BBCSTW  ')
            p = [addr()]
            if rng.randrange(4):
                p.append(pfx() + (num(small=False) if rng.randrange(5) else ''))
                p += sublist(letter)
            lines.append(letter + ' ' + ','.join(p) + text())
        elif k < 72:
            letter = rng.choice('DNMER>')
            p = [addr()]
            if letter in 'M>' and rng.randrange(2):
                p.append(num(small=False))
                if rng.randrange(3) == 0:
                    p.append(num())
            elif rng.randrange(12) == 0:
                p.append(num())
            lines.append(letter + ' ' + ','.join(p) + text())
        elif k < 84:
            p = [addr(), num()]
            if rng.randrange(8):
                p.append(rng.choice(('2', '2', '3', '1', '0', '5', '', 'x', '1:1')))
            if rng.randrange(3) == 0:
                p.append(rng.choice(('0', '1', '1', '2', '3')))
            if rng.randrange(12) == 0:
                p = p[:1]
            lines.append('L ' + ','.join(p))
        elif k < 90:
            lines.append(rng.choice(('# comment', '; comment', '% comment', '. continuation', ': continuation', '.', ':x')))
        elif k < 94:
            lines.append(rng.choice(('Z 5', 'G ' + addr(), 'I ' + addr(), 'x', 'b', 'B', ' ', 'L', '?')))
        elif k < 97:
            lines.append(rng.choice('bcw') + ' ' + addr(False) + ',' + num())
        else:
            lines.append(rng.choice('BTW') + '  ' + addr(False) + ',' + num() + ' trailing   ')
    if rng.randrange(3):
        lines.insert(rng.randrange(len(lines) + 1), rng.choice('bcgistuw') + ' ' + str(base))
    return lines


def canon_blocks(blocks):
    out = []
    for b in blocks:
        subs = []
        for s in b.blocks:
            sl = '+'.join(f'{n}.{base}' for n, base in s.sublengths)
            subs.append(f'{s.ctl}:{s.start}:{s.end}:{sl}')
        out.append(f'{b.ctl}:{b.start}:{b.end}[' + ' '.join(subs) + ']')
    return ' '.join(out)


def real_ctl(ctlparser, scratch, lines, min_a, max_a):
    """The real CtlParser on the same text: canonical blocks + ignored lines."""
    path = os.path.join(scratch, 'corr.ctl')
    with open(path, 'w') as f:
        f.write('\n'.join(lines) + '\n')
    err = io.StringIO()
    try:
        with contextlib.redirect_stderr(err):
            p = ctlparser.CtlParser()
            p.parse_ctls([path], min_a, max_a)
            blocks = p.get_blocks()
    except Exception as e:          # the model has no such branch: shows up as a diff
        return f'raised {type(e).__name__}'
    errs = []
    for m in re.finditer(r'Ignoring line (\d+) in \S+ \((.*?)\):', err.getvalue()):
        errs.append(f' {m.group(1)}:' + m.group(2).replace(' ', '_'))
    return 'ok ' + canon_blocks(blocks) + ' |' + ''.join(errs)


# --------------------------------------------------------------------------------------
# statement splitting
# --------------------------------------------------------------------------------------

def dots(bs):
    return '.'.join(str(b) for b in bs)


def fmt_subl(subl):
    return '+'.join(f'{n}.{b}' for n, b in subl) if subl else '-'


def canon_stmts(asm, instrs, with_asm=True):
    out = []
    for i in instrs:
        op = i.operation.upper()
        if not op:
            kind = 'I'
        elif op.startswith('DEF') and op[3:5] in ('B ', 'M ', 'W ', 'S ') or op in ('DEFB', 'DEFM'):
            kind = op[3]
        else:
            kind = 'C'
        data = list(i.bytes)
        if not with_asm:
            back = []
        elif kind in 'CI':
            back = data if kind == 'C' else []
        else:
            back = list(asm.assemble(i.operation, i.address))
        out.append(f'{i.address}/{kind}/{dots(data)}/{dots(back)}')
    return 'ok ' + ' '.join(out)


def call(f, *args):
    try:
        return f(*args)
    except IndexError:
        return 'err index'
    except KeyError:
        return 'err key'
    except ValueError:
        return 'err value'
    except Exception as e:          # the model has no such branch: shows up as a diff, not as a harness crash
        return f'raised {type(e).__name__}'


def gen_subl(rng, n, kind):
    """A sublength list for `n` bytes of data such that no part starts at or beyond the end of the data
    (the multi-part overrun is outside the model's domain, see the module notes)."""
    bases = ('n', 'n', 'b', 'd', 'h', 'm', 'c')
    k = rng.randrange(10)
    if k < 3 or n == 0:
        return [(0, rng.choice(bases[:5] if kind == 's' else bases))]
    parts, used = [], 0
    step = 2 if kind == 'w' and rng.randrange(4) else 1
    while used < n and len(parts) < 4:
        size = rng.choice((1, 1, 2, 3, 4, 8)) * step
        parts.append((size, rng.choice(bases)))
        used += size
    if kind == 's' and rng.randrange(2):
        parts = [(rng.choice((n, n, 1, 2, n + 1)), rng.choice(bases))] + ([(0, rng.choice(bases))] if rng.randrange(2) else [])
    if kind == 's' and parts[0][1] == 'm':
        parts[0] = (parts[0][0], 'h')          # a negative DEFS size is outside the model (and meaningless)
    return parts


def range_ops(rng, mods, count):
    """Ops for `_defb_lines`, `defw_range`, `defs_range` on short snapshots (the end of the snapshot
    plays the role of 65536) and the real results."""
    snaskool, disassembler, z80 = mods
    asm = z80.Assembler()
    ops, impl, tags = [], [], []
    for _ in range(count):
        size = rng.choice((0, 1, 2, 3, 5, 8, 9, 16, 17, 24, 24, 50, 260))
        style = rng.randrange(4)
        if style == 0:
            mem = [rng.choice((0, 0, 255))] * size
        elif style == 1:
            mem = [rng.choice((65, 34, 92, 200, 32, 0)) for _ in range(size)]
        else:
            mem = [rng.randrange(256) for _ in range(size)]
        start = rng.choice((0, 0, 1, 2, size // 2, max(size - 1, 0), size))
        end = rng.choice((size, size, size - 1, size + 1, start + 1, start + 2, start + 5, start, max(start - 1, 0), size + 3))
        end = max(end, 0)
        kind = rng.choice(('b', 'm', 'w', 's', 'b', 'w'))
        n = max(min(end, size) - start, 0)
        subl = gen_subl(rng, n, kind)
        cfg = snaskool.DisassemblerConfig(False, False, 8, 65, 1, 0, snaskool.Instruction, '', 0)
        d = disassembler.Disassembler(mem, cfg)
        memtxt = ' '.join(map(str, mem))
        t = tuple(subl)
        if kind in 'bm':
            mx = rng.choice((0, 1, 2, 3, 4, 8, 65))
            d.defb_size = d.defm_size = mx
            ops.append(f'defb {int(kind == "m")} {mx} {start} {end} {fmt_subl(subl)} | {memtxt}')
            r = call(d._defb_lines, start, end, t, kind == 'm')
        elif kind == 'w':
            dw = rng.choice((0, 1, 1, 2, 3, 4))
            d.defw_size = dw
            ops.append(f'defw {dw} {start} {end} {fmt_subl(subl)} | {memtxt}')
            r = call(d.defw_range, start, end, t)
        else:
            db = rng.choice((1, 2, 3, 8))
            d.defb_size = db
            ops.append(f'defs {db} {start} {end} {fmt_subl(subl)} | {memtxt}')
            r = call(d.defs_range, start, end, t)
        impl.append(r if isinstance(r, str) else canon_stmts(asm, r))
        tags.append(kind)
    return ops, impl, tags


def sub_ops(rng, mods, count):
    """The data sub-block loop of Disassembly._create_entries on one crafted sub-block."""
    snaskool, ctlparser, z80 = mods
    asm = z80.Assembler()
    ops, impl = [], []
    for _ in range(count):
        size = rng.choice((1, 2, 3, 5, 8, 9, 16, 17, 30))
        style = rng.randrange(3)
        mem = [rng.choice((0, 7))] * size if style == 0 else [rng.randrange(256) for _ in range(size)]
        start = rng.choice((0, 0, 1, size // 2))
        end = rng.choice((size, size, max(start + 1, size - 1), start + 1))
        if not start < end <= size:
            continue
        ctl = rng.choice('bgstuwi')
        subl = gen_subl(rng, end - start, ctl)
        if ctl == 'w' and subl[0][0]:
            subl = [(n + n % 2, b) for n, b in subl]
        if ctl in 'bgut' and subl[0][0] and len(subl) > 1:
            # a multi-part statement must not be cut by the end of the sub-block (outside the model's domain)
            total = sum(n for n, b in subl)
            if (end - start) % total:
                subl = subl[:1]
        db, dm, dw = rng.choice((1, 3, 8)), rng.choice((2, 5, 65)), rng.choice((1, 2, 3))
        p = ctlparser.CtlParser({start: ctl, end: 'i'})
        p._lengths[start] = tuple(subl)
        ops.append(f'sub {ctl} {db} {dm} {dw} {start} {end} {fmt_subl(subl)} | ' + ' '.join(map(str, mem)))
        try:
            dis = snaskool.Disassembly(mem, p, {'DefbSize': db, 'DefmSize': dm, 'DefwSize': dw}, final=False)
            r = canon_stmts(asm, [i for e in dis.entries for i in e.instructions])
        except (IndexError, KeyError, ValueError) as e:
            r = {'IndexError': 'err index', 'KeyError': 'err key', 'ValueError': 'err value'}[type(e).__name__]
        except Exception as e:
            r = f'raised {type(e).__name__}'
        impl.append(r)
    return ops, impl


def dec_len(d, a):
    """The length Disassembler.disassemble computes for the instruction at a (its first four lines)."""
    decoder, template = d.ops[d.snapshot[a]]
    if template == '':
        return decoder(a, 'n')[1]
    return decoder(template, a, 'n')[1]


def window_of(snapshot, lo, hi):
    return ' '.join(map(str, snapshot[lo:hi]))


def walk_ops(rng, mods, gen_bytes, count):
    """Disassembler.disassemble (the address walk) with the decoder's lengths supplied as an oracle."""
    snaskool, disassembler, rst, z80 = mods
    asm = z80.Assembler()
    ops, impl = [], []
    for _ in range(count):
        n = rng.choice((1, 2, 3, 6, 12, 30))
        lo = rng.choice((65536 - n, 65536 - n, 0, 30000, 65536 - n - 3))
        snapshot = [0] * 65536
        snapshot[lo:lo + n] = gen_bytes(rng, n)
        if lo + n == 65536 and rng.randrange(2):
            tail = rng.choice(([0x3E], [0xC3], [0xC3, 1], [0xDD, 0x36], [0xDD, 0x36, 5], [0xDD, 0xCB, 1], [0xED, 0x43], [0x18], [0xCF],
                               [0xDD], [0xED], [0xCB], [0xFD, 0xCB], [0x10], [0xD7], [0x21, 9], [0xCF, 1], [0xD7, 1]))
            if len(tail) <= n:
                snapshot[65536 - len(tail):] = tail
        wrap = rng.randrange(2)
        handle = rng.randrange(2)
        opcodes = rng.choice(('', 'ALL', 'ED63,IM'))
        cfg = snaskool.DisassemblerConfig(False, False, 8, 65, 1, 0, snaskool.Instruction, opcodes, wrap)
        d = disassembler.Disassembler(snapshot, cfg)
        if handle:
            d.rst_handler = rst.RSTHandler(rng.choice(('8:B', '8:B,16:W', '16:W,56:B', '0:W')))
        start = lo + rng.choice((0, 0, 1, n // 2))
        end = min(65536, rng.choice((lo + n, lo + n, lo + n - 1, start + 1)))
        if not start < end:
            continue
        lens = ' '.join(f'{a}:{dec_len(d, a)}' for a in range(start, end))
        rsts = []
        if handle:
            for a in range(start, end):
                h = d.rst_handler.handle(snapshot, a)
                if h:
                    rsts.append(f'{a}:{h[0]}:{fmt_subl(h[1])}')
        ops.append(f'walk {wrap} {start} {end} {lo} | {window_of(snapshot, lo, lo + n)} | {lens} | ' + ' '.join(rsts))
        try:
            impl.append(canon_stmts(asm, d.disassemble(start, end, 'n')).replace('/C/', '/X/').replace('/B/', '/X/'))
        except Exception as e:
            impl.append(f'raised {type(e).__name__}')
    return ops, impl


# --------------------------------------------------------------------------------------
# BinWriter placement
# --------------------------------------------------------------------------------------

def bin_ops(rng, mods, scratch, count):
    """Small skool files (DEFB lines, blank 'i' lines, @org directives, unassemblable lines) through the real
    BinWriter: base address and bytes written, vs the model's sequential placement."""
    skool2bin, skoolkit = mods
    ops, impl = [], []
    path = os.path.join(scratch, 'corr.skool')
    outp = os.path.join(scratch, 'corr.bin')
    for _ in range(count):
        items, lines = [], []
        a = rng.choice((0, 100, 30000, 65520, 65530))
        first = True
        for _ in range(rng.choice((1, 2, 3, 5, 8, 12))):
            k = rng.randrange(12)
            ctl = 'b' if first else ' '
            if k == 0:
                lines.append('')
                items.append('/')
                first = True
            elif k == 1:
                if rng.randrange(2):
                    items.append('o')
                    lines.append('@org')
                else:
                    t = a + rng.choice((0, 1, 5))
                    items.append(f'o{t}')
                    lines.append(f'@org={t}')
            elif k == 2:
                # blank ignored block in an entry of its own
                if not first:
                    lines.append('')
                    items.append('/')
                items.append(f'i{a}:1:')
                lines.append('i{:05d}'.format(a))
                lines.append('')
                items.append('/')
                first = True
                a += rng.choice((0, 1, 3, 10))
            elif k == 3 and rng.randrange(3) == 0:
                items.append(f'i{a}:0:')
                lines.append('{}{:05d} XYZ 1'.format(ctl, a))
                first = False
            else:
                data = [rng.randrange(256) for _ in range(rng.choice((1, 1, 2, 3, 5)))]
                items.append(f'i{a}:0:' + dots(data))
                lines.append('{}{:05d} DEFB {}'.format(ctl, a, ','.join(map(str, data))))
                first = False
                a += len(data) + rng.choice((0, 0, 0, 0, 1, 2)) - (1 if rng.randrange(12) == 0 and len(data) > 1 else 0)
                if a > 65540:
                    a = 65540
        ops.append('bin ' + ' '.join(items))
        with open(path, 'w') as f:
            f.write('\n'.join(lines) + '\n')
        err = io.StringIO()
        try:
            with contextlib.redirect_stderr(err), contextlib.redirect_stdout(io.StringIO()):
                w = skool2bin.BinWriter(path)
                w.write(outp)
            m = re.search(r'start=(\d+), end=(\d+)', err.getvalue())
            with open(outp, 'rb') as f:
                impl.append(f'ok {m.group(1)} ' + dots(f.read()))
        except skoolkit.SkoolParsingError as e:
            m = re.search(r'Failed to assemble:\s+(\d+) ', str(e))
            impl.append(f'err failed {m.group(1)}' if m else 'raised ' + str(e)[:60])
        except Exception as e:
            impl.append(f'raised {type(e).__name__}')
    return ops, impl


# --------------------------------------------------------------------------------------
# control file -> statements (emit) and -> skool2bin output (rt)
# --------------------------------------------------------------------------------------

def canon_emit(instrs):
    out = []
    for i in instrs:
        op = i.operation.upper()
        if not op:
            kind = 'I'
        elif op.startswith(('DEFM', 'DEFW', 'DEFS')):
            kind = op[3]
        else:
            kind = 'X'
        out.append(f'{i.address}/{kind}/{dots(i.bytes)}/')
    return 'ok ' + ' '.join(out)


def emit_op(kind, cfg, min_a, max_a, lo, snapshot, n, d, ctl_lines):
    lens = ' '.join(f'{a}:{dec_len(d, a)}' for a in range(lo, min(lo + n, 65536)))
    return (f'{kind} {int(cfg.get("Wrap", 0))} {cfg.get("DefbSize", 8)} {cfg.get("DefmSize", 65)} {cfg.get("DefwSize", 1)} '
            f'{min_a} {max_a} {lo} | {window_of(snapshot, lo, lo + n)} | {lens} | ' + '~'.join(ctl_lines))


def emit_ops(rng, mods, scratch, gen_bytes, ctl_gen, count):
    """Control file text -> statements: the real CtlParser + Disassembly against the model's
    parseFile + getBlocks + emit.  Control files: well-formed ones from the e2e generator and wild
    ones from the grammar (statements may straddle sub-block boundaries there; both sides must agree)."""
    snaskool, ctlparser, disassembler = mods
    ops, impl, tags = [], [], []
    skipped = 0
    for _ in range(count):
        n = rng.choice((3, 8, 20, 40, 90))
        lo = rng.choice((65536 - n, 65536 - n, 0, 30000, rng.randrange(0, 65536 - n)))
        snapshot = [0] * 65536
        snapshot[lo:lo + n] = gen_bytes(rng, n)
        cfg = {}
        for name, vals in (('DefbSize', (1, 2, 3, 8)), ('DefmSize', (1, 5, 65)), ('DefwSize', (1, 2, 3)), ('Wrap', (1,)),
                           ('Opcodes', ('ALL', 'ED63,IM'))):
            if rng.randrange(3) == 0:
                cfg[name] = rng.choice(vals)
        dcfg = snaskool.DisassemblerConfig(False, False, cfg.get('DefbSize', 8), cfg.get('DefmSize', 65), cfg.get('DefwSize', 1),
                                           0, snaskool.Instruction, cfg.get('Opcodes', ''), cfg.get('Wrap', 0))
        d = disassembler.Disassembler(snapshot, dcfg)
        wild = rng.randrange(3) == 0
        hi = lo + n
        if wild:
            lines = gen_ctl_text(rng, lo, n)
            lines.append(f'i {hi}')
            tag = 'emit-wild'
        else:
            g = ctl_gen(rng, d, lo, hi, rng.randrange(4) == 0)
            lines = [l for l in g.run().split('\n') if l.rstrip()]
            if hi < 65536:
                lines.append(f'i {hi}')
            tag = 'emit-wf'
        # entries below the window are cut off by min_address; a wild control file may put sub-blocks into the trailing
        # 'i' block, so there max_address cuts the disassembly off (keeps it small)
        min_a, max_a = lo, (min(hi, 65536) if wild else 65536)
        path = os.path.join(scratch, 'emit.ctl')
        with open(path, 'w') as f:
            f.write('\n'.join(lines) + '\n')
        try:
            with contextlib.redirect_stderr(io.StringIO()):
                p = ctlparser.CtlParser()
                p.parse_ctls([path], min_a, max_a)
                dis = snaskool.Disassembly(snapshot, p, dict(cfg), False, False, final=False)
            r = canon_emit([i for e in dis.entries for i in e.instructions])
        except (IndexError, KeyError, ValueError) as e:
            import traceback
            tb = traceback.extract_tb(e.__traceback__)
            if tb and tb[-1].name in ('get_message',):
                skipped += 1          # multi-part sublength statement cut by the end of its sub-block: outside the model
                continue
            r = {'IndexError': 'err index', 'KeyError': 'err key', 'ValueError': 'err value'}[type(e).__name__]
        except Exception as e:
            r = f'raised {type(e).__name__}'
        ops.append(emit_op('emit', cfg, min_a, max_a, lo, snapshot, n, d, lines))
        impl.append(r)
        tags.append(tag)
    return ops, impl, tags, skipped
