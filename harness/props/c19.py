"""C19 — contention simulation only ever adds the delays the ULA would impose.

Theorems: lean/SkoolVerif/Props/C19.lean.  Ties: translator (cmiosimulator.py closures) validated per
slot; hand model Model/Contend.lean vs DELAYS_48K/128K (all 69888 + 70908 entries, every run),
contend_* and io_contention_* (random patterns).  E2E oracle on the real code: contended vs plain
simulator on the same state (Python and C)."""
import os
import sys

import simcorr
import simgen
from framework import fresh_import, load_known, REPO, VERIF, LeanLock
from indep import z80bus
import simcheck
from simcheck import single_step, build_impls, t_bias, guarded

PROPS = 'SkoolVerif.Props.C19'
BIT_HL = {0x46 + 8 * k for k in range(8)}


def delay_tables(chk, cmio):
    ops, impl = [], []
    for name, tbl in (('d48', cmio.DELAYS_48K), ('d128', cmio.DELAYS_128K)):
        for a in range(0, len(tbl), 4096):
            n = min(4096, len(tbl) - a)
            ops.append(f'{name} {a} {n}')
            impl.append(' '.join(map(str, tbl[a:a + n])))
            chk.case(name, (name, a), {'table': name, 'from': a, 'count': n} if a == 12288 else None)
        # beyond the table the model returns 0 (the real code would raise IndexError; never reached: t < t1 + max pattern)
    model = chk.run_driver('Contend', ops)
    chk.compare('delay tables (all entries) vs Model/Contend.lean', ops, impl, model)
    # independent restatement of the documented pattern on the real tables
    for name, tbl, first, line in (('48K', cmio.DELAYS_48K, 14335, 224), ('128K', cmio.DELAYS_128K, 14361, 228)):
        for t, d in enumerate(tbl):
            k = t - first
            want = (6, 5, 4, 3, 2, 1, 0, 0)[(k % line) % 8] if 0 <= k < 192 * line and k % line < 128 else 0
            if d != want:
                chk.violation(f'delay-table-{name}', f'DELAYS_{name}[{t}] = {d}, ULA pattern says {want}', {'kind': 'table', 'machine': name, 't': t})
                break


def contend_funcs(chk, cmio, pagingtracer):
    rng = chk.rng
    ops, impl = [], []
    s48 = cmio.CMIOSimulator([0] * 65536)
    m128 = pagingtracer.Memory()
    s128 = cmio.CMIOSimulator(m128, config={'frame_duration': 70908, 'int_active': 36})
    for _ in range(chk.scale(3000, 60000)):
        is128 = rng.randrange(2)
        o = rng.randrange(256)
        m128.o7ffd = o
        t = rng.choice((14335, 14336, 14341, 14361, 57240, rng.randrange(14300, 58100)))
        pat = [(rng.choice((0x3FFF, 0x4000, 0x7FFF, 0x8000, 0xBFFF, 0xC000, 0xFFFF, rng.randrange(65536))), rng.choice((1, 3, 4))) for _ in range(rng.randrange(0, 9))]
        sim = s128 if is128 else s48
        ops.append(f'contend {is128} {o} {t} ' + ' '.join(f'{a}:{n}' for a, n in pat))
        impl.append(str(sim.contend(t, tuple(pat))))
        port = rng.choice((0x4000, 0x4001, 0x7FFE, 0x7FFD, 0xBFFD, 0xC001, 0xC000, 0xFFFE, rng.randrange(65536)))
        ops.append(f'ioc {is128} {o} {port}')
        impl.append(' '.join(f'{a}:{n}' for a, n in sim.io_contention(port)))
        chk.case('contend', ('c', is128, o & 1, t, tuple(pat)))
    model = chk.run_driver('Contend', ops)
    chk.compare('contend_*/io_contention_* vs Model/Contend.lean', ops, impl, model)


def config_tie(chk, cmio, pagingtracer, simutils):
    """`CMIOSimulator.__init__` / `simutils.from_memory` constants vs Contend.cfgFor."""
    ops, impl = [], []
    for is128, memory in ((0, [0] * 65536), (1, pagingtracer.Memory())):
        sim = simutils.from_memory(cmio.CMIOSimulator, memory)
        ops.append(f'cfg {is128}')
        impl.append(f'{sim.frame_duration} {sim.int_active} {sim.t0} {sim.t1}')
        chk.case('cfg', ('cfg', is128), {'machine': '128K' if is128 else '48K', 'frame t0 t1': impl[-1]})
    model = chk.run_driver('Contend', ops)
    chk.compare('CMIOSimulator config constants vs Contend.cfgFor', ops, impl, model)


def nop_oracle(chk, classes, pagingtracer, simutils):
    """The property on the real contended simulators for the one instruction whose bus activity is beyond
    doubt (NOP: a single 4 T-state opcode fetch at PC): T' - T = 4 + wait(T) when PC is contended, 4 otherwise,
    on both frame layouts, at every frame position near the window edges and a stride elsewhere."""
    cls = dict(classes)
    for machine, frame, first, line in (('48K', 69888, 14335, 224), ('128K', 70908, 14361, 228)):
        def wait(t):
            k = t - first
            return (6, 5, 4, 3, 2, 1, 0, 0)[(k % line) % 8] if 0 <= k < 192 * line and k % line < 128 else 0
        last = first + 191 * line + 128
        ts = sorted(set(list(range(first - 40, first + 300)) + list(range(last - 1200, last + 60)) + list(range(0, frame, chk.scale(97, 7)))
                        + [frame - 1, frame, frame + first, frame + last - 2]))
        for name in ('py-cmio', 'c-cmio'):
            for pc, o7, contended in ((0x6000, 0, True), (0x8000, 0, False), (0xC000, 1, machine == '128K'), (0xC000, 2, False)):
                if machine == '48K':
                    memory = [0] * 65536
                    if o7 == 2:
                        continue
                else:
                    memory = pagingtracer.Memory(out7ffd=o7)
                sim = simutils.from_memory(cls[name], memory)
                for t in ts:
                    sim.registers[24] = pc
                    sim.registers[25] = t
                    sim.run(pc)
                    got = sim.registers[25] - t
                    want = 4 + (wait(t % frame) if contended else 0)
                    chk.case(f'nop:{name}:{machine}', (name, machine, pc, o7, t))
                    if got != want:
                        chk.violation(f'nop-delay:{name}:{machine}', f'{name} {machine} NOP at {pc:#x} (7ffd={o7}) at T={t}: took {got} T-states, ULA pattern says {want}',
                                      {'kind': 'nop', 'impl': name, 'machine': machine, 'pc': pc, 'o7ffd': o7, 't': t})
                        break


def uncontended_state(rng, tbl, op, b_reg=None):
    """A state in which no address the instruction can put on the bus is contended (48K)."""
    regs, fields, mem, ins, tracers = simcorr.rand_state(rng, tbl, op, t_bias=t_bias)
    # both uncontended regions of the 48K map: ROM (0x01..0x3E) and 0x81..0xFE (page margins keep
    # IX+d / nn+1 / SP-2 inside the region)
    hi = lambda: rng.randrange(0x81, 0xFF) if rng.randrange(4) else rng.randrange(0x01, 0x3F)
    for h in (2, 4, 6, 8, 10, 14, 0):       # B D H IXh IYh I A (port high byte of IN A,(n))
        regs[h] = hi()
    if b_reg is not None:
        regs[2] = b_reg
    regs[12] = rng.randrange(0x8100, 0xFF00)
    regs[3] |= 1                              # port low byte odd: not a ULA port
    pc = rng.randrange(0x8100, 0xFF00)
    code = simcorr.slot_bytes(tbl, op, rng)
    mem = {}
    for k, b in enumerate(code):
        mem[(pc + k) % 65536] = b
    # 16-bit immediate operands must point to uncontended memory too
    for k in range(1, 5):
        mem[(pc + k) % 65536] = mem.get((pc + k) % 65536, 0)
    prefix = simcorr.PREFIXES[tbl]
    first_operand = pc + len(prefix) + (0 if len(prefix) == 2 else 1)
    if len(prefix) != 2:
        if tbl == 'MAIN' and op in (0xD3, 0xDB):
            mem[first_operand % 65536] |= 1               # OUT (n),A / IN A,(n): odd port
        mem[(first_operand + 1) % 65536] = hi()          # high byte of nn
        if tbl in ('DD', 'FD', 'ED'):
            mem[(first_operand + 2) % 65536] = hi()
    fields = [pc, fields[1], fields[2], fields[3], 0, rng.randrange(0x8000, 0x10000)]
    return regs, fields, mem, ins, tracers


def cmio_vs_plain(chk, impls):
    """The property itself on the real simulators: contended vs plain on identical states."""
    rng = chk.rng
    wr = {name: w for name, w, _, _ in impls}
    for plain, cont in (('py-plain', 'py-cmio'), ('c-plain', 'c-cmio')):
        is_c = plain.startswith('c')
        for tbl, op in simcorr.all_slots():
            # block I/O: region boundaries of the port's high byte, every run. OUTI/OUTD put (B-1):C on
            # the bus (B = 0x40 -> 0x3Fxx, uncontended); INI/IND read B:C before the decrement. The repeating
            # forms also put the pre-decrement BC on the bus during the five repeat cycles (as the
            # simulators model them), so B itself must be uncontended there too.
            directed = {0xA3: (0x40, 0x01, 0x81, 0x00, 0xC1), 0xAB: (0x40, 0x01, 0x81, 0x00, 0xC1),
                        0xB3: (0x3F, 0x01, 0x81, 0x00, 0xC1, 0x02), 0xBB: (0x3F, 0x01, 0x81, 0x00, 0xC1, 0x02),
                        0xA2: (0x3F, 0x00, 0x80, 0xFF, 0xBF), 0xAA: (0x3F, 0x00, 0x80, 0xFF, 0xBF),
                        0xB2: (0x3F, 0x00, 0x80, 0xFF, 0xBF), 0xBA: (0x3F, 0x00, 0x80, 0xFF, 0xBF)}.get(op, ()) if tbl == 'ED' else ()
            nk = chk.scale(3, 30)
            # HALT / LD A,I / LD A,R compare the clock with the end of the interrupt window: the instruction ending just before / on /
            # just after it (frame position outside the display: no delay, so the contended simulator must agree with the plain one)
            wstates = list(simcheck.window_states(rng, tbl, op))
            for k in range(nk + len(directed) + len(wstates)):
                unc = k % 3 == 2 or k >= nk
                if k >= nk + len(directed):
                    st = wstates[k - nk - len(directed)]
                    unc = False
                else:
                    st = (uncontended_state(rng, tbl, op, directed[k - nk] if k >= nk else None) if unc
                          else simcorr.rand_state(rng, tbl, op, t_bias=t_bias))
                    if k >= nk:
                        st[1][1] = rng.choice((14336 + 224 * rng.randrange(1, 190) + rng.randrange(0, 120), 14335 + rng.randrange(0, 40000)))
                st[1][4] = 0                              # not halted (HALT state is handled in C10)
                if is_c:
                    st[4][0] = 1 if (st[4][0] or st[4][1] or st[4][2]) else 0
                a = wr[plain].step(*st).split(';')
                b = wr[cont].step(*st).split(';')
                chk.case(f'cmio-vs-plain:{plain}:{"unc" if unc else "any"}', (plain, tbl, op, tuple(st[0]), tuple(st[1])),
                         {'pair': [plain, cont], 'slot': f'{tbl}:{op:02X}', 't': st[1][1]} if op == 0x34 and k == 0 else None)
                if len(a) == 6 and len(b) != 6:
                    # the contended simulator raised where the plain one did not
                    chk.violation(f'exception:{cont}:{tbl}:{op:02X}', f'{cont} slot {tbl} {op:02X}: {";".join(b)[:200]} (the plain simulator executes the same state)',
                                  {'kind': 'pair', 'pair': [plain, cont], 'state': [st[0], st[1], {str(k2): v for k2, v in st[2].items()}, st[3], st[4]], 'slot': [tbl, op]})
                if len(a) != 6 or len(b) != 6:
                    continue
                ra, rb = list(map(int, a[0].split())), list(map(int, b[0].split()))
                fa, fb = list(map(int, a[1].split())), list(map(int, b[1].split()))
                bad = None
                # a state generated for MAIN slot CB executes a CB-page instruction: BIT n,(HL) is recognised by the bytes at PC
                bit_hl = (tbl == 'CB' and op in BIT_HL) or (tbl == 'MAIN' and op == 0xCB and st[2].get((st[1][0] + 1) % 65536, 0) in BIT_HL)
                fmask = 0xD7 if bit_hl else 0xFF
                if [v for i, v in enumerate(ra) if i != 1] != [v for i, v in enumerate(rb) if i != 1] or (ra[1] & fmask) != (rb[1] & fmask):
                    bad = ('registers-differ', f'{ra} vs {rb}')
                elif (fa[0], fa[2], fa[3], fa[4]) != (fb[0], fb[2], fb[3], fb[4]):
                    bad = ('state-differs', f'PC/IFF/IM/HALT {fa} vs {fb}')
                elif a[2:5] != b[2:5]:
                    bad = ('memory-or-ports-differ', f'{a[2:5]} vs {b[2:5]}')
                elif fb[1] < fa[1]:
                    bad = ('fewer-tstates', f'T plain {fa[1]} contended {fb[1]}')
                elif fb[1] != fa[1]:
                    tm = st[1][1] % 69888
                    if not (14335 - 23 < tm < 57245):
                        bad = ('delay-outside-display', f'T mod frame = {tm}: plain {fa[1]} contended {fb[1]}')
                    elif unc:
                        bad = ('delay-without-contended-address', f'plain {fa[1]} contended {fb[1]}')
                    elif fb[1] - fa[1] > 6 * 12:
                        bad = ('delay-too-large', f'delay {fb[1] - fa[1]}')
                if bad:
                    chk.violation(f'{bad[0]}:{cont}:{tbl}:{op:02X}', f'{cont} vs {plain} slot {tbl} {op:02X}: {bad[1]}',
                                  {'kind': 'pair', 'pair': [plain, cont], 'state': [st[0], st[1], {str(k2): v for k2, v in st[2].items()}, st[3], st[4]], 'slot': [tbl, op]})



# ---------------------------------------------------------------------------------------------
# "each extra delay equals the documented pattern": independent bus-cycle oracle (harness/indep/z80bus.py)
# against the real contended simulators, and against the Lean specification Spec/Z80Bus.lean.

OTIR_KEY = 'bus-delay-otir-repeat-bc'
HI_BOUND = (0x00, 0x01, 0x3F, 0x40, 0x41, 0x7F, 0x80, 0x81, 0xBF, 0xC0, 0xC1, 0xFE, 0xFF)
BLOCK_IO = {0xA2, 0xA3, 0xAA, 0xAB, 0xB2, 0xB3, 0xBA, 0xBB}
PORT_SLOTS = {('MAIN', 0xD3), ('MAIN', 0xDB)} | {('ED', 0x40 + 8 * y + z) for y in range(8) for z in (0, 1)} | {('ED', o) for o in BLOCK_IO}


def regen_bus(chk):
    """simgen.regen + the C19 per-closure family Gen/CmioBusThms.lean (translate/gen_busdelay.py)."""
    ok = simgen.regen(chk)
    import importlib
    sys.path.insert(0, os.path.join(VERIF, 'translate'))
    if 'gen_busdelay' in sys.modules:
        importlib.reload(sys.modules['gen_busdelay'])
    import gen_busdelay
    try:
        text = gen_busdelay.gen(REPO)
    except Exception as e:
        if ok:
            chk.breaks.append({'kind': 'translator', 'name': 'gen_busdelay.gen -> Gen/CmioBusThms.lean', 'detail': f'{type(e).__name__}: {e}'})
        return False
    with LeanLock():
        if chk.write_gen(os.path.join('SkoolVerif', 'Gen', 'CmioBusThms.lean'), text):
            chk.note('regenerated (source changed): CmioBusThms.lean')
    chk.extra['generated_files'] = sorted(set(chk.extra.get('generated_files', [])) | {'CmioBusThms.lean'})
    return ok


class BusRunner:
    """One real simulator on a 48K list or a 128K paged memory, reused across states (cells touched by a
    state or by the instruction are zeroed before the next one)."""

    def __init__(self, cls, machine, o7, pagingtracer, simutils):
        if machine == '48K':
            mem = [0] * 65536
        else:
            mem = pagingtracer.Memory(out7ffd=o7)
            mem.roms = ([0] * 0x4000, [0] * 0x4000)     # code may be placed in the ROM area
            mem.out7ffd(o7)
        self.sim = simutils.from_memory(cls, mem)
        self.mem = self.sim.memory
        self.dirty = set()

    def step(self, regs, fields, mem, touched):
        m = self.mem
        for a in self.dirty:
            m[a] = 0
        self.dirty = set(mem) | touched
        for a, v in mem.items():
            m[a] = v
        r = self.sim.registers
        for i, v in enumerate(regs):
            r[i] = v
        for i, v in enumerate(fields):
            r[24 + i] = v
        self.sim.run(fields[0])
        return r[25]


def frame_positions(rng, machine):
    """Frame positions covering every phase of the 8 T-state pattern on the first and last display lines,
    the window edges t0 = first - 23 and t1, the border part of a line, and later frames."""
    first, line, frame = z80bus.LAYOUT[machine]
    last = first + 191 * line
    k = rng.randrange(10)
    if k == 0:
        t = first + rng.randrange(-30, 136)                # first line, incl. t0 .. first
    elif k == 1:
        t = last + rng.randrange(-8, 136)                  # last line, incl. t1 = last + 126
    elif k == 2:
        t = first - 23 + rng.randrange(-3, 4)              # t0
    elif k == 3:
        t = last + 126 + rng.randrange(-24, 4)             # t1
    elif k == 4:
        t = first + line * rng.randrange(192) + rng.randrange(120, 136)   # end of the fetch part of a line
    elif k == 5:
        t = rng.randrange(frame)
    else:
        t = first + line * rng.randrange(192) + rng.randrange(128)
    return t + frame * rng.choice((0, 0, 0, 1, 3))


def place16(rng):
    """A 16-bit value in one of the four 16K regions, biased to the region edges."""
    base = rng.choice((0x0000, 0x4000, 0x8000, 0xC000))
    return (base + rng.choice((0, 1, 2, 3, 0x3FFC, 0x3FFD, 0x3FFE, 0x3FFF, rng.randrange(0x4000), rng.randrange(0x4000)))) & 0xFFFF


def bus_state(rng, tbl, op, machine, directed=None):
    """State with the slot's bytes at PC; PC, (HL)/(IX+d)/(nn)/stack operands, I and the port high byte each
    placed in ROM / 0x4000-0x7FFF / 0x8000-0xBFFF / 0xC000-0xFFFF; boundary loop counters."""
    regs = [rng.choice(simcorr.BOUND8 + (rng.randrange(256),) * 3) for _ in range(24)]
    regs[13] = 0
    for hi, lo in ((2, 3), (4, 5), (6, 7), (8, 9), (10, 11)):
        v = place16(rng)
        regs[hi], regs[lo] = v >> 8, v & 255
    regs[12] = place16(rng)
    regs[14] = rng.choice(HI_BOUND)                        # I: region of the refresh address
    regs[0] = rng.choice(HI_BOUND + (rng.randrange(256),))  # A: high byte of IN A,(n) / OUT (n),A
    if (tbl, op) in PORT_SLOTS or (tbl == 'MAIN' and op == 0x10) or (tbl == 'ED' and op & 0xC4 == 0x80):
        regs[2] = rng.choice(HI_BOUND + (0x02,))          # B: port high byte / loop counter
        regs[3] = rng.choice((0x00, 0x01, 0xFE, 0xFF, 0xFD, rng.randrange(256)))
        if tbl == 'ED' and op in (0xB0, 0xB1, 0xB8, 0xB9) and rng.randrange(2):
            bc = rng.choice((0, 1, 2, 0x100, 0x101, 0xFFFF))
            regs[2], regs[3] = bc >> 8, bc & 255
    pc = place16(rng)
    code = simcorr.slot_bytes(tbl, op, rng)
    if len(code) >= 3 and rng.randrange(2):                # nn operand: region-placed too
        nn = place16(rng)
        code[-2], code[-1] = nn & 255, nn >> 8
    if directed:
        hi, lo = directed
        regs[2], regs[3], regs[0] = hi, lo, hi
        if tbl == 'MAIN':
            code[1] = lo
    t = frame_positions(rng, machine)
    if directed:
        first, line, _ = z80bus.LAYOUT[machine]
        t = first + line * rng.randrange(1, 191) + rng.randrange(100)
    halted = rng.randrange(2) if (tbl, op) == ('MAIN', 0x76) else 0
    fields = [pc, t, rng.randrange(2), rng.randrange(3), halted, rng.randrange(65536)]
    mem = {}
    for k, b in enumerate(code):
        mem[(pc + k) & 0xFFFF] = b
    hl = regs[7] + 256 * regs[6]
    mem.setdefault(hl, rng.choice((regs[0], rng.randrange(256))))   # CPIR: A = (HL) or not
    return regs, fields, mem


def sweep_state(rng, tbl, op, machine, phase, base):
    """Every address the instruction can put on the bus inside one contended 16K region (away from its edges),
    started at the given phase of the 8 T-state pattern on a random display line: any change of order, length or
    address within a pattern shows in the total."""
    regs = [rng.randrange(256) for _ in range(24)]
    regs[13] = 0
    inside = lambda: base + rng.randrange(0x0200, 0x3E00)
    for hi, lo in ((2, 3), (4, 5), (6, 7), (8, 9), (10, 11)):
        v = inside()
        regs[hi], regs[lo] = v >> 8, v & 255
    regs[12] = inside()
    regs[14] = regs[0] = inside() >> 8
    if rng.randrange(4) == 0:
        regs[2] = rng.choice((1, 2))                      # loop ends / goes on
    pc = inside()
    code = simcorr.slot_bytes(tbl, op, rng)
    if len(code) >= 3:
        nn = inside()
        code[-2], code[-1] = nn & 255, nn >> 8
        if len(simcorr.PREFIXES[tbl]) == 1 and tbl != 'CB':
            code[2] = rng.randrange(256)                  # displacement of (IX+d) keeps IX+d inside the region
    first, line, _ = z80bus.LAYOUT[machine]
    t = first + line * rng.randrange(1, 191) + 8 * rng.randrange(15) + phase
    fields = [pc, t, rng.randrange(2), rng.randrange(3), rng.randrange(2) if (tbl, op) == ('MAIN', 0x76) else 0, rng.randrange(65536)]
    mem = {}
    for k, b in enumerate(code):
        mem[(pc + k) & 0xFFFF] = b
    return regs, fields, mem


def bus_case(runners, impl, machine, o7, regs, fields, mem):
    """(T contended - T plain, oracle delay with SkoolKit's OTIR reading, with the documented one, cycles)"""
    rd = lambda a: mem.get(a & 0xFFFF, 0)
    cyc = z80bus.cycles(rd, regs, fields[0], bool(fields[4]), otir='pre')
    doc = z80bus.cycles(rd, regs, fields[0], bool(fields[4]), otir='post')
    touched = {c[1] for c in cyc if c[0] == 'M'} | {(c[1] + 1) & 0xFFFF for c in cyc if c[0] == 'M'}
    frame = z80bus.LAYOUT[machine][2]
    tp = runners[impl + '-plain'].step(regs, fields, mem, touched)
    tc = runners[impl + '-cmio'].step(regs, fields, mem, touched)
    tm = fields[1] % frame
    return tc - tp, z80bus.delay(machine, o7, tm, cyc), z80bus.delay(machine, o7, tm, doc), cyc, tp - fields[1]


def bus_delay_oracle(chk, classes, pagingtracer, simutils, lean_ok=True, only=None):
    """T_contended = T_plain + oracle delay, exactly, on both real contended simulators: all 1792 slots x
    boundary-biased states x frame positions x address placements x port classes, 48K and 128K (even and odd
    bank at 0xC000, paging locked so that OUTs cannot remap the C simulator)."""
    rng = chk.rng
    cls = dict(classes)
    known = load_known(chk.pid)
    # banks 5 and 2 are also mapped at 0x4000 / 0x8000: paged at 0xC000 they alias the state's own cells, so they are not used here
    configs = [('48K', 0), ('128K', 0x20), ('128K', 0x21)] + ([('128K', 0x27), ('128K', 0x24), ('128K', 0x23)] if chk.thorough else [])
    n = chk.scale(3, 40)
    sus = set()
    if chk.breaks and not only:
        sus = set(simcheck.suspect_slots(chk)) | set(simcheck.c_suspect_slots(chk))
    otir_diff = []
    lean_ops, lean_want = [], []
    for machine, o7 in configs:
        runners = {name: BusRunner(cls[name], machine, o7, pagingtracer, simutils) for name in ('py-plain', 'py-cmio', 'c-plain', 'c-cmio')}
        if only:
            regs, fields, mem = only['state']
            if (machine, o7) != tuple(only['config']):
                continue
            try:
                got, want, _, cyc, _ = bus_case(runners, only['impl'], machine, o7, regs, fields, {int(k): v for k, v in mem.items()})
            except Exception:
                return True
            return got != want
        first, line, frame = z80bus.LAYOUT[machine]
        for tbl, op in simcorr.all_slots():
            states = [bus_state(rng, tbl, op, machine) for _ in range(n)]
            if machine == '48K' or o7 & 1:
                # everything contended x each of the 8 phases, every run
                states += [sweep_state(rng, tbl, op, machine, ph, 0xC000 if machine == '128K' and (ph + op) % 2 else 0x4000) for ph in range(8)]
            if (tbl, op) in PORT_SLOTS:
                # port classes, every run: high byte on each region boundary x low bit, inside the display
                for hi in HI_BOUND if (chk.thorough or op in BLOCK_IO) else HI_BOUND[2::3]:
                    for lo in (0xFE, 0xFF):
                        states.append(bus_state(rng, tbl, op, machine, directed=(hi, lo)))
                # the port address exactly on a region boundary (0x4000, 0x7FFF, 0x8000, 0xBFFF, 0xC000, 0xFFFF, ...; for the
                # block instructions B is the value before / after the decrement), both parities
                for hi, lo in ((0x40, 0x00), (0x40, 0x01), (0x7F, 0xFF), (0x7F, 0xFE), (0x80, 0x00), (0x80, 0x01), (0xBF, 0xFF), (0xBF, 0xFE),
                               (0xC0, 0x00), (0xC0, 0x01), (0xFF, 0xFF), (0xFF, 0xFE), (0x3F, 0xFF), (0x3F, 0xFE), (0x00, 0x00), (0x00, 0x01),
                               (0x41, 0x00), (0x81, 0x00), (0xC1, 0x00), (0x01, 0x00)):
                    states.append(bus_state(rng, tbl, op, machine, directed=(hi, lo)))
            if (tbl, op) == ('MAIN', 0x76):
                # HALT: while halted the address on the bus is PC+1 (as SkoolKit models it): PC on the last cell of each region, so that
                # PC and PC+1 are contended differently, halted and not, every phase of the pattern
                for pc_ in (0x3FFF, 0x7FFF, 0xBFFF, 0xFFFF, 0x7FFE, 0xBFFE):
                    for halted_ in (0, 1):
                        for ph in range(8):
                            regs_, fields_, mem_ = sweep_state(rng, tbl, op, machine, ph, 0x4000)
                            mem_ = {pc_: 0x76}
                            fields_[0], fields_[4] = pc_, halted_
                            states.append((regs_, fields_, mem_))
            if (tbl, op) in sus:
                # directed search after a broken proof / translation tie: the slots whose closure / C handler changed
                k = 12 if len(sus) > 64 else 60
                states += [bus_state(rng, tbl, op, machine) for _ in range(k)]
                states += [sweep_state(rng, tbl, op, machine, ph, base) for ph in range(8) for base in ((0x4000, 0xC000) if machine == '128K' and o7 & 1 else (0x4000,))
                           for _ in range(1 if len(sus) > 64 else 3)]
                for st3 in simcheck.edge_states(rng, tbl, op, frame=frame, int_active=32, light=True):
                    regs_, fields_, mem_ = list(st3[0]), list(st3[1]), dict(st3[2])
                    fields_[1] = frame_positions(rng, machine) if rng.randrange(3) else fields_[1]
                    fields_[4] = fields_[4] if (tbl, op) == ('MAIN', 0x76) else 0
                    states.append((regs_, fields_, mem_))
            for regs, fields, mem in states:
                for impl in ('py', 'c'):
                    try:
                        got, want, want_doc, cyc, dur = bus_case(runners, impl, machine, o7, regs, fields, mem)
                    except Exception as e:       # the code under test raised on an in-range state
                        chk.violation(f'exception:{impl}:{tbl}:{op:02X}', f'{impl} simulators, {machine} (7ffd={o7:#x}) slot {tbl} {op:02X} at T={fields[1]} PC={fields[0]:#06x}: {type(e).__name__}: {e}',
                                      {'kind': 'bus', 'impl': impl, 'config': [machine, o7], 'state': [regs, fields, {str(k): v for k, v in mem.items()}], 'slot': [tbl, op]})
                        runners = {name: BusRunner(cls[name], machine, o7, pagingtracer, simutils) for name in ('py-plain', 'py-cmio', 'c-plain', 'c-cmio')}
                        continue
                    chk.case(f'bus-delay:{impl}:{machine}', (impl, machine, o7, tbl, op, tuple(regs), tuple(fields)),
                             {'impl': impl + '-cmio', 'machine': machine, 'o7ffd': o7, 'slot': f'{tbl}:{op:02X}', 't': fields[1],
                              'cycles': [list(c) for c in cyc], 'delay': want} if (op, impl) == (0x34, 'py') and tbl == 'MAIN' and want else None)
                    if dur != z80bus.duration(cyc):
                        chk.violation(f'bus-cycles-total:{impl}-plain:{tbl}:{op:02X}',
                                      f'{impl}-plain {machine} slot {tbl} {op:02X}: took {dur} T-states, the documented cycles add up to {z80bus.duration(cyc)}',
                                      {'kind': 'bus', 'impl': impl, 'config': [machine, o7], 'state': [regs, fields, {str(k): v for k, v in mem.items()}], 'slot': [tbl, op]})
                    elif got != want:
                        chk.violation(f'bus-delay:{impl}-cmio:{tbl}:{op:02X}',
                                      f'{impl}-cmio {machine} (7ffd={o7:#x}) slot {tbl} {op:02X} at T={fields[1]} PC={fields[0]:#06x}: contended - plain = {got} T-states, '
                                      f'documented pattern {" ".join(f"{c[1]:04X}:{c[2]}" if c[0] == "M" else f"IO({c[1]:04X})" for c in cyc)} gives {want}',
                                      {'kind': 'bus', 'impl': impl, 'config': [machine, o7], 'state': [regs, fields, {str(k): v for k, v in mem.items()}], 'slot': [tbl, op]})
                    elif want_doc != got:
                        otir_diff.append((impl, machine, o7, tbl, op, regs, fields, got, want_doc))
                # Lean specification vs this oracle (a sample of the same states)
                if len(lean_ops) < chk.scale(6000, 60000) and rng.randrange(3) == 0:
                    t0 = first - 23
                    t1 = first + 191 * line + 126
                    lean_ops.append(simcorr.op_line(regs, fields, mem, [], [0, 0, 0, 0], frame=frame, int_active=32, t0=t0, t1=t1,
                                                    is128=int(machine == '128K'), o7ffd=o7))
                    lean_want.append(f'{z80bus.duration(cyc)} {want} {want_doc}')
    if lean_ops and lean_ok:
        out = chk.run_driver('Bus', lean_ops)
        if out is not None:
            got = []
            for l in out:
                parts = l.split(';')
                f = parts[1].split() if len(parts) == 6 else []
                got.append(f'{f[0]} {f[1]} {f[5]}' if len(f) == 6 else l[:80])
            chk.compare('Spec/Z80Bus.lean (cycle total, busDelay skoolkit / documented reading) vs harness/indep/z80bus.py', lean_ops, lean_want, got)
    if otir_diff:
        impl, machine, o7, tbl, op, regs, fields, got, want_doc = otir_diff[0]
        msg = (f'{OTIR_KEY}: {len(otir_diff)} cases where a repeating OTIR/OTDR takes the delay of the pre-decrement BC during its five repeat cycles '
               f'(documented reading: BC after B was decremented, as for the port of the same instruction): e.g. {impl}-cmio {machine} (7ffd={o7:#x}) '
               f'ED {op:02X} B={regs[2]:#04x} C={regs[3]:#04x} T={fields[1]} PC={fields[0]:#06x}: contended - plain = {got}, documented reading gives {want_doc}')
        if OTIR_KEY in known:
            chk.violation(OTIR_KEY, msg, {'kind': 'bus-otir', 'impl': impl, 'config': [machine, o7], 'state': [regs, fields, {}], 'slot': [tbl, op]})
        else:
            chk.note(msg + ' [observation, not raised: see Props/C19 otir_repeat_cycles_differ]')
    chk.extra['otir_repeat_bc_cases'] = len(otir_diff)
    return False


def run(chk):
    chk.rule = ('delay tables: all 69888 + 70908 entries (exhaustive); contend/io_contention: random patterns over boundary addresses, '
                'even/odd banks; single-step: all 1792 slots x states biased to the 8 phases of the pattern on the first/last display lines and '
                'window edges, Python and C contended simulators vs the generated model; e2e: contended vs plain on identical states incl. a '
                'stream where no bus address is contended; bus-delay oracle: all 1792 slots x states with PC / operand / stack / I / port-high-byte placed in each 16K region '
                '(edges biased) x frame positions over every phase of the 8-T pattern on the first/last display lines, t0/t1 and later frames x 48K / 128K even / 128K odd bank, '
                'Python and C contended simulators: T_contended = T_plain + delay of the independent documented-pattern oracle, exactly. non-trivial = distinct (pair, slot, state)')
    chk.trusted += ['translator translate/py2lean.py (validated per slot each run)',
                    'hand model Model/Contend.lean tied exhaustively (tables) / by correspondence (fold functions)',
                    'C CPATTERN blocks: differential execution and the bus-delay oracle (exact T-state equality with the documented pattern), no theorem',
                    'harness/indep/z80bus.py: independent Python statement of the documented per-instruction cycle breakdown (tied to Spec/Z80Bus.lean by correspondence every run)']
    chk.assumptions += ['the per-instruction cycle breakdown is proved against Spec/Z80Bus.lean, written from the documented contention tables (as recalled: no network access to '
                        're-read them); the one entry where code and documentation differ (five repeat cycles of OTIR/OTDR: pre- vs post-decrement BC) is proved under the '
                        'variant `skoolkit` and set aside by hypothesis in `delay_equals_documented_pattern`; HALT while halted is modelled as SkoolKit does (PC+1 refetched)',
                        'per-instruction theorem covers every closure: BIT n,(HL) with F bits 5/3 uncompared (they come from MEMPTR), HALT and LD A,I/R under the frame layout CfgOk '
                        '(proved for both machine configurations); the multi-step theorem excludes runs that execute those three closures (their effect depends on T/MEMPTR): e2e oracle only']
    cmio, pagingtracer, simutils = fresh_import('skoolkit.cmiosimulator', 'skoolkit.pagingtracer', 'skoolkit.simutils')
    gen_ok = regen_bus(chk)
    ok = chk.lake_build([PROPS, 'SkoolVerif.Prelude.SimProto', 'SkoolVerif.Gen.CmioHandlers', 'SkoolVerif.Model.Contend', 'SkoolVerif.Spec.Z80Bus']) if gen_ok else False
    chk.audit(PROPS)
    if chk.thorough and ok:
        chk.leanchecker([PROPS])
    # the same claims for the C simulators: corollaries of C06's c_step_eq_python over the C handler bodies
    # translated from c/csimulator.c on this run
    import cgencheck
    cgencheck.c_corollaries(chk, 'SkoolVerif.Props.C19C', bool(ok))
    guarded(chk, 'delay-tables', delay_tables, chk, cmio)
    guarded(chk, 'contend-functions', contend_funcs, chk, cmio, pagingtracer)
    guarded(chk, 'config', config_tie, chk, cmio, pagingtracer, simutils)
    impls, classes = build_impls(chk)
    guarded(chk, 'nop-oracle', nop_oracle, chk, classes, pagingtracer, simutils)
    if gen_ok and ok:
        guarded(chk, 'single-step', single_step, chk, [i for i in impls if 'cmio' in i[0]])
    guarded(chk, 'cmio-vs-plain', cmio_vs_plain, chk, impls)
    guarded(chk, 'bus-delay', bus_delay_oracle, chk, classes, pagingtracer, simutils, lean_ok=bool(gen_ok and ok))
    chk.exhaustive = False


def replay(chk, data):
    cmio, pagingtracer = fresh_import('skoolkit.cmiosimulator', 'skoolkit.pagingtracer')
    if data['kind'] in ('bus', 'bus-otir'):
        (simutils,) = fresh_import('skoolkit.simutils')
        impls, classes = build_impls(chk)
        if data['kind'] == 'bus-otir':
            n0 = len(chk.violations)
            bus_delay_oracle(chk, classes, pagingtracer, simutils, lean_ok=False)
            return len(chk.violations) > n0
        return bus_delay_oracle(chk, classes, pagingtracer, simutils, lean_ok=False, only=data)
    if data['kind'] == 'group-exception':
        n0 = len(chk.violations)
        run(chk)
        return len(chk.violations) > n0
    if data['kind'] == 'nop':
        (simutils,) = fresh_import('skoolkit.simutils')
        cmio, pagingtracer = fresh_import('skoolkit.cmiosimulator', 'skoolkit.pagingtracer')
        impls, classes = build_impls(chk)
        n0 = len(chk.violations)
        nop_oracle(chk, classes, pagingtracer, simutils)
        return len(chk.violations) > n0
    if data['kind'] == 'table':
        n0 = len(chk.violations)
        delay_tables(chk, cmio)
        return len(chk.violations) > n0
    impls, classes = build_impls(chk)
    wr = {name: w for name, w, _, _ in impls}
    regs, fields, mem, ins, tracers = data['state']
    mem = {int(k): v for k, v in mem.items()}
    plain, cont = data['pair']
    a = wr[plain].step(regs, fields, mem, ins, tracers)
    b = wr[cont].step(regs, fields, mem, ins, tracers)
    ra, rb = list(map(int, a.split(';')[0].split())), list(map(int, b.split(';')[0].split()))
    pc = fields[0]
    if mem.get(pc, 0) == 0xCB and mem.get((pc + 1) % 65536, 0) in BIT_HL:
        ra[1] &= 0xD7                                     # BIT n,(HL): bits 5 and 3 come from MEMPTR (exempt)
        rb[1] &= 0xD7
    return ra != rb or int(b.split(';')[1].split()[1]) < int(a.split(';')[1].split()[1])
