"""C19 — contention simulation only ever adds the delays the ULA would impose.

Theorems: lean/SkoolVerif/Props/C19.lean.  Ties: translator (cmiosimulator.py closures) validated per
slot; hand model Model/Contend.lean vs DELAYS_48K/128K (all 69888 + 70908 entries, every run),
contend_* and io_contention_* (random patterns).  E2E oracle on the real code: contended vs plain
simulator on the same state (Python and C)."""
import simcorr
import simgen
from framework import fresh_import
from simcheck import single_step, build_impls, t_bias

PROPS = 'SkoolVerif.Props.C19'
BIT_HL = {0x46 + 8 * k for k in range(8)}


def delay_tables(chk, cmio):
    ops, impl = [], []
    for name, tbl in (('d48', cmio.DELAYS_48K), ('d128', cmio.DELAYS_128K)):
        for a in range(0, len(tbl), 4096):
            n = min(4096, len(tbl) - a)
            ops.append(f'{name} {a} {n}')
            impl.append(' '.join(map(str, tbl[a:a + n])))
            chk.case(name, (name, a), {'table': name, 'from': a, 'count': n} if a == 12288 else None)
        # beyond the table the model returns 0 (the real code would raise IndexError; never reached: t < t1 + max pattern)
    model = chk.run_driver('Contend', ops)
    chk.compare('delay tables (all entries) vs Model/Contend.lean', ops, impl, model)
    # independent restatement of the documented pattern on the real tables
    for name, tbl, first, line in (('48K', cmio.DELAYS_48K, 14335, 224), ('128K', cmio.DELAYS_128K, 14361, 228)):
        for t, d in enumerate(tbl):
            k = t - first
            want = (6, 5, 4, 3, 2, 1, 0, 0)[(k % line) % 8] if 0 <= k < 192 * line and k % line < 128 else 0
            if d != want:
                chk.violation(f'delay-table-{name}', f'DELAYS_{name}[{t}] = {d}, ULA pattern says {want}', {'kind': 'table', 'machine': name, 't': t})
                break


def contend_funcs(chk, cmio, pagingtracer):
    rng = chk.rng
    ops, impl = [], []
    s48 = cmio.CMIOSimulator([0] * 65536)
    m128 = pagingtracer.Memory()
    s128 = cmio.CMIOSimulator(m128, config={'frame_duration': 70908, 'int_active': 36})
    for _ in range(chk.scale(3000, 60000)):
        is128 = rng.randrange(2)
        o = rng.randrange(256)
        m128.o7ffd = o
        t = rng.choice((14335, 14336, 14341, 14361, 57240, rng.randrange(14300, 58100)))
        pat = [(rng.choice((0x3FFF, 0x4000, 0x7FFF, 0x8000, 0xBFFF, 0xC000, 0xFFFF, rng.randrange(65536))), rng.choice((1, 3, 4))) for _ in range(rng.randrange(0, 9))]
        sim = s128 if is128 else s48
        ops.append(f'contend {is128} {o} {t} ' + ' '.join(f'{a}:{n}' for a, n in pat))
        impl.append(str(sim.contend(t, tuple(pat))))
        port = rng.choice((0x4000, 0x4001, 0x7FFE, 0x7FFD, 0xBFFD, 0xC001, 0xC000, 0xFFFE, rng.randrange(65536)))
        ops.append(f'ioc {is128} {o} {port}')
        impl.append(' '.join(f'{a}:{n}' for a, n in sim.io_contention(port)))
        chk.case('contend', ('c', is128, o & 1, t, tuple(pat)))
    model = chk.run_driver('Contend', ops)
    chk.compare('contend_*/io_contention_* vs Model/Contend.lean', ops, impl, model)


def config_tie(chk, cmio, pagingtracer, simutils):
    """`CMIOSimulator.__init__` / `simutils.from_memory` constants vs Contend.cfgFor."""
    ops, impl = [], []
    for is128, memory in ((0, [0] * 65536), (1, pagingtracer.Memory())):
        sim = simutils.from_memory(cmio.CMIOSimulator, memory)
        ops.append(f'cfg {is128}')
        impl.append(f'{sim.frame_duration} {sim.int_active} {sim.t0} {sim.t1}')
        chk.case('cfg', ('cfg', is128), {'machine': '128K' if is128 else '48K', 'frame t0 t1': impl[-1]})
    model = chk.run_driver('Contend', ops)
    chk.compare('CMIOSimulator config constants vs Contend.cfgFor', ops, impl, model)


def nop_oracle(chk, classes, pagingtracer, simutils):
    """The property on the real contended simulators for the one instruction whose bus activity is beyond
    doubt (NOP: a single 4 T-state opcode fetch at PC): T' - T = 4 + wait(T) when PC is contended, 4 otherwise,
    on both frame layouts, at every frame position near the window edges and a stride elsewhere."""
    cls = dict(classes)
    for machine, frame, first, line in (('48K', 69888, 14335, 224), ('128K', 70908, 14361, 228)):
        def wait(t):
            k = t - first
            return (6, 5, 4, 3, 2, 1, 0, 0)[(k % line) % 8] if 0 <= k < 192 * line and k % line < 128 else 0
        last = first + 191 * line + 128
        ts = sorted(set(list(range(first - 40, first + 300)) + list(range(last - 1200, last + 60)) + list(range(0, frame, chk.scale(97, 7)))
                        + [frame - 1, frame, frame + first, frame + last - 2]))
        for name in ('py-cmio', 'c-cmio'):
            for pc, o7, contended in ((0x6000, 0, True), (0x8000, 0, False), (0xC000, 1, machine == '128K'), (0xC000, 2, False)):
                if machine == '48K':
                    memory = [0] * 65536
                    if o7 == 2:
                        continue
                else:
                    memory = pagingtracer.Memory(out7ffd=o7)
                sim = simutils.from_memory(cls[name], memory)
                for t in ts:
                    sim.registers[24] = pc
                    sim.registers[25] = t
                    sim.run(pc)
                    got = sim.registers[25] - t
                    want = 4 + (wait(t % frame) if contended else 0)
                    chk.case(f'nop:{name}:{machine}', (name, machine, pc, o7, t))
                    if got != want:
                        chk.violation(f'nop-delay:{name}:{machine}', f'{name} {machine} NOP at {pc:#x} (7ffd={o7}) at T={t}: took {got} T-states, ULA pattern says {want}',
                                      {'kind': 'nop', 'impl': name, 'machine': machine, 'pc': pc, 'o7ffd': o7, 't': t})
                        break


def uncontended_state(rng, tbl, op, b_reg=None):
    """A state in which no address the instruction can put on the bus is contended (48K)."""
    regs, fields, mem, ins, tracers = simcorr.rand_state(rng, tbl, op, t_bias=t_bias)
    # both uncontended regions of the 48K map: ROM (0x01..0x3E) and 0x81..0xFE (page margins keep
    # IX+d / nn+1 / SP-2 inside the region)
    hi = lambda: rng.randrange(0x81, 0xFF) if rng.randrange(4) else rng.randrange(0x01, 0x3F)
    for h in (2, 4, 6, 8, 10, 14, 0):       # B D H IXh IYh I A (port high byte of IN A,(n))
        regs[h] = hi()
    if b_reg is not None:
        regs[2] = b_reg
    regs[12] = rng.randrange(0x8100, 0xFF00)
    regs[3] |= 1                              # port low byte odd: not a ULA port
    pc = rng.randrange(0x8100, 0xFF00)
    code = simcorr.slot_bytes(tbl, op, rng)
    mem = {}
    for k, b in enumerate(code):
        mem[(pc + k) % 65536] = b
    # 16-bit immediate operands must point to uncontended memory too
    for k in range(1, 5):
        mem[(pc + k) % 65536] = mem.get((pc + k) % 65536, 0)
    prefix = simcorr.PREFIXES[tbl]
    first_operand = pc + len(prefix) + (0 if len(prefix) == 2 else 1)
    if len(prefix) != 2:
        if tbl == 'MAIN' and op in (0xD3, 0xDB):
            mem[first_operand % 65536] |= 1               # OUT (n),A / IN A,(n): odd port
        mem[(first_operand + 1) % 65536] = hi()          # high byte of nn
        if tbl in ('DD', 'FD', 'ED'):
            mem[(first_operand + 2) % 65536] = hi()
    fields = [pc, fields[1], fields[2], fields[3], 0, rng.randrange(0x8000, 0x10000)]
    return regs, fields, mem, ins, tracers


def cmio_vs_plain(chk, impls):
    """The property itself on the real simulators: contended vs plain on identical states."""
    rng = chk.rng
    wr = {name: w for name, w, _, _ in impls}
    for plain, cont in (('py-plain', 'py-cmio'), ('c-plain', 'c-cmio')):
        is_c = plain.startswith('c')
        for tbl, op in simcorr.all_slots():
            # block I/O: region boundaries of the port's high byte, every run. OUTI/OUTD put (B-1):C on
            # the bus (B = 0x40 -> 0x3Fxx, uncontended); INI/IND read B:C before the decrement. The repeating
            # forms also put the pre-decrement BC on the bus during the five repeat cycles (as the
            # simulators model them), so B itself must be uncontended there too.
            directed = {0xA3: (0x40, 0x01, 0x81, 0x00, 0xC1), 0xAB: (0x40, 0x01, 0x81, 0x00, 0xC1),
                        0xB3: (0x3F, 0x01, 0x81, 0x00, 0xC1, 0x02), 0xBB: (0x3F, 0x01, 0x81, 0x00, 0xC1, 0x02),
                        0xA2: (0x3F, 0x00, 0x80, 0xFF, 0xBF), 0xAA: (0x3F, 0x00, 0x80, 0xFF, 0xBF),
                        0xB2: (0x3F, 0x00, 0x80, 0xFF, 0xBF), 0xBA: (0x3F, 0x00, 0x80, 0xFF, 0xBF)}.get(op, ()) if tbl == 'ED' else ()
            nk = chk.scale(3, 30)
            for k in range(nk + len(directed)):
                unc = k % 3 == 2 or k >= nk
                st = (uncontended_state(rng, tbl, op, directed[k - nk] if k >= nk else None) if unc
                      else simcorr.rand_state(rng, tbl, op, t_bias=t_bias))
                if k >= nk:
                    st[1][1] = rng.choice((14336 + 224 * rng.randrange(1, 190) + rng.randrange(0, 120), 14335 + rng.randrange(0, 40000)))
                st[1][4] = 0                              # not halted (HALT state is handled in C10)
                if is_c:
                    st[4][0] = 1 if (st[4][0] or st[4][1] or st[4][2]) else 0
                a = wr[plain].step(*st).split(';')
                b = wr[cont].step(*st).split(';')
                chk.case(f'cmio-vs-plain:{plain}:{"unc" if unc else "any"}', (plain, tbl, op, tuple(st[0]), tuple(st[1])),
                         {'pair': [plain, cont], 'slot': f'{tbl}:{op:02X}', 't': st[1][1]} if op == 0x34 and k == 0 else None)
                if len(a) != 6 or len(b) != 6:
                    continue
                ra, rb = list(map(int, a[0].split())), list(map(int, b[0].split()))
                fa, fb = list(map(int, a[1].split())), list(map(int, b[1].split()))
                bad = None
                fmask = 0xD7 if (tbl == 'CB' and op in BIT_HL) else 0xFF
                if [v for i, v in enumerate(ra) if i != 1] != [v for i, v in enumerate(rb) if i != 1] or (ra[1] & fmask) != (rb[1] & fmask):
                    bad = ('registers-differ', f'{ra} vs {rb}')
                elif (fa[0], fa[2], fa[3], fa[4]) != (fb[0], fb[2], fb[3], fb[4]):
                    bad = ('state-differs', f'PC/IFF/IM/HALT {fa} vs {fb}')
                elif a[2:5] != b[2:5]:
                    bad = ('memory-or-ports-differ', f'{a[2:5]} vs {b[2:5]}')
                elif fb[1] < fa[1]:
                    bad = ('fewer-tstates', f'T plain {fa[1]} contended {fb[1]}')
                elif fb[1] != fa[1]:
                    tm = st[1][1] % 69888
                    if not (14335 - 23 < tm < 57245):
                        bad = ('delay-outside-display', f'T mod frame = {tm}: plain {fa[1]} contended {fb[1]}')
                    elif unc:
                        bad = ('delay-without-contended-address', f'plain {fa[1]} contended {fb[1]}')
                    elif fb[1] - fa[1] > 6 * 12:
                        bad = ('delay-too-large', f'delay {fb[1] - fa[1]}')
                if bad:
                    chk.violation(f'{bad[0]}:{cont}:{tbl}:{op:02X}', f'{cont} vs {plain} slot {tbl} {op:02X}: {bad[1]}',
                                  {'kind': 'pair', 'pair': [plain, cont], 'state': [st[0], st[1], {str(k2): v for k2, v in st[2].items()}, st[3], st[4]], 'slot': [tbl, op]})


def run(chk):
    chk.rule = ('delay tables: all 69888 + 70908 entries (exhaustive); contend/io_contention: random patterns over boundary addresses, '
                'even/odd banks; single-step: all 1792 slots x states biased to the 8 phases of the pattern on the first/last display lines and '
                'window edges, Python and C contended simulators vs the generated model; e2e: contended vs plain on identical states incl. a '
                'stream where no bus address is contended. non-trivial = distinct (pair, slot, state)')
    chk.trusted += ['translator translate/py2lean.py (validated per slot each run)',
                    'hand model Model/Contend.lean tied exhaustively (tables) / by correspondence (fold functions)',
                    'C CPATTERN blocks: differential execution only']
    chk.assumptions += ['the per-instruction cycle breakdown has no second machine-readable source: it is tied between the Python and C copies '
                        '(per-slot differential at all phases) and bounded by theorem (never fewer T-states; none outside the window; none when uncontended) '
                        'but not proved against documentation',
                        'per-instruction theorem covers every closure: BIT n,(HL) with F bits 5/3 uncompared (they come from MEMPTR), HALT and LD A,I/R under the frame layout CfgOk '
                        '(proved for both machine configurations); the multi-step theorem excludes runs that execute those three closures (their effect depends on T/MEMPTR): e2e oracle only']
    cmio, pagingtracer, simutils = fresh_import('skoolkit.cmiosimulator', 'skoolkit.pagingtracer', 'skoolkit.simutils')
    gen_ok = simgen.regen(chk)
    ok = chk.lake_build([PROPS, 'SkoolVerif.Prelude.SimProto', 'SkoolVerif.Gen.CmioHandlers', 'SkoolVerif.Model.Contend']) if gen_ok else False
    chk.audit(PROPS)
    if chk.thorough and ok:
        chk.leanchecker([PROPS])
    delay_tables(chk, cmio)
    contend_funcs(chk, cmio, pagingtracer)
    config_tie(chk, cmio, pagingtracer, simutils)
    impls, classes = build_impls(chk)
    nop_oracle(chk, classes, pagingtracer, simutils)
    if gen_ok and ok:
        single_step(chk, [i for i in impls if 'cmio' in i[0]])
    cmio_vs_plain(chk, impls)
    chk.exhaustive = False


def replay(chk, data):
    cmio, pagingtracer = fresh_import('skoolkit.cmiosimulator', 'skoolkit.pagingtracer')
    if data['kind'] == 'nop':
        (simutils,) = fresh_import('skoolkit.simutils')
        cmio, pagingtracer = fresh_import('skoolkit.cmiosimulator', 'skoolkit.pagingtracer')
        impls, classes = build_impls(chk)
        n0 = len(chk.violations)
        nop_oracle(chk, classes, pagingtracer, simutils)
        return len(chk.violations) > n0
    if data['kind'] == 'table':
        n0 = len(chk.violations)
        delay_tables(chk, cmio)
        return len(chk.violations) > n0
    impls, classes = build_impls(chk)
    wr = {name: w for name, w, _, _ in impls}
    regs, fields, mem, ins, tracers = data['state']
    mem = {int(k): v for k, v in mem.items()}
    plain, cont = data['pair']
    a = wr[plain].step(regs, fields, mem, ins, tracers)
    b = wr[cont].step(regs, fields, mem, ins, tracers)
    return a.split(';')[0] != b.split(';')[0] or int(b.split(';')[1].split()[1]) < int(a.split(';')[1].split()[1])
