"""C09 end to end: bin2sna.main / snapmod.main (in-process) over generated option sets; the oracle is
indep/snapedit_oracle.py (written from the manual pages) applied to the input snapshot as decoded by
the independent decoder indep/snapdec.py; EVERYTHING is compared (all registers, all state
attributes, all RAM banks), so "and nothing else" is checked, not assumed."""
import contextlib
import io
import os

from indep import snapdec
from indep import snapedit_oracle as oracle

# findings on the unchanged tree: raised as violations only when KNOWN_FINDINGS.txt lists the key
# (then printed as KNOWN-FINDING); otherwise recorded in the evidence as `unlisted_findings`.
GATED = {
    'snapmod-move-bank:none->N': 'a --move with a destination bank prefix but no source bank prefix ignores the destination prefix '
                                 '(treats both addresses as 64K addresses)',
}


class Unreadable(Exception):
    """A freshly written input snapshot that the independent decoder cannot read (already reported)."""


def decode(path):
    with open(path, 'rb') as f:
        raw = f.read()
    return (snapdec.decode_z80 if path.endswith('.z80') else snapdec.decode_szx)(raw)


def run_tool(main, args):
    out, err = io.StringIO(), io.StringIO()
    try:
        with contextlib.redirect_stdout(out), contextlib.redirect_stderr(err):
            main(args)
    except SystemExit as e:
        return f'exit:{e.code}'
    except Exception as e:          # noqa: classification of every failure is the point
        from skoolkit import SkoolKitError
        if isinstance(e, SkoolKitError):
            return 'error:' + str(e.args[0])[:80]
        return 'crash:' + type(e).__name__ + ':' + str(e)[:80]
    return None


def fmtnum(rng, n):
    return f'0x{n:X}' if rng.randrange(4) == 0 else str(n)


# ---- input snapshots -------------------------------------------------------------------------

def rand_bank(rng, tag):
    """16K that identifies its bank (so a write into the wrong bank shows) with runs and ED bytes."""
    out = []
    while len(out) < 16384:
        r = rng.randrange(5)
        if r == 0:
            out += [tag] * rng.choice((1, 3, 7, 300))
        elif r == 1:
            out += [237] * rng.choice((1, 2, 5))
        else:
            out += [(tag * 16 + rng.randrange(16)) & 255 for _ in range(rng.choice((1, 4, 64)))]
    return out[:16384]


def rand_regs(rng):
    regs = {r: rng.choice((0, 0xFFFF, 0x8000, rng.randrange(65536))) for r in ('bc', 'de', 'hl', 'ix', 'iy', 'sp', '^bc', '^de', '^hl')}
    regs['pc'] = rng.randrange(1, 65536)
    regs.update({r: rng.choice((0, 255, 128, rng.randrange(256))) for r in ('a', 'f', 'i', 'r', '^a', '^f')})
    return regs


def rand_state(rng, machine):
    frame = oracle.FRAME[machine]
    st = {'border': rng.randrange(8), 'iff': rng.randrange(2), 'im': rng.randrange(3), 'tstates': rng.randrange(frame)}
    if machine == '48K':
        st['issue2'] = rng.randrange(2)
    else:
        st['7ffd'] = rng.randrange(8) | rng.choice((0, 8, 16))
        st['fffd'] = rng.randrange(16)
        for i in range(16):
            st[f'ay[{i}]'] = rng.randrange(256)
    return st


def raw_z80(version, banks, page, regs):
    """Independent writer: version 1 (48K, uncompressed) or version 2 (uncompressed 0xFFFF blocks)."""
    h = [0] * 30
    h[0], h[1] = regs['a'], regs['f']
    for off, r in ((2, 'bc'), (4, 'hl'), (8, 'sp'), (13, 'de'), (15, '^bc'), (17, '^de'), (19, '^hl'), (23, 'iy'), (25, 'ix')):
        h[off], h[off + 1] = regs[r] % 256, regs[r] // 256
    h[10], h[11] = regs['i'], regs['r'] & 127
    h[12] = (regs['r'] >> 7) | (3 << 1)
    h[21], h[22] = regs['^a'], regs['^f']
    h[27] = h[28] = 1
    h[29] = 1
    if version == 1:
        h[6], h[7] = regs['pc'] % 256, regs['pc'] // 256
        return bytes(h + banks[5] + banks[2] + banks[0])
    ext = [0] * 25
    ext[0] = 23
    ext[2], ext[3] = regs['pc'] % 256, regs['pc'] // 256
    ext[4] = 3 if len(banks) == 8 else 0
    ext[5] = page
    out = h + ext
    if len(banks) == 8:
        for b in range(8):
            out += [255, 255, b + 3] + banks[b]
    else:
        for pg, b in ((8, 5), (4, 2), (5, 0)):
            out += [255, 255, pg] + banks[b]
    return bytes(out)


class Inputs:
    """A small pool of input snapshots per (machine, format, variant); each one is a function of
    (run seed, machine, format, variant, index) only, so a replay can rebuild it."""

    def __init__(self, chk, snapshot):
        self.chk, self.snapshot = chk, snapshot
        self.cache = {}

    def get(self, rng, machine, fmt, variant=None):
        idx = rng.randrange(self.chk.scale(1, 3))
        return self.by_id([self.chk.seed, machine, fmt, variant, idx])

    def by_id(self, ident):
        key = tuple(ident)
        if key not in self.cache:
            self.cache[key] = self.make(*ident)
        return self.cache[key] + (list(ident),)

    def make(self, seed, machine, fmt, variant, idx):
        import random
        rng = random.Random(f'{seed}|{machine}|{fmt}|{variant}|{idx}')
        regs = rand_regs(rng)
        path = os.path.join(self.chk.scratch, f'in_{machine}_{variant}_{idx}.{fmt}'.replace('+', 'p'))
        if machine == '48K':
            banks = {5: rand_bank(rng, 5), 2: rand_bank(rng, 2), 0: rand_bank(rng, 0)}
            ram = banks[5] + banks[2] + banks[0]
        else:
            banks = {b: rand_bank(rng, b) for b in range(8)}
            ram = [banks[b] for b in range(8)]
        if variant in ('v1', 'v2'):
            page = rng.randrange(8) if machine != '48K' else 0
            with open(path, 'wb') as f:
                f.write(raw_z80(1 if variant == 'v1' else 2, banks, page, regs))
        else:
            state = rand_state(rng, machine)
            self.snapshot.write_snapshot(path, ram, [f'{k}={v}' for k, v in regs.items()], [f'{k}={v}' for k, v in state.items()], machine)
        try:
            st = decode(path)
        except (ValueError, IndexError, AssertionError, KeyError) as e:
            self.chk.violation(f'input-unreadable-{fmt}-{machine}-{variant}', f'the independent decoder cannot read a freshly written snapshot: {type(e).__name__} {e}',
                               {'kind': 'input', 'input': [seed, machine, fmt, variant, idx]})
            raise Unreadable(str(e))
        # the independent decoder must see what was put in (ties the oracle's starting point to the generator, not to skoolkit)
        if [banks[b] for b in sorted(banks)] != [st['banks'].get(b) for b in sorted(banks)]:
            self.chk.violation(f'input-ram-{fmt}-{machine}-{variant}', 'independent decoder reads different RAM from a freshly written snapshot',
                               {'kind': 'input', 'input': [seed, machine, fmt, variant, idx]})
        return path, st


# ---- option generators -----------------------------------------------------------------------
# each returns (args, ops, key, named) : ops for the oracle, key = violation key stem, named = set of
# state fields / 'bankN' the options name

def gen_regs(rng, fmt, st, count, cursor):
    names = oracle.ALL_REGS
    args, ops = [], []
    for i in range(count):
        name = names[(cursor + i) % len(names)]
        if name == 'pc' and st.get('version') == 1:
            v = rng.randrange(1, 65536)
        elif name in oracle.REG8:
            v = rng.choice((0, 1, 127, 128, 255, rng.randrange(256)))
        else:
            v = rng.choice((0, 1, 255, 256, 32767, 32768, 65535, rng.randrange(65536)))
        spec = f'{name.upper() if rng.randrange(6) == 0 else name}={fmtnum(rng, v)}'
        args += ['-r' if rng.randrange(2) else '--reg', spec]
        ops.append(('reg', spec, name))
    return args, ops


def state_names(machine, fmt):
    names = ['border', 'iff', 'im', 'tstates']
    if machine == '48K':
        names.append('issue2')
    else:
        names += ['7ffd', 'fffd'] + [f'ay[{i}]' for i in range(16)]
    if fmt == 'szx':
        names.append('fe')
    return names


def current_state_value(st, name):
    key = {'border': 'border', 'iff': 'iff1', 'im': 'im', 'tstates': 'tstates', 'issue2': 'issue2', '7ffd': 'out7ffd', 'fffd': 'outfffd',
           'fe': 'outfe'}.get(name)
    if key is not None:
        return st.get(key)
    if name.startswith('ay[') and st.get('ay') is not None:
        return st['ay'][int(name[3:-1])]
    return None


def gen_state(rng, fmt, st, count, cursor, opt=('-s', '--state'), avoid=()):
    names = [n for n in state_names(st['machine'], fmt) if n not in avoid]
    frame = oracle.FRAME[st['machine']]
    args, ops = [], []
    for i in range(count):
        name = names[(cursor + i) % len(names)]
        if name == 'tstates':
            q = frame // 4
            v = rng.choice((0, 1, q - 1, q, 2 * q - 1, 2 * q, 3 * q, frame - 1, rng.randrange(frame)))
        elif name == 'border':
            v = rng.randrange(8)
        elif name in ('iff', 'issue2'):
            v = rng.randrange(2)
        elif name == 'im':
            v = rng.randrange(3)
        elif name == '7ffd':
            v = rng.randrange(8) | rng.choice((0, 8, 16, 32))
        else:
            v = rng.choice((0, 255, rng.randrange(256)))
        # a value that differs from the one the snapshot already has (an option that is not applied must show)
        cur = current_state_value(st, name)
        if cur is not None and v == cur:
            v = {'border': (v + 1) % 8, 'iff': 1 - v, 'issue2': 1 - v, 'im': (v + 1) % 3, 'tstates': (v + 1) % frame}.get(name, (v + 1) % 256)
        spec = f'{name}={v}'          # the manual documents 0x numerals for --reg/--poke/--move/--patch, not for --state
        args += [rng.choice(opt), spec]
        ops.append(('state', spec, name))
    return args, ops


def ram_addr(rng, lo=0x4000, hi=0x10000):
    """An address in lo..hi-1; hi-1 (a block that ends on the last cell) and the window boundaries are favoured."""
    r = rng.randrange(5)
    if r == 0:
        return rng.choice([a for a in (0x4000, 0x4001, 0x7FFF, 0x8000, 0xBFFF, 0xC000, 0xFFFF, 0xFFFE) if lo <= a < hi] + [hi - 1])
    if r == 1 and rng.randrange(2):
        return hi - 1
    return rng.randrange(lo, hi)


def bank_off(rng, n):
    """Offset of an n-byte block inside a 16K bank; 16384 - n (the block ends on the last cell of the bank) is favoured."""
    return 16384 - n if rng.randrange(6) == 0 else rng.randrange(16384 - n + 1)


def bank_prefix(rng, beyond=True):
    r = rng.randrange(10)
    if beyond and r == 0:
        return rng.choice((8, 9, 13, 15, 16, 23, 255, 1027))
    return rng.randrange(8)


def gen_poke(rng, st, prefixed, hi=0x10000, opt=('-p', '--poke')):
    opname, op = rng.choice((('set', ''), ('xor', '^'), ('add', '+')))
    v = rng.choice((0, 1, 255, 128, rng.randrange(256)))
    r = rng.randrange(3)
    count = 1 if r == 0 else rng.choice((2, 3, 8, 50))
    step = 1 if r < 2 else rng.choice((2, 3, 7, 16, 256, 1000))
    span = (count - 1) * step
    if prefixed:
        p = bank_prefix(rng)
        a = rng.randrange(16384 - min(span, 16383))
        if rng.randrange(3) == 0:
            a += 0xC000                     # the address as seen when the bank is paged in
        pre = f'{p}:'
    else:
        p = None
        a = ram_addr(rng, 0x4000, hi - span)     # a + span <= hi - 1: the last poked cell may be the last cell
        pre = ''
    b = a + span + (rng.randrange(step) if step > 1 else 0)
    if b > 0xFFFF:
        b = a + span
    rangespec = fmtnum(rng, a) if count == 1 and rng.randrange(2) else f'{fmtnum(rng, a)}-{fmtnum(rng, b)}' + (f'-{step}' if r == 2 else '')
    spec = f'{pre}{rangespec},{op}{fmtnum(rng, v)}'
    label = f'{opname}:' + ('flat' if p is None else f'bank{p}' if p < 8 else 'bank>7') + (':step' if r == 2 else ':range' if count > 1 else '')
    return [rng.choice(opt), spec], [('poke', spec)], label


def gen_move(rng, st, sp, dp, overrun=False):
    """sp/dp: None or a bank prefix (int)."""
    n = rng.choice((1, 2, 5, 32, 300, rng.randrange(1, 2000)))
    if sp is None and dp is None:
        src = ram_addr(rng, 0x4000, 0x10000 - n + 1)       # up to and including a block that ends at 0xFFFF
        dest = ram_addr(rng, 0x4000, 0x10000 - n + 1)
        if rng.randrange(3) == 0:
            dest = min(max(0x4000, src + rng.randrange(-n, n + 1)), 0x10000 - n)      # overlapping
    else:
        src = bank_off(rng, n) if sp is not None else ram_addr(rng, 0x4000, 0x10000 - n + 1)
        dest = bank_off(rng, n)
        same = sp is not None and (dp is None or dp % 8 == sp % 8)
        if same and rng.randrange(2):
            dest = min(max(0, src + rng.randrange(-n, n + 1)), 16384 - n)               # overlapping, same bank
        if overrun:
            if rng.randrange(2):
                src = 16384 - rng.randrange(1, n + 1) if n > 1 else 16383
                n += 1
            else:
                dest = 16384 - rng.randrange(1, n + 1) if n > 1 else 16383
                n += 1
        if rng.randrange(4) == 0 and sp is not None:
            src += 0xC000
        if rng.randrange(4) == 0 and dp is not None:
            dest += 0xC000
    spec = (f'{sp}:' if sp is not None else '') + f'{fmtnum(rng, src)},{fmtnum(rng, n)},' + (f'{dp}:' if dp is not None else '') + fmtnum(rng, dest)
    lab = lambda p: 'none' if p is None else str(p) if p < 8 else f'{p}(>7)'   # noqa
    return [rng.choice(('-m', '--move')), spec], [('move', spec)], f'{lab(sp)}->{lab(dp)}'


def gen_patch(rng, chk, st, prefixed, n_files):
    n = rng.choice((1, 2, 17, 300, rng.randrange(1, 3000)))
    data = [rng.randrange(256) for _ in range(n)]
    fname = os.path.join(chk.scratch, f'patch{n_files}.bin')
    with open(fname, 'wb') as f:
        f.write(bytes(data))
    if prefixed:
        p = bank_prefix(rng)
        a = rng.choice((0, 1, 16383, 16384 - n if n < 16384 else 0, max(0, 16384 - n + 3), rng.randrange(16384)))
        if rng.randrange(4) == 0:
            a += 0xC000
        spec = f'{p}:{fmtnum(rng, a)},{fname}'
        label = (f'bank{p}' if p < 8 else 'bank>7') + (':cut-at-bank-end' if (a & 0x3FFF) + n > 16384 else '')
    else:
        a = ram_addr(rng, 0x4000, 0x10000 - n + 1)
        if rng.randrange(3) == 0:
            a = rng.choice((0x8000, 0xC000)) - rng.randrange(1, n + 1)     # across a window boundary
            a = max(a, 0x4000)
        spec = f'{fmtnum(rng, a)},{fname}'
        label = 'flat'
    return ['--patch', spec], [('patch', spec, data)], label


def apply_ops(st, ops, fmt):
    exp = oracle.copy_state(st)
    named = set()
    for op in ops:
        if op[0] == 'reg':
            named.update(oracle.apply_reg(exp, op[1]))
        elif op[0] == 'state':
            named.update(oracle.apply_state(exp, op[1], fmt))
        elif op[0] == 'poke':
            oracle.apply_poke(exp, op[1])
        elif op[0] == 'move':
            oracle.apply_move(exp, op[1])
        elif op[0] == 'patch':
            oracle.apply_patch(exp, op[1], op[2])
    return exp, named


# ---- snapmod ---------------------------------------------------------------------------------

def gen_for(chk, crng, desc, st):
    """Options of one snapmod case: a function of the case's own RNG and its descriptor."""
    kind, fmt, machine = desc['kind'], desc['fmt'], desc['machine']
    if kind == 'reg':
        s = desc['start']
        args, ops = gen_regs(crng, fmt, st, 5, s)
        return args, ops, '+'.join(o[2] for o in ops)
    if kind == 'state':
        names = state_names(machine, fmt)
        args, ops = gen_state(crng, fmt, st, min(4, len(names) - desc['start']), desc['start'])
        return args, ops, '+'.join(o[2].split('[')[0] for o in ops)
    if kind == 'state1':
        names = state_names(machine, fmt)
        args, ops = gen_state(crng, fmt, st, 1, names.index(desc['name']))
        return args, ops, 'only-' + desc['name'].split('[')[0]
    if kind == 'pc0':
        # version 1 cannot hold PC=0: snapmod has to write another version and keep everything else
        spec = f'pc={crng.choice(("0", "0x0", "65536"))}'
        args, ops = ['--reg', spec], [('reg', spec, 'pc')]
        if crng.randrange(2):
            a, o, _ = gen_poke(crng, st, False)
            args, ops = args + a, ops + o
        return args, ops, 'v1'
    if kind == 'edge':
        # blocks that end exactly on the last cell of the address space / of a bank
        what = desc['what']
        n = crng.choice((1, 2, 5, 300)) if what != 'patch-all' else 49152       # patch-all: a patch that replaces the whole 48K
        banked = what.startswith('bank-')
        end = 16384 if banked else 0x10000
        pre = f'{crng.randrange(8)}:' if banked else ''
        other = (bank_off(crng, n) if banked else crng.randrange(0x4000, 0x10000 - 2 * n)) if 'move' in what else None
        if what.endswith('move-src-end'):
            spec = f'{pre}{fmtnum(crng, end - n)},{n},{pre and str(crng.randrange(8)) + ":"}{fmtnum(crng, other)}'
            return [crng.choice(('-m', '--move')), spec], [('move', spec)], what
        if what.endswith('move-dest-end'):
            spec = f'{pre}{fmtnum(crng, other)},{n},{pre and str(crng.randrange(8)) + ":"}{fmtnum(crng, end - n)}'
            return [crng.choice(('-m', '--move')), spec], [('move', spec)], what
        if what.endswith('poke-end'):
            spec = f'{pre}{end - n}-{end - 1},^{crng.randrange(1, 256)}'
            return [crng.choice(('-p', '--poke')), spec], [('poke', spec)], what
        data = [crng.randrange(256) for _ in range(n)]
        fname = os.path.join(chk.scratch, 'patch_edge.bin')
        with open(fname, 'wb') as f:
            f.write(bytes(data))
        spec = f'{pre}{fmtnum(crng, end - n)},{fname}'
        return ['--patch', spec], [('patch', spec, data)], what
    if kind == 'poke':
        return gen_poke(crng, st, desc['prefixed'])
    if kind == 'move-bank':
        return gen_move(crng, st, desc['sp'], desc['dp'])
    if kind == 'overrun':
        args, ops, _ = gen_move(crng, st, desc['sp'], desc['dp'], overrun=True)
        return args, ops, 'overrun'
    if kind == 'patch':
        return gen_patch(crng, chk, st, desc['prefixed'], crng.randrange(4))
    assert kind == 'mixed'
    cur = crng.randrange(40)
    args, ops = gen_regs(crng, fmt, st, 2, cur)
    a2, o2 = gen_state(crng, fmt, st, 2, cur, avoid=('7ffd',))
    args, ops = args + a2, ops + o2
    sub = crng.randrange(3)
    for i in range(crng.randrange(1, 4)):
        prefixed = machine != '48K' and crng.randrange(2) == 0
        if sub == 0:
            a, o, _ = gen_poke(crng, st, prefixed)
        elif sub == 1:
            sp = crng.randrange(8) if prefixed else None
            dp = crng.choice((None, crng.randrange(8))) if prefixed else None
            a, o, _ = gen_move(crng, st, sp, dp)
        else:
            a, o, _ = gen_patch(crng, chk, st, prefixed, 4 + i)
        args, ops = args + a, ops + o
    return args, ops, ('poke', 'move', 'patch')[sub]


def snapmod_case(chk, mods, inputs, desc, case_seed=None, ident=None):
    """One snapmod run described by `desc`; everything else derives from `case_seed`."""
    import random
    snapshot, snapmod = mods
    if case_seed is None:
        case_seed = chk.rng.getrandbits(48)
    crng = random.Random(case_seed)
    machine, fmt, variant, kind = desc['machine'], desc['fmt'], desc.get('variant'), desc['kind']
    path, st, ident = inputs.by_id(ident) if ident else inputs.get(crng, machine, fmt, variant)
    args, ops, label = gen_for(chk, crng, desc, st)
    out = os.path.join(chk.scratch, f'out.{fmt}')
    if os.path.exists(out):
        os.remove(out)
    sample = {'tool': 'snapmod', 'machine': machine, 'fmt': fmt + (f'({variant})' if variant else ''),
              'args': [a if len(a) < 60 else a[:12] + '…' + a[-12:] for a in args]}
    chk.case(f'snapmod-{kind}-{machine}-{fmt}' + (f'-{variant}' if variant else ''), (kind, tuple(args)), sample)
    replay = {'kind': 'snapmod', 'desc': desc, 'case_seed': case_seed, 'input': ident, 'args': args}
    fail = run_tool(snapmod.main, args + [path, out])
    if kind == 'overrun':
        # expected (oracle): the copy is cut at the end of the bank, like --patch; see GATED
        return finish_case(chk, snapshot, 'snapmod-move-bank-overrun', fail, st, ops, fmt, out, replay)
    return finish_case(chk, snapshot, f'snapmod-{kind}:{label}', fail, st, ops, fmt, out, replay, common_only=kind == 'pc0')


def finish_case(chk, snapshot, stem, fail, st, ops, fmt, out, replay, inpath=None, common_only=False):
    """Compare the tool's output with the oracle's expectation; returns the list of (key, desc)."""
    found = []
    if fail is not None:
        found.append((f'{stem}:{fail.split(":")[0]}' + (':' + fail.split(':')[1] if fail.startswith('crash') else ''),
                      f'{" ".join(replay["args"])}: tool failed on a documented option set: {fail}'))
        return report(chk, found, replay)
    exp, named = apply_ops(st, ops, fmt)
    try:
        got = decode(out)
        bad = [b for b, d in got['banks'].items() if len(d) != 16384]
        if bad:
            raise ValueError(f'bank {bad[0]} has {len(got["banks"][bad[0]])} bytes')
    except Exception as e:          # noqa
        found.append((f'{stem}:unreadable-output', f'{" ".join(replay["args"])}: output snapshot is not a valid snapshot: {type(e).__name__} {e}'))
        return report(chk, found, replay)
    if fmt == 'szx' and st['machine'] != '48K':
        exp.pop('issue2', None)
        got.pop('issue2', None)
    if common_only:
        # the output may be of a format version with more fields than the input (Z80 v1 -> v3): compare what the input has
        for k in [k for k in got if k not in exp]:
            got.pop(k)
    for field, e, g in oracle.diff_states(exp, got):
        if field in named or field.startswith('bank'):
            key = stem
        else:
            key = f'{stem}:also-{field}'
        found.append((key, f'{" ".join(replay["args"])}: {field} expected {e!r}, output has {g!r}'))
    # skoolkit's own reader must agree with the independent decoder on the output
    try:
        s = snapshot.Snapshot.get(out)
        for a, k in (('a', 'a'), ('f', 'f'), ('bc', 'bc'), ('de', 'de'), ('hl', 'hl'), ('a2', 'a2'), ('f2', 'f2'), ('bc2', 'bc2'),
                     ('de2', 'de2'), ('hl2', 'hl2'), ('ix', 'ix'), ('iy', 'iy'), ('sp', 'sp'), ('pc', 'pc'), ('i', 'i'), ('r', 'r'),
                     ('border', 'border'), ('iff1', 'iff1'), ('iff2', 'iff2'), ('im', 'im'), ('out7ffd', 'out7ffd'),
                     ('outfffd', 'outfffd'), ('ay', 'ay'), ('tstates', 'tstates')):
            if k in got and getattr(s, a) != got[k]:
                found.append((f'reader-disagrees:{fmt}:{k}', f'{out}: Snapshot.get reads {k}={getattr(s, a)}, independent decoder {got[k]}'))
        if st['machine'] == '48K':
            flat = got['banks'][5] + got['banks'][2] + got['banks'][0]
            if list(s.ram()) != flat:
                found.append((f'reader-disagrees:{fmt}:ram48', 'Snapshot.get(...).ram() differs from the independent decoder'))
        else:
            if list(s.ram(-1)) != [b for i in range(8) for b in got['banks'][i]]:
                found.append((f'reader-disagrees:{fmt}:ram128', 'Snapshot.get(...).ram(-1) differs from the independent decoder'))
    except Exception as e:          # noqa
        found.append((f'{stem}:unreadable-output', f'Snapshot.get fails on the output: {type(e).__name__} {e}'))
    return report(chk, found, replay)


def report(chk, found, replay):
    import framework
    known = framework.load_known(chk.pid)
    for key, desc in found:
        gate = next((g for g in GATED if key.startswith(g) or gated_match(g, key)), None)
        if gate is not None:
            if gate in known:
                chk.violation(gate, desc, replay)
            else:
                chk.extra.setdefault('unlisted_findings', {}).setdefault(gate, {'what': GATED[gate], 'example': desc, 'count': 0})['count'] += 1
        else:
            chk.violation(key, desc, replay)
    return found


def gated_match(gate, key):
    if gate == 'snapmod-move-bank:none->N':
        return key.startswith('snapmod-move-bank:none->') and not key.startswith('snapmod-move-bank:none->none')
    return False


def snapmod_sweep(chk, mods):
    rng = chk.rng
    inputs = Inputs(chk, mods[0])
    kinds = [('48K', 'z80', None), ('48K', 'szx', None), ('128K', 'z80', None), ('128K', 'szx', None), ('+2', 'z80', None), ('+2', 'szx', None),
             ('48K', 'z80', 'v1'), ('128K', 'z80', 'v2'), ('48K', 'z80', 'v2')]

    def pick(only128=False):
        ks = [k for k in (kinds if rng.randrange(4) == 0 else kinds[:4]) if not only128 or k[0] != '48K']
        return rng.choice(ks)

    def case(mk, **kw):
        machine, fmt, variant = mk
        snapmod_case(chk, mods, inputs, dict(machine=machine, fmt=fmt, variant=variant, **kw))

    # registers: every name, both formats (batches of 5)
    for fmt in ('z80', 'szx'):
        for start in range(0, len(oracle.ALL_REGS), 5):
            case(rng.choice([k for k in kinds if k[1] == fmt]), kind='reg', start=start)
    # state attributes: every attribute on the machines that have it (batches of 4)
    for mk in kinds[:4]:
        for start in range(0, len(state_names(mk[0], mk[1])), 4):
            case(mk, kind='state', start=start)
    # every state attribute on its own (an attribute that is applied only together with another one shows here)
    for mk in kinds[:4]:
        names = state_names(mk[0], mk[1])
        for name in [n for n in names if not n.startswith('ay[')] + ([f'ay[{rng.randrange(16)}]'] if mk[0] != '48K' else []):
            case(mk, kind='state1', name=name)
    # PC=0 on a version 1 Z80 snapshot (the format cannot represent it)
    for _ in range(chk.scale(2, 8)):
        case(('48K', 'z80', 'v1'), kind='pc0')
    # blocks ending exactly on the last cell (0xFFFF, or 16383 of a bank): source and destination of a move, poke range, patch
    for what in ('move-src-end', 'move-dest-end', 'poke-end', 'patch-end'):
        for banked in (False, True):
            for _ in range(chk.scale(1, 4)):
                case(pick(only128=banked), kind='edge', what=('bank-' if banked else '') + what)
    case(pick(), kind='edge', what='patch-all')
    # pokes: three operators, ranges, steps, bank prefixes 0..7 and beyond
    for _ in range(chk.scale(70, 500)):
        prefixed = rng.randrange(2) == 0
        case(pick(only128=prefixed), kind='poke', prefixed=prefixed)
    # moves: every combination of source / destination prefix (none, 0..7); beyond 7 now and then
    combos = [(s, d) for s in [None] + list(range(8)) for d in [None] + list(range(8))]
    for rep in range(chk.scale(2, 6)):
        for s, d in combos:
            if (chk.thorough or rng.randrange(10) == 0) and rng.randrange(6) == 0:
                s = s + 8 * rng.randrange(1, 4) if s is not None else None
                d = d + 8 * rng.randrange(1, 4) if d is not None else None
            case(pick(only128=not (s is None and d is None)), kind='move-bank', sp=s, dp=d)
    # the overrun of a bank-prefixed move (finding probe, see GATED)
    for _ in range(chk.scale(4, 16)):
        case(pick(only128=True), kind='overrun', sp=rng.randrange(8), dp=rng.randrange(8))
    # patches
    for _ in range(chk.scale(40, 300)):
        prefixed = rng.randrange(2) == 0
        case(pick(only128=prefixed), kind='patch', prefixed=prefixed)
    # mixed: registers + state + several memory options of one kind (applied in command-line order)
    for _ in range(chk.scale(30, 250)):
        case(pick(), kind='mixed')
    # observation (not part of the property as documented: "P is the RAM bank (0-7; 128K only)")
    probe_48k_prefix(chk, mods, inputs)
    probe_state_name_case(chk, mods)


def probe_state_name_case(chk, mods):
    """The same state written with upper-case attribute names must read back identically from both formats (finding probe, see GATED)."""
    snapshot = mods[0]
    for machine, ram, specs, fields in (('128K', [[0] * 16384 for _ in range(8)], ['FFFD=9', 'AY[3]=44', 'BORDER=3'], ('outfffd', 'ay', 'border')),
                                        ('48K', [0] * 49152, ['ISSUE2=1', 'IM=2'], ('issue2', 'im'))):
        got = {}
        for fmt in ('z80', 'szx'):
            path = os.path.join(chk.scratch, f'case.{fmt}')
            snapshot.write_snapshot(path, ram, [], specs, machine)
            try:
                st = decode(path)
            except (ValueError, IndexError, AssertionError, KeyError):
                break                        # unreadable output: reported by the round-trip checks, nothing to compare here
            got[fmt] = {k: st.get(k) for k in fields}
        chk.case('probe-state-name-case', ('case', machine))
        if len(got) == 2 and got['z80'] != got['szx']:
            diff = {k: (got['z80'][k], got['szx'][k]) for k in got['z80'] if got['z80'][k] != got['szx'][k]}
            report(chk, [('state-name-upper-case:szx-ignored', f'write_snapshot(..., state={specs}, {machine}): .z80 and .szx read back differently (z80, szx): {diff}')],
                   {'kind': 'statecase'})


def probe_48k_prefix(chk, mods, inputs):
    """Bank-prefixed pokes on 48K snapshots: documented as 128K only; what happens depends on the file format."""
    res = {}
    for fmt in ('z80', 'szx'):
        path, st, _ = inputs.get(chk.rng, '48K', fmt, None)
        for p in (0, 1, 2, 5):
            out = os.path.join(chk.scratch, f'p48.{fmt}')
            fail = run_tool(mods[1].main, ['-p', f'{p}:0,^255', path, out])
            if fail is None:
                got = decode(out)
                ch = [b for b in (5, 2, 0) if got['banks'][b] != st['banks'][b]]
                res[f'{fmt} {p}:'] = {5: '0x4000', 2: '0x8000', 0: '0xC000'}.get(ch[0], '?') if ch else 'no change'
            else:
                res[f'{fmt} {p}:'] = fail
    chk.extra['observation_48k_bank_prefix'] = res


# ---- bin2sna ---------------------------------------------------------------------------------

def bin2sna_sweep(chk, mods, bin2sna):
    for n in range(chk.scale(60, 600)):
        bin2sna_case(chk, mods, bin2sna, chk.rng.getrandbits(48))
    # directed: the register / state options that have a dedicated option, when that option is not given
    for which in ('pc', 'sp', 'border'):
        done = 0
        for _ in range(40):
            if done < chk.scale(2, 6):
                done += bin2sna_case(chk, mods, bin2sna, chk.rng.getrandbits(48), directed=which) is not None


def bin2sna_case(chk, mods, bin2sna, case_seed, directed=None):
    import random
    rng = random.Random(case_seed)
    snapshot = mods[0]
    n = case_seed
    cursor = rng.randrange(40)
    fmt = rng.choice(('z80', 'szx'))
    mode = rng.choice(('48K', '48K', 'page', 'page', '128K-file'))
    binf = os.path.join(chk.scratch, 'prog.bin')
    out = os.path.join(chk.scratch, f'b2s.{fmt}')
    base_args = []
    banks = None
    if mode == '128K-file':
        banks = {b: rand_bank(rng, b) for b in range(8)}
        data = [x for b in range(8) for x in banks[b]]
        org = 0
        page = None
        if rng.randrange(2):
            page = rng.randrange(8)
            base_args += ['--page', str(page)]
        exp_page = page or 0
    else:
        ln = rng.choice((1, 2, 100, 5000, 16384, 32768, 49152, rng.randrange(1, 49152)))
        data = [rng.randrange(256) for _ in range(ln)]
        org = 65536 - ln
        if rng.randrange(2) and ln < 49152:
            org = rng.randrange(16384, 65536 - ln + 1)
            base_args += [rng.choice(('-o', '--org')), fmtnum(rng, org)]
        mem = [0] * 65536
        mem[org:org + ln] = data
        if mode == 'page':
            page = rng.randrange(8)
            base_args += ['--page', str(page)]
            banks = {b: [0] * 16384 for b in range(8)}
            banks[5], banks[2], banks[page] = mem[0x4000:0x8000], mem[0x8000:0xC000], mem[0xC000:]
            for b in rng.sample(range(8), rng.randrange(3)):
                if b in (5, 2, page) and rng.randrange(2):
                    continue
                bd = [rng.randrange(256) for _ in range(rng.choice((16384, 100, 1)))]
                bf = os.path.join(chk.scratch, f'bank{b}.bin')
                with open(bf, 'wb') as f:
                    f.write(bytes(bd))
                base_args += ['--bank', f'{b},{bf}']
                banks[b] = bd + [0] * (16384 - len(bd))
            exp_page = page
        else:
            banks = {5: mem[0x4000:0x8000], 2: mem[0x8000:0xC000], 0: mem[0xC000:]}
            exp_page = None
    with open(binf, 'wb') as f:
        f.write(bytes(data))
    # documented defaults
    exp_sp = exp_pc = org
    exp_border = 7
    given = set()
    if rng.randrange(3) == 0:
        exp_pc = rng.randrange(65536)
        base_args += [rng.choice(('-s', '--start')), fmtnum(rng, exp_pc)]
        given.add('pc')
    if rng.randrange(3) == 0:
        exp_sp = rng.randrange(65536)
        base_args += [rng.choice(('-p', '--stack')), fmtnum(rng, exp_sp)]
        given.add('sp')
    if rng.randrange(3) == 0:
        exp_border = rng.randrange(8)
        base_args += [rng.choice(('-b', '--border')), str(exp_border)]
        given.add('border')
    machine = '48K' if exp_page is None else '128K'
    # 1. the base conversion against the documentation
    fail = run_tool(bin2sna.main, base_args + [binf, out])
    stem = f'bin2sna-base:{mode}'
    chk.case(f'bin2sna-base-{mode}-{fmt}', ('b2s', n), {'tool': 'bin2sna', 'args': base_args, 'fmt': fmt})
    replay = {'kind': 'bin2sna', 'case_seed': case_seed, 'args': base_args, 'fmt': fmt, 'mode': mode}
    if fail is not None:
        chk.violation(f'{stem}:{fail.split(":")[0]}', f'bin2sna {" ".join(base_args)}: {fail}', replay)
        return
    try:
        st = decode(out)
    except (ValueError, IndexError, AssertionError, KeyError) as e:
        chk.violation(f'{stem}:unreadable-output', f'bin2sna {" ".join(base_args)}: the independent decoder cannot read the output: {type(e).__name__} {e}', replay)
        return
    doc = {'machine': machine, 'sp': exp_sp, 'pc': exp_pc, 'border': exp_border, 'iff1': 1, 'iff2': 1, 'im': 1, 'tstates': 34943}
    if machine == '48K':
        doc['issue2'] = 0
    else:
        doc['out7ffd'] = exp_page
    for k, v in doc.items():
        if st.get(k) != v:
            chk.violation(f'{stem}:{k}', f'bin2sna {" ".join(base_args)}: {k} should be {v} (documented default / option), snapshot has {st.get(k)}', replay)
    for b in sorted(banks):
        if st['banks'].get(b) != banks[b]:
            chk.violation(f'{stem}:ram', f'bin2sna {" ".join(base_args)}: RAM bank {b} differs from the input placed at ORG={org}', replay)
            break
    if sorted(st['banks']) != sorted(banks):
        chk.violation(f'{stem}:banks', f'bin2sna {" ".join(base_args)}: banks {sorted(st["banks"])} written, expected {sorted(banks)}', replay)
    # 2. --reg / --state / --poke change exactly what they name, relative to the base conversion
    cursor += 3
    kind = rng.choice(('reg', 'state', 'poke', 'mixed'))
    args, ops, label = [], [], ''
    if directed is not None:
        # --reg pc / --reg sp / --state border when the dedicated option (--start / --stack / --border) is not given
        kind = 'directed'
        if directed in ('pc', 'sp'):
            spec = f'{directed}={fmtnum(rng, rng.choice((0, 1, 255, 256, 32768, 65535, rng.randrange(65536))))}'
            args, ops, label = [rng.choice(('-r', '--reg')), spec], [('reg', spec, directed)], directed
        else:
            spec = f'border={rng.choice([b for b in range(8) if b != 7])}'
            args, ops, label = [rng.choice(('-S', '--state')), spec], [('state', spec, 'border')], 'border'
        if directed in given:
            return
    if kind in ('reg', 'mixed'):
        a, o = gen_regs(rng, fmt, st, 3, cursor)
        # --start/--stack are documented as equivalent to --reg pc/sp; do not give both
        keep = [i for i, x in enumerate(o) if not (x[2] in given)]
        a = [y for i in keep for y in a[2 * i:2 * i + 2]]
        o = [o[i] for i in keep]
        args, ops, label = args + a, ops + o, '+'.join(x[2] for x in o)
    if kind in ('state', 'mixed'):
        avoid = ('7ffd',) + (('border',) if 'border' in given else ())   # -b/--border and --page are documented as the equivalent --state options
        a, o = gen_state(rng, fmt, st, 3, cursor, opt=('-S', '--state'), avoid=avoid)
        args, ops, label = args + a, ops + o, (label + '+' if label else '') + '+'.join(x[2].split('[')[0] for x in o)
    if kind in ('poke', 'mixed'):
        for _ in range(rng.randrange(1, 4)):
            a, o, lab = gen_poke(rng, st, machine != '48K' and rng.randrange(2) == 0, opt=('-P', '--poke'))
            args, ops, label = args + a, ops + o, lab if kind == 'poke' else label + '+poke'
    if not args:
        return
    out2 = os.path.join(chk.scratch, f'b2s2.{fmt}')
    fail = run_tool(bin2sna.main, base_args + args + [binf, out2])
    chk.case(f'bin2sna-{kind}-{mode}-{fmt}', ('b2s-opt', n), {'tool': 'bin2sna', 'args': base_args + args, 'fmt': fmt})
    replay = {'kind': 'bin2sna', 'case_seed': case_seed, 'args': base_args + args, 'fmt': fmt, 'mode': mode, 'directed': directed}
    return finish_case(chk, snapshot, f'bin2sna-{kind}:{label}', fail, st, ops, fmt, out2, replay)


def replay_case(chk, mods, bin2sna, data):
    """Re-run exactly one recorded tool case; True if it still fails."""
    before = (len(chk.violations), sum(v['count'] for v in chk.violations),
              sum(v['count'] for v in chk.extra.get('unlisted_findings', {}).values()))
    if data['kind'] == 'snapmod':
        snapmod_case(chk, mods, Inputs(chk, mods[0]), data['desc'], data['case_seed'], data['input'])
    elif data['kind'] == 'bin2sna':
        bin2sna_case(chk, mods, bin2sna, data['case_seed'], directed=data.get('directed'))
    elif data['kind'] == 'statecase':
        probe_state_name_case(chk, mods)
    elif data['kind'] == 'input':
        try:
            Inputs(chk, mods[0]).by_id(data['input'])
        except Unreadable:
            pass
    after = (len(chk.violations), sum(v['count'] for v in chk.violations),
             sum(v['count'] for v in chk.extra.get('unlisted_findings', {}).values()))
    return after != before
