"""C10 — saving a snapshot mid-run and resuming from it is transparent.

Theorems: lean/SkoolVerif/Props/C10.lean over
  * the generated simulator models (translator tie) + three generated per-closure families made for this
    property (translate/gen_tshift.py -> Gen/{Sim,Cmio}{Tshift,Nz,Dur}Thms.lean: clock enters only mod
    frame; MEMPTR/HALT flag not read; instruction duration bounded; logged ports independent of the input values);
  * hand models Model/TraceLoop.lean (Tracer.run / CSimulator_trace loops, accept_interrupt, tracer port
    handlers) and Model/SnapResume.lean (get_state -> write_snapshot -> Snapshot.get -> from_snapshot ->
    trace.run start-up, both formats), tied here by correspondence with the real code.
E2E (props/c10_e2e.py): the property itself on the real trace.main, every split point of generated
programs, {szx,z80} x {48K,128K} x {plain,-c} x {C,--python}."""
import contextlib
import io
import os
import sys

import simgen
import looprun
from framework import fresh_import, REPO, VERIF, LeanLock
from props import c10_e2e as E

PROPS = 'SkoolVerif.Props.C10'
GEN = (('SimTshiftThms.lean', 'gen', {}), ('CmioTshiftThms.lean', 'gen', {'cmio': True}),
       ('SimNzThms.lean', 'gen_nz', {}), ('CmioNzThms.lean', 'gen_nz', {'cmio': True}),
       ('SimDurThms.lean', 'gen_dur', {}), ('CmioDurThms.lean', 'gen_dur', {'cmio': True}),
       ('SimIoThms.lean', 'gen_io', {}), ('CmioIoThms.lean', 'gen_io', {'cmio': True}))
FRAME = {'48K': (69888, 32), '128K': (70908, 36)}
B8 = (0, 1, 2, 0x7F, 0x80, 0xFE, 0xFF)
B16 = (0, 1, 0xFF, 0x100, 0x3FFF, 0x4000, 0x7FFF, 0x8000, 0xFFFE, 0xFFFF)


def regen_c10(chk):
    """simgen.regen + the three C10 theorem families (kept local to this module; see the report: the
    integrator may move these six files into simgen.GEN_FILES)."""
    ok = simgen.regen(chk)
    import importlib
    sys.path.insert(0, os.path.join(VERIF, 'translate'))
    if 'gen_tshift' in sys.modules:
        importlib.reload(sys.modules['gen_tshift'])
    import gen_tshift
    outputs = {}
    for fn, func, kw in GEN:
        try:
            outputs[fn] = getattr(gen_tshift, func)(REPO, **kw)
        except Exception as e:
            if ok:
                chk.breaks.append({'kind': 'translator', 'name': f'gen_tshift.{func} -> Gen/{fn}', 'detail': f'{type(e).__name__}: {e}'})
            ok = False
    changed = []
    with LeanLock():
        for fn, text in outputs.items():
            if chk.write_gen(os.path.join('SkoolVerif', 'Gen', fn), text):
                changed.append(fn)
    if changed:
        chk.note('regenerated (source changed): ' + ', '.join(changed))
    chk.extra['generated_files'] = sorted(set(chk.extra.get('generated_files', [])) | set(outputs))
    return ok


# ---------------------------------------------------------------------------------------------
# correspondence 1: save -> file -> start-up  vs  SnapResume.resume

class StubTracer:
    pass


class StubSim:
    pass


def rand_save_state(r, machine, in_range):
    """(regs30, tracer fields, o7ffd) of a machine about to be saved; mostly in range, boundary biased."""
    fd = FRAME[machine][0]
    if in_range:
        regs = [r.choice(B8 + (r.randrange(256),) * 2) for _ in range(24)]
        regs[12] = r.choice(B16 + (r.randrange(65536),) * 2)
        regs[13] = 0
        t = r.choice((0, 1, fd - 1, fd, fd + 1, 2 * fd - 1, 17472 * r.randrange(9), 17472 * r.randrange(9) - 1, (1 << 24) - 1, 1 << 24,
                      (1 << 24) + 87, r.randrange(fd), r.randrange(40 * fd), r.randrange(1 << 26)))
        regs += [r.choice(B16 + (r.randrange(65536),)), t, r.randrange(2), r.randrange(3), r.choice((0, 0, 1)), r.choice(B16 + (r.randrange(65536),))]
        tr = [r.randrange(8), r.choice(B8 + (r.randrange(256),)), r.choice((0, 0, 1, 15, 16, 255, r.randrange(256)))]
        ay = [0] * 16 if r.random() < 0.35 else [r.choice(B8 + (r.randrange(256),)) for _ in range(16)]
        if machine == '48K' and r.random() < 0.5:
            tr[2] = 0
        o7 = r.choice((0, 1, 7, 0x10, 0x17, 0x20, 0x3F, 0xFF, r.randrange(256))) if machine == '128K' else 0
    else:
        # values the simulators never produce but the writers accept: every `% 256`, `& 3`, ... is exercised
        regs = [r.choice((0, 255, 256, 257, 511, 65535, 65536, r.randrange(1 << 17))) for _ in range(24)]
        regs[13] = 0
        regs += [r.randrange(1 << 17), r.randrange(1 << 27), r.choice((0, 1, 2, 255, 256, 257)), r.randrange(8), r.choice((0, 1, 2, 3)), r.randrange(1 << 17)]
        tr = [r.randrange(8) if machine else 0, r.randrange(600), r.randrange(600)]
        ay = [r.randrange(600) for _ in range(16)]
        o7 = r.randrange(600) if machine == '128K' else 0
    return regs, tr + ay, o7


def corr_resume(chk, tools, simutils, pagingtracer):
    rng = chk.rng
    ops, impl = [], []
    mem48 = [0] * 65536
    mem128 = pagingtracer.Memory()
    n = chk.scale(560, 6000)
    for k in range(n):
        machine = ('48K', '128K')[k % 2]
        fmt = ('szx', 'z80')[(k // 2) % 2]
        in_range = rng.random() < 0.86
        regs, trv, o7 = rand_save_state(rng, machine, in_range)
        sim = StubSim()
        sim.registers = list(regs)
        sim.tracer = StubTracer()
        sim.tracer.border, sim.tracer.outfe, sim.tracer.outfffd = trv[:3]
        sim.tracer.ay = list(trv[3:])
        if machine == '128K':
            mem128.o7ffd = o7
            sim.memory = mem128
        else:
            sim.memory = mem48
        fname = tools.path(f'corr.{fmt}')
        tag = f'resume:{fmt}:{machine}:{"in" if in_range else "out-of"}-range'
        try:
            ram, registers, state, mach = simutils.get_state(sim)
            tools.snapshot.write_snapshot(fname, ram, registers, state, mach)
            o = [['--python'], [], ['-c'], ['-c', '--python']][(k // 4) % 4]
            cap, err = tools.start_state(o + ['-m', 1, fname])
        except Exception as e:  # noqa
            cap, err = None, f'{type(e).__name__}: {e}'
        if err or not cap:
            out = f'exception {err}'
        else:
            r30 = cap['regs']
            out = (f"{' '.join(map(str, r30[:24]))} ; {cap['start']} {' '.join(map(str, r30[25:30]))} ; "
                   f"{cap['border']} {cap['outfe']} {cap['outfffd']} {' '.join(map(str, cap['ay']))} ; {cap['o7ffd']}")
        ops.append(f"resume {fmt} {int(machine == '128K')} {o7} ; {' '.join(map(str, regs[:24]))} ; {' '.join(map(str, regs[24:30]))} ; {' '.join(map(str, trv))}")
        impl.append(out)
        chk.case(tag, ('resume', fmt, machine, tuple(regs), tuple(trv), o7),
                 {'op': 'resume', 'fmt': fmt, 'machine': machine, 'T': regs[25], 'halt': regs[28], 'impl': out[:160]} if k < 4 else None)
    model = chk.run_driver('C10', ops)
    if model is not None:
        chk.compare('get_state -> write_snapshot -> Snapshot.get -> from_snapshot -> trace.run start-up vs SnapResume.resume',
                    ops, [E.norm(a) for a in impl], [E.norm(b) for b in model])


# ---------------------------------------------------------------------------------------------
# correspondence 2: accept_interrupt

def corr_accept(chk, classes):
    rng = chk.rng
    ops, impl = [], []
    sims = {}
    for name, cls in classes:
        sims[name] = cls([0] * 65536)
    for k in range(chk.scale(1200, 20000)):
        name, cls = classes[k % len(classes)]
        sim = sims[name]
        cmio = 'cmio' in name
        regs = [rng.choice(B8 + (rng.randrange(256),) * 2) for _ in range(24)]
        regs[12] = rng.choice((0, 1, 2, 0x3FFF, 0x4000, 0x4001, 0x4002, 0xFFFF) + (rng.randrange(65536),) * 3)
        regs[13] = 0
        regs[14] = rng.choice((0, 0x3F, 0x40, 0x7F, 0xFE, 0xFF, rng.randrange(256)))
        pc = rng.choice(B16 + (rng.randrange(65536),) * 3)
        prev = rng.choice(((pc - 1) % 65536, (pc - 1) % 65536, (pc - 2) % 65536, rng.randrange(65536)))
        fields = [pc, rng.randrange(3 * 69888), 1, rng.choice((0, 1, 2, 2)), rng.randrange(2), rng.randrange(65536)]
        mem = {prev: rng.choice((0xFB, 0xDD, 0xFD, 0xFB, 0xDD, 0xFD, 0x00, 0x76, 0xED, rng.randrange(256)))}
        vaddr = 255 + 256 * regs[14]
        mem.setdefault(vaddr, rng.randrange(256))
        mem.setdefault((vaddr + 1) % 65536, rng.randrange(256))
        memory = sim.memory
        for a, v in mem.items():
            memory[a] = v
        before = bytes(memory)
        for i, v in enumerate(regs + fields):
            sim.registers[i] = v
        try:
            acc = sim.accept_interrupt(sim.registers, sim.memory, prev)
            r30 = [int(v) for v in sim.registers]
            after = bytes(memory)
            diffs = [(a, after[a]) for a in range(65536) if after[a] != before[a]] if after != before else []
            out = f"{int(bool(acc))} ; {' '.join(map(str, r30[:24]))} ; {' '.join(map(str, r30[24:30]))} ; {' '.join(f'b0:{a}:{v}' for a, v in diffs)}"
        except Exception as e:  # noqa
            out = f'exception {type(e).__name__}: {e}'
            diffs = []
        for a in list(mem) + [a for a, _ in diffs]:
            memory[a] = 0
        ops.append(f"accept {int(cmio)} 0 0 {prev} ; {' '.join(map(str, regs))} ; {' '.join(map(str, fields))} ; "
                   + ' '.join(f'b0:{a}:{v}' for a, v in sorted(mem.items())))
        impl.append(out)
        chk.case(f'accept:{name}', ('accept', name, tuple(regs), tuple(fields), prev, tuple(sorted(mem.items()))))
    model = chk.run_driver('C10', ops)
    if model is None:
        return
    # the model prints the write sequence; compare final cell values that differ from the initial image
    fixed = []
    for op, line in zip(ops, model):
        parts = line.split(';')
        if len(parts) == 4:
            init = {}
            for w in op.split(';')[3].split():
                _, a, v = w.split(':')
                init[int(a)] = int(v)
            final = {}
            for w in parts[3].split():
                _, a, v = w.split(':')
                final[int(a)] = int(v)
            parts[3] = ' ' + ' '.join(f'b0:{a}:{v}' for a, v in sorted(final.items()) if init.get(a, 0) != v)
            line = ';'.join(parts)
        fixed.append(line)
    chk.compare('accept_interrupt (Simulator, CMIOSimulator, C) vs TraceLoop.acceptInterrupt', ops,
                [E.norm(a) for a in impl], [E.norm(b) for b in fixed])


# ---------------------------------------------------------------------------------------------
# correspondence 3: the trace loops

RST_RET = {a: 0xC9 for a in (0x00, 0x08, 0x10, 0x18, 0x20, 0x28, 0x30)}


def corr_loop(chk, tools, simutils, pagingtracer, classes):
    rng = chk.rng
    ops, impl = [], []
    trace = tools.trace
    gens = [g for g in E.GENERATORS]
    for k in range(chk.scale(480, 8000)):
        name, cls = classes[k % len(classes)]
        cmio = 'cmio' in name
        is_c = name.startswith('c-')
        machine = ('48K', '128K')[(k // len(classes)) % 2]
        gname, g, _ = gens[(k // (2 * len(classes))) % len(gens)]
        img, regs, hw, n, tags = g(rng, machine, cmio, sparse=True)
        n = max(1, min(n + rng.randrange(0, 40), 60))
        intr = rng.random() < 0.85
        # ROM images: RST vectors return, a short interrupt routine at 0x38
        roms = []
        for _ in range(2 if machine == '128K' else 1):
            rom = dict(RST_RET)
            for j, b in enumerate(rng.choice(E.ISR_BODIES)):
                rom[0x38 + j] = b
            roms.append(rom)
        o7 = hw.get('7ffd', 0)
        r24 = E.regs24(regs)
        fields = [regs['pc'], hw['tstates'] + rng.choice((0, 0, 1, 3)) * FRAME[machine][0], hw['iff'], hw['im'], rng.choice((0, 0, 0, 1)), rng.randrange(65536)]
        ay = hw.get('ay', [0] * 16)
        trv = [hw['border'], hw['fe'], hw.get('fffd', 0)] + list(ay)
        cells = []
        if machine == '48K':
            memory = [0] * 65536
            for a, v in roms[0].items():
                memory[a] = v
                cells.append(f'b0:{a}:{v}')
            for (b, a), v in sorted(img.cells.items()):
                memory[a] = v
                cells.append(f'b0:{a}:{v}')
            init = bytes(memory)
        else:
            banks = [list(b) for b in img.banks]
            memory = pagingtracer.Memory(banks, o7, '128K')
            rl = []
            for i, rom in enumerate(roms):
                lst = [0] * 16384
                for a, v in rom.items():
                    lst[a] = v
                    cells.append(f'r{i}:{a}:{v}')
                rl.append(lst)
            memory.roms = tuple(rl)
            memory.out7ffd(o7)
            for (b, a), v in sorted(img.cells.items()):
                cells.append(f'b{b}:{a}:{v}')
            init = [bytes(x) for x in rl] + [bytes(b) for b in banks]
        out = None
        try:
            sim = simutils.from_memory(cls, memory)
            for i, v in enumerate(r24 + fields):
                sim.registers[i] = v
            tracer = trace.Tracer(sim, trv[0], o7, trv[2], list(ay), trv[1], False)
            sim.set_tracer(tracer)
            with contextlib.redirect_stdout(io.StringIO()):
                tracer.run(fields[0], None, n, 0, intr, None, None, None, None, '$', '02X', '04X')
            r30 = [int(v) for v in sim.registers]
            mem = sim.memory
            ch = []
            if machine == '48K':
                after = bytes(mem)
                if after != init:
                    ch = [f'b0:{a}:{after[a]}' for a in range(65536) if after[a] != init[a]]
                o7f = 0
            else:
                for i, rom in enumerate(mem.roms):
                    rb = bytes(rom)
                    if rb != init[i]:
                        ch += [f'r{i}:{a}:{rb[a]}' for a in range(16384) if rb[a] != init[i][a]]
                for i, bank in enumerate(mem.banks):
                    bb = bytes(bank)
                    if bb != init[2 + i]:
                        ch += [f'b{i}:{a}:{bb[a]}' for a in range(16384) if bb[a] != init[2 + i][a]]
                o7f = mem.o7ffd
            out = (f"{' '.join(map(str, r30[:24]))} ; {' '.join(map(str, r30[24:30]))} ; {tracer.border} {tracer.outfe} {tracer.outfffd} "
                   f"{' '.join(map(str, tracer.ay))} ; {o7f} ; - ; {' '.join(ch)}")
            if tracer.operations != n:
                out += f' ; operations={tracer.operations}'
        except Exception as e:  # noqa
            out = f'exception {type(e).__name__}: {e}'
        ops.append(f"run {'c' if is_c else 'py'} {'cmio' if cmio else 'plain'} {int(intr)} {n} {int(machine == '128K')} {o7} ; "
                   f"{' '.join(map(str, r24))} ; {' '.join(map(str, fields))} ; {' '.join(map(str, trv))} ; {' '.join(cells)}")
        impl.append(out)
        chk.case(f'loop:{name}:{machine}', ('loop', name, machine, tuple(r24), tuple(fields), tuple(cells)),
                 {'op': 'run', 'impl': name, 'machine': machine, 'gen': gname, 'n': n, 'start T': fields[1]} if k < 3 else None)
    model = chk.run_driver('C10', ops)
    if model is None:
        return
    fixed = []
    for line in model:
        parts = line.split(';')
        if len(parts) == 6:
            parts[4] = ' - '
            line = ';'.join(parts)
        fixed.append(line)
    chk.compare('Tracer.run (Python loop) / CSimulator.trace (C loop) vs TraceLoop.pyLoop / cRun', ops,
                [E.norm(a) for a in impl], [E.norm(b) for b in fixed])


# ---------------------------------------------------------------------------------------------
# e2e

CONFIGS = [(m, f, c, p) for m in ('48K', '128K') for f in ('szx', 'z80') for c in (False, True) for p in (False, True)]


def report(chk, tools, cfg, img, regs, hw, n, bad, origin, by_options=False, extra=()):
    for n1, d, kind in bad:
        if n1 == 'error':
            chk.note(f'e2e: trace.main failed on a generated case ({origin}): {d[0][:200]}')
            chk.violation(f'trace-crash:{cfg[1]}:{cfg[0]}', f'trace.main raised on a generated program: {d[0][:300]}',
                          E.replay_data(cfg, img, regs, hw, n, n1 if n1 != 'error' else 1, by_options, extra))
            continue
        machine, fmt, cmio, py = cfg
        what = f'{machine} {fmt} {"-c " if cmio else ""}{"--python " if py else ""}'
        if kind == 'restore':
            chk.violation(E.violation_key(cfg, [], d, 'restore'),
                          f'{what}: the run resumed from the snapshot written after {n1} instructions does not start in the state that run '
                          f'ended in: {d[:5]}', E.replay_data(cfg, img, regs, hw, n, n1, by_options, extra))
            continue
        causes = E.diagnose(tools, cfg, img, regs, hw, n, n1, by_options, extra)
        key = E.violation_key(cfg, causes, d)
        chk.violation(key, f'{what}: running {n} instructions vs {n1} + snapshot + '
                           f'{n - n1}: final state differs in {d[:5]}' + (f' (explained by the dropped {"/".join(causes)})' if causes else ''),
                      E.replay_data(cfg, img, regs, hw, n, n1, by_options, extra))


def e2e(chk, tools):
    rng = chk.rng
    configs = [c for c in CONFIGS if tools.have_c or c[3]]
    # deterministic witnesses, every run: the two known Z80-format findings, and the two repaired defects
    for wname, w in E.WITNESSES.items():
        for fmt in w['formats']:
            for py in ((False, True) if tools.have_c else (True,)):
                img, regs, hw, n, n1s = w['build']()
                cfg = (w['machine'], fmt, w['cmio'], py)
                bad = E.check_case(tools, cfg, img, regs, hw, n, n1s)
                chk.case(f'e2e:witness:{wname}', ('w', wname, fmt, py), {'witness': wname, 'fmt': fmt, 'python': py, 'failing splits': [b[0] for b in bad]})
                report(chk, tools, cfg, img, regs, hw, n, bad, wname)
    # directed state sweep, every run: each bit of each register / hardware field set by the program between splits
    for dname, d in E.DIRECTED.items():
        for fmt in d['formats']:
            for py in d['pythons']:
                if not (tools.have_c or py):
                    py = True
                img, regs, hw, n, n1s = d['build']()
                cfg = (d['machine'], fmt, d['cmio'], py)
                bad = E.check_case(tools, cfg, img, regs, hw, n, n1s, False, d.get('extra', ()))
                chk.case(f'e2e:directed:{dname}', ('d', dname, fmt, py), {'directed': dname, 'fmt': fmt, 'python': py, 'splits': n1s, 'failing splits': [b[0] for b in bad]} if fmt == 'szx' else None)
                chk.evaluations += max(0, len(n1s) - 1)
                report(chk, tools, cfg, img, regs, hw, n, bad, dname, False, d.get('extra', ()))
    for machine in ('48K', '128K'):
        for fmt in ('szx', 'z80'):
            for t, img, regs, hw, n, n1s in E.tstate_sweep(machine):
                cfg = (machine, fmt, False, not tools.have_c)
                bad = E.check_case(tools, cfg, img, regs, hw, n, n1s, True)
                chk.case(f'e2e:directed:tstates:{fmt}:{machine}', ('dt', machine, fmt, t), {'directed': 'tstates', 'machine': machine, 'fmt': fmt, 'T': t} if t == 0 else None)
                report(chk, tools, cfg, img, regs, hw, n, bad, f'tstates={t}', True)
    total = chk.scale(96, 1300)
    weights = [g for g in E.GENERATORS for _ in range(g[2])]
    for k in range(total):
        cfg = configs[k % len(configs)]
        gname, g, _ = weights[rng.randrange(len(weights))]
        img, regs, hw, n, tags = g(rng, cfg[0], cfg[2])
        if not chk.thorough:
            n = min(n, 16)
        splits = list(range(1, n))
        by_options = k % 2 == 1
        bad = E.check_case(tools, cfg, img, regs, hw, n, splits, by_options)
        for t in tags[1:4]:
            chk.dist[f'e2e:tag:{t}'] += 1
        chk.case(f'e2e:{gname}:{cfg[1]}:{cfg[0]}:{"cmio" if cfg[2] else "plain"}:{"py" if cfg[3] else "c"}',
                 ('e2e', cfg, tuple(sorted(regs.items())), tuple(sorted((k2, str(v)) for k2, v in hw.items())), n),
                 {'e2e': gname, 'cfg': list(cfg), 'instructions': n, 'splits': len(splits), 'tags': tags[:6]} if k < 4 else None)
        chk.evaluations += max(0, len(splits) - 1)
        report(chk, tools, cfg, img, regs, hw, n, bad, gname, by_options)
    # a run longer than 2^24 T-states (C simulators only: 4.2 million instructions), then resume for a frame
    if tools.have_c:
        for fmt, cmio in (('szx', False), ('z80', False), ('szx', True)):
            img, regs, hw, n, n1s = E.long_run_case()
            cfg = ('48K', fmt, cmio, False)
            bad = E.check_case(tools, cfg, img, regs, hw, n, n1s)
            chk.case(f'e2e:long-run:{fmt}:{"cmio" if cmio else "plain"}', ('long', fmt, cmio), {'e2e': 'long-run', 'fmt': fmt, 'cmio': cmio, 'instructions': n, 'split': n1s})
            report(chk, tools, cfg, img, regs, hw, n, bad, 'long-run')
    chk.extra['trace_main_calls'] = tools.calls


def run(chk):
    chk.rule = ('e2e: generated programs (instruction mixes biased to EI/DI/HALT/IM/LD A,I-R/port I/O/block repeats/DD-FD chains/'
                'BIT n,(HL)/stack, HALT waits at contention boundaries, block instructions cut mid-repeat, port traffic for border/7FFD/AY, '
                'random bytes) x start states (frame position biased to the INT pulse, frame end, contention window; IFF/IM/border/7FFD incl. '
                'lock/AY) x EVERY split point n1 in 1..N-1 x {szx,z80} x {48K,128K} x {plain,-c} x {C,--python} on the real trace.main; '
                'a case is non-trivial/distinct by (config, registers, hardware state, N). correspondence: random/boundary machine states '
                'through the real get_state/write_snapshot/Snapshot.get/from_snapshot/trace.run start-up; accept_interrupt on 4 '
                'implementations; Tracer.run / CSimulator.trace on generated programs vs the loop models. directed state sweep (every run): a program '
                'that sets every bit of every register incl. alternates/IX/IY/SP/I/R, 128K hardware fields (0x7FFD bits 6-7 and lock, AY 14/15, '
                'fffd >= 16, last OUT to 0xFE), 48K AY registers 14/15 and fffd alone, HALT with DI in IM 0, the border list kept under --audio, '
                'start clocks on the quarter-frame / 16-bit boundaries of the .z80 and SZX encodings of the frame position')
    chk.trusted += ['translator translate/py2lean.py (validated per slot each run by C06/C08)',
                    'translate/gen_tshift.py emits theorem statements only (a wrong statement cannot make a false theorem check)',
                    'hand models Model/TraceLoop.lean, Model/SnapResume.lean tied by correspondence each run',
                    'both trace loops are translated from source each run: CSimulator_trace (translate/cloop2lean.py, both builds; callbacks = output log; '
                    'draw_screen = input stream) and the Python loop of Tracer.run (translate/pyloop2lean.py, loop core: the else branch of `if hasattr(simulator, \'trace\')`; '
                    'prologue, C branch and epilogue checked by exact text); theorems for draw = None; validated each run against the real CSimulator.trace and against the '
                    'loop\'s own statements run on the real Python simulators; the hand model cIter is proved to be the translated pass over the tracer port glue tstep '
                    '(trace_model_pass_is_translated_pass); tstep (Tracer.read_port / PagingTracer.write_port) remains a hand model tied by correspondence', 'zlib; RAM page codecs (C09)']
    chk.assumptions += [
        'theorems are stated for a saved state satisfying `Saveable` (registers/state in range: C08 proves preservation for the closures '
        'its generic tactic closes; tracer fields in range; ROM intact: C08) - the hypothesis is explicit, satisfiability is witnessed',
        'RAM bytes pass through the snapshot codecs unchanged: proved for the Z80 RLE coder in C09, zlib trusted; here the identity',
        'Z80 format + contended simulator: full statement refuted (two witnesses, both KNOWN findings: HALT flag, MEMPTR->BIT n,(HL)); '
        'the partial theorem excludes exactly those; Z80 format drops the last OUT to 0xFE (no field; not observable in a .z80 file)',
        'only the -m (max_operations) stop condition is modelled; fast LDIR/DJNZ (no -m/-M/-v) , --screen/keyboard, audio tracer '
        '(port_fe border list), exec map, trace-line printing are outside the model (e2e covers -m runs only)',
        'SNA input (SP fix-up) is not written by trace.py and is not modelled',
        'the IN value of a step is computed by probing the step for its port (`probePort`); tied by the loop correspondence']
    trace, snapshot, simutils, pagingtracer, simulator, cmiosimulator = fresh_import(
        'skoolkit.trace', 'skoolkit.snapshot', 'skoolkit.simutils', 'skoolkit.pagingtracer', 'skoolkit.simulator', 'skoolkit.cmiosimulator')
    gen_ok = regen_c10(chk)
    # the C trace loop (CSimulator_trace) and the C handlers it calls are translated from the tree under test too
    # (translate/cloop2lean.py, c2lean.py): theorems c_trace_loop_derived_from_source, trace_model_pass_is_translated_pass
    loop_ok = looprun.regen_c_side(chk) if gen_ok else False
    ok = chk.lake_build([PROPS, 'SkoolVerif.Prelude.Proto', 'SkoolVerif.Model.SnapResume', 'SkoolVerif.Gen.SimHandlers',
                         'SkoolVerif.Gen.CmioHandlers'] + looprun.LOOP_DRIVER_MODULES) if gen_ok and loop_ok else False
    chk.audit(PROPS)
    if chk.thorough and ok:
        chk.leanchecker([PROPS])
    c_classes = None
    try:
        import cbuild
        c_classes = cbuild.build(chk.scratch)
    except Exception as e:  # C source not buildable: Python simulators only (noted, not a violation)
        chk.note(f'C simulators not built ({type(e).__name__}: {str(e)[:120]}): --python configurations only')
    tools = E.Tools(trace, snapshot, chk.scratch, c_classes)
    classes = [('py-plain', simulator.Simulator), ('py-cmio', cmiosimulator.CMIOSimulator)]
    if c_classes:
        classes += [('c-plain', c_classes[0]), ('c-cmio', c_classes[1])]
    t_build = chk.elapsed()
    if gen_ok and loop_ok:
        # both trace loops, translated from source, against the real code (one driver start)
        batch = []
        if c_classes:
            looprun.trace_correspondence(chk, c_classes[0], c_classes[1], batch=batch)
        looprun.py_trace_correspondence(chk, simulator.Simulator, cmiosimulator.CMIOSimulator, batch=batch)
        looprun.flush(chk, batch)
    if ok:
        corr_resume(chk, tools, simutils, pagingtracer)
        corr_accept(chk, classes)
        corr_loop(chk, tools, simutils, pagingtracer, classes)
    else:
        chk.note('model unavailable: e2e search only')
    t_corr = chk.elapsed()
    e2e(chk, tools)
    chk.extra['phase_seconds'] = {'regen+build+audit+cbuild': round(t_build, 1), 'correspondence': round(t_corr - t_build, 1),
                                  'e2e': round(chk.elapsed() - t_corr, 1)}


def replay(chk, data):
    trace, snapshot = fresh_import('skoolkit.trace', 'skoolkit.snapshot')
    c_classes = None
    try:
        import cbuild
        c_classes = cbuild.build(chk.scratch)
    except Exception:
        pass
    tools = E.Tools(trace, snapshot, chk.scratch, c_classes)
    cfg, img, regs, hw, n, n1, by_options = E.from_replay(data)
    bad = E.check_case(tools, cfg, img, regs, hw, n, [n1], by_options, tuple(data.get('extra', ())))
    for b in bad:
        print(f'  split {b[0]}: {b[1][:6]}')
    return bool(bad)
