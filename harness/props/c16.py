"""C16 — every internal link and asset reference of the generated HTML resolves.

Theorems: lean/SkoolVerif/Props/C16.lean (path algebra: relpath resolves for all relative path
strings and working directories; abstract site: files written, anchors defined, hrefs of
_asm_relpath / #R / operand links resolve to a written file that defines the fragment).
Tie: hand models Model/PathAlg.lean and Model/HtmlSite.lean + correspondence (this file) against
posixpath / skoolhtml.join and against the real HtmlWriter objects of in-process skool2html runs.
E2E: skool2html.main on generated skool + ref projects x options, every href/src of every written
HTML file crawled by an independent crawler (harness/indep/linkcrawl.py)."""
import contextlib
import io
import itertools
import os
import posixpath
import re
import shutil
import traceback

from framework import fresh_import
from indep import linkcrawl

PROPS = 'SkoolVerif.Props.C16'
KEY_SINGLE_REMOTE = 'single-page-operand-link-to-remote-entry'

# --------------------------------------------------------------------------------------------
# Generator of skool + ref projects.  Only *legitimate* input is produced: every #R / #LINK /
# operand refers to something the documentation says can be linked to (an instruction of a
# non-ignored entry of the current disassembly, an entry of another disassembly, an entry point
# of another disassembly declared with @remote, a page or box-page item that is defined), and
# the [Paths] values are distinct relative paths.  Whatever the tools then write must be closed
# under links.  Input the tools are known to *crash* on without writing a wrong link is avoided
# and listed in NOT_GENERATED (reported in the evidence as notes, never as violations).
# --------------------------------------------------------------------------------------------

NOT_GENERATED = (
    "'#Raddr@CODE' with a code id spelt in another case in single-page mode (KeyError in _asm_relpath; "
    "multi-page mode matches ids case-insensitively)",
    "'#LINK(Page#anchor)()' with blank link text to a ListItems/BulletPoints box page (ValueError in expand_link)",
    "'#LINK(Map#addr)' from another disassembly with a non-default AddressAnchor (anchor is only converted for "
    "entries of the current disassembly)",
    "'-j NAME' with a StyleSheetPath directory that does not exist yet (FileNotFoundError in copy_resources)",
    "[Paths] values containing 'x/../' (os.makedirs FileExistsError) and CodeFiles templates containing a '/' "
    "(links inside the entry page are computed for CodePath, the page is written one level below)",
    "[MemoryMap:MemoryMap] / [MemoryMap:<id>-Index] with Write=0 or restricted EntryTypes (the 'Up' links of the "
    "entry pages point at that page unconditionally)",
    "links to 'i' (ignored) entries, to pages that are not written (no entry of the map's types), #R/#LINK with "
    "free-text #name anchors",
)

CTLS = 'bcgstuw'
REGS = ('A', 'B', 'C', 'HL', 'DE', 'BC')
ANCHOR_FORMATS = ('{address}', '{address:04x}', '{address:04X}', 'a{address}', '{address:05d}', 'L{address:x}')
ADDRESS_FORMATS = ('', '${address:04X}', '{address:04x}h')
DIRS = ('a', 'b', 'asm', 'x1', 'deep', 'maps', 'images', 'Img', 'JS')       # case matters on the target file system


class GInstr:
    def __init__(self, addr, size):
        self.addr = addr
        self.size = size
        self.op = None
        self.ep = False
        self.label = None
        self.comment = ''
        self.midblock = None
        self.hexaddr = False


class GEntry:
    def __init__(self, addr, ctl):
        self.addr = addr
        self.ctl = ctl
        self.instrs = []
        self.title = ''
        self.desc = []
        self.regs = []
        self.start = None
        self.end = None
        self.remotes = []


class GCode:
    def __init__(self, cid):
        self.cid = cid
        self.entries = []

    def linkable(self):
        return [(e, i) for e in self.entries if e.ctl != 'i' for i in e.instrs]


def layout_code(rng, cid, start, n_entries):
    code = GCode(cid)
    addr = start
    for k in range(n_entries):
        ctl = rng.choice('cccbbgstuwi' if k else 'ccb')
        if addr > 65500:
            break
        e = GEntry(addr, ctl)
        n = rng.choice((1, 1, 2, 3, 4, 6)) if ctl == 'c' else rng.choice((1, 1, 2, 3))
        for j in range(n):
            if ctl == 'c':
                size = rng.choice((1, 2, 3, 3, 3))
            elif ctl == 'w':
                size = 2
            elif ctl == 's':
                size = rng.choice((1, 8, 300))
            else:
                size = rng.choice((1, 2, 3, 4))
            if addr + size > 65536:
                break
            ins = GInstr(addr, size)
            ins.ep = j > 0 and rng.random() < 0.35
            ins.hexaddr = rng.random() < 0.2
            e.instrs.append(ins)
            addr += size
        if e.instrs:
            code.entries.append(e)
        addr += rng.choice((0, 0, 0, 1, 5, 200))
    return code


class ProjectGen:
    def __init__(self, rng, flavour=None):
        self.rng = rng
        self.flavour = flavour or {}
        self.need_files = {}

    # -- link targets ------------------------------------------------------------------------
    def ensure_remote(self, host_entry, other, te, ti):
        addrs = [te.addr]
        if ti.addr != te.addr:
            addrs.append(ti.addr)
        fmt = self.rng.choice(('{}', '{}', '${:04X}', '${:04x}'))
        host_entry.remotes.append('@remote={}:{}'.format(other.cid, ','.join(fmt.format(a) for a in addrs)))

    def r_macro(self, code, host):
        rng = self.rng
        others = [c for c in self.codes if c is not code and c.linkable()]
        kind = rng.choice(('local', 'local', 'local-entry', 'anchor', 'other-entry', 'other-ep', 'other-entry'))
        if kind.startswith('other') and others:
            other = rng.choice(others)
            te, ti = rng.choice(other.linkable())
            if kind == 'other-entry':
                ti = te.instrs[0]
                if rng.random() < 0.3:
                    self.ensure_remote(host, other, te, ti)
            else:
                self.ensure_remote(host, other, te, ti)
            cid = other.cid
            if not self.single and rng.random() < 0.2:
                cid = rng.choice((cid.upper(), cid.lower(), cid.capitalize()))
            return '#R{}@{}{}'.format(self.addr_arg(ti.addr), cid, rng.choice(('', '', '(there)')))
        cands = code.linkable()
        if not cands:
            return 'nothing'
        te, ti = rng.choice(cands)
        if kind == 'local-entry':
            ti = te.instrs[0]
        if kind == 'anchor':
            return '#R{0}#{0}(first)'.format(te.addr)       # documented way to link to the first instruction
        return '#R{}{}'.format(self.addr_arg(ti.addr), rng.choice(('', '', '(this)', '(#N{})'.format(ti.addr))))

    def addr_arg(self, a):
        return self.rng.choice(('{}', '{}', '{}', '${:04X}', '({}+0)')).format(a)

    def link_macro(self, code=None):
        rng = self.rng
        cands = list(self.link_targets)
        if code is not None and code is not self.codes[0]:
            cands = [(p, a if p not in self.map_pages else []) for p, a in cands if p != 'CustomMap']
        if not cands:
            return 'x'
        page, anchors = rng.choice(cands)
        if anchors and rng.random() < 0.6:
            texts = ('item',) if page in self.list_pages else ('', 'item')
            return '#LINK({}#{})({})'.format(page, rng.choice(anchors), rng.choice(texts))
        return '#LINK({})({})'.format(page, rng.choice(('', 'page')))

    def image_macro(self):
        rng = self.rng
        self.img_n += 1
        n = self.img_n
        a = rng.choice((0, 15360, 16384, 32768, 49152))
        kind = rng.randrange(9)
        if kind == 0:
            return '#UDG{},{}'.format(a, rng.randrange(8))
        if kind == 1:
            return '#UDG{}(u{})'.format(a, n)
        if kind == 2:
            return '#SCR1,0,0,2,2(s{})'.format(n)
        if kind == 3:
            return '#FONT{}(ab)(f{})'.format(15616, n)
        if kind == 4:
            return '#UDGARRAY2({};{})(arr{})'.format(a, a + 8, n)
        if kind == 5:
            return '#UDG{}(/top{})'.format(a, n)
        if kind == 6:
            return '#UDG{}({{ScreenshotImagePath}}/x{})'.format(a, n)
        if kind == 7:
            return '#UDGARRAY1({0})(*fr{1}a)#UDG{2},56,2(fr{1}c*fr{1}b)#FRAMES(fr{1}a,5;fr{1}b)(anim{1})'.format(a, n, a + 8)
        return '#UDG{}(sub/dir/u{}.png)'.format(a, n)

    def audio_macro(self):
        self.img_n += 1
        return '#AUDIO0({}snd{}.wav)(100,200,300)'.format(self.rng.choice(('', '', '/')), self.img_n)

    def text(self, code, host, rich=True):
        rng = self.rng
        parts = [rng.choice(('Text', 'See', 'Used by', 'Data for', 'Jumps to'))]
        for _ in range(rng.choice((0, 1, 1, 2, 3)) if rich else rng.choice((0, 0, 1))):
            k = rng.random()
            if k < 0.55:
                parts.append(self.r_macro(code, host))
            elif k < 0.75:
                parts.append(self.link_macro(code))
            elif k < 0.9:
                parts.append(self.image_macro())
            elif k < 0.93 and self.audio:
                parts.append(self.audio_macro())
            elif k < 0.97:
                parts.append('#LIST {{ {} }} {{ {} }} LIST#'.format(self.r_macro(code, host), self.link_macro(code)))
            else:
                parts.append('#TABLE {{ {} | {} }} TABLE#'.format(self.r_macro(code, host), self.link_macro(code)))
            parts.append(rng.choice(('and', 'or', 'then', '.')))
        return ' '.join(parts)

    # -- operands ----------------------------------------------------------------------------
    def operand_target(self, code, e, every, others):
        rng = self.rng
        k = rng.random()
        if k < 0.25:
            t = rng.choice(e.instrs).addr
        elif k < 0.6:
            t = rng.choice(every)[1].addr
        elif k < 0.7:
            ti = rng.choice(every)[1]
            t = ti.addr + (1 if ti.size > 1 else 0)            # the middle of an instruction
        elif k < 0.9 and others:
            other = rng.choice(others)
            te, ti = rng.choice(other.linkable())
            if rng.random() < 0.5:
                ti = te.instrs[0]
            self.ensure_remote(e, other, te, ti)
            t = ti.addr
        else:
            t = rng.choice((0, 8, 56, 16384, 65535, rng.randrange(65536)))
        return rng.choice(('{}', '{}', '${:04X}', '${:04x}')).format(t)

    def fill_operands(self, code):
        rng = self.rng
        others = [c for c in self.codes if c is not code and c.linkable()]
        every = [(e, i) for e in code.entries for i in e.instrs]
        for e in code.entries:
            for ins in e.instrs:
                tgt = lambda: self.operand_target(code, e, every, others)
                if e.ctl == 'c':
                    if ins.size == 1:
                        ins.op = rng.choice(('RET', 'XOR A', 'NOP', 'INC HL', 'RST 8', 'RST 56', 'RST $10'))
                    elif ins.size == 2:
                        if rng.random() < 0.6:
                            ins.op = rng.choice(('JR {}', 'DJNZ {}', 'JR NZ,{}', 'JR C,{}')).format(tgt())
                        else:
                            ins.op = rng.choice(('LD A,{}', 'LD B,{}', 'CP {}')).format(rng.randrange(256))
                    else:
                        ins.op = rng.choice(('CALL {}', 'CALL {}', 'JP {}', 'JP NZ,{}', 'CALL Z,{}', 'LD HL,{}', 'LD ({}),A',
                                             'LD BC,({})', 'LD A,({})', 'LD DE,{}')).format(tgt())
                elif e.ctl == 'w' or (e.ctl in 'bg' and ins.size == 2 and rng.random() < 0.5):
                    ins.op = 'DEFW {}'.format(tgt())
                elif e.ctl == 't':
                    ins.op = 'DEFM "{}"'.format('abcdefgh'[:ins.size])
                elif e.ctl == 's':
                    ins.op = 'DEFS {}'.format(ins.size)
                else:
                    ins.op = 'DEFB ' + ','.join(str(rng.randrange(256)) for _ in range(ins.size))
                if ins.op.startswith(('CALL', 'JP', 'LD', 'DEFW')) and rng.random() < 0.05:
                    ins.keep = True

    # -- text of a skool file ------------------------------------------------------------------
    def decorate(self, code):
        rng = self.rng
        labels = set()
        for e in code.entries:
            rich = e.ctl != 'i'
            e.title = self.text(code, e, rng.random() < 0.4) if rich else 'Ignored'
            if rich:
                e.desc = [self.text(code, e) for _ in range(rng.choice((0, 1, 1, 2)))]
                e.regs = [(rng.choice(REGS), self.text(code, e, False)) for _ in range(rng.choice((0, 0, 1, 2)))]
                if rng.random() < 0.3:
                    e.start = self.text(code, e)
                if rng.random() < 0.3:
                    e.end = self.text(code, e)
            for j, ins in enumerate(e.instrs):
                if rich and rng.random() < 0.5:
                    ins.comment = self.text(code, e, rng.random() < 0.5)
                if rich and j and rng.random() < 0.25:
                    ins.midblock = self.text(code, e)
                if rng.random() < (0.3 if j == 0 else 0.15):
                    name = rng.choice(('START', 'LOOP', 'DATA', 'EXIT', 'TABLE', 'X')) + str(ins.addr % 1000)
                    if name not in labels:
                        labels.add(name)
                        ins.label = name
                elif j and ins.ep and rng.random() < 0.3:
                    ins.label = '*'

    def render_code(self, code):
        rng = self.rng
        lines = []
        for e in code.entries:
            lines.append('; ' + e.title)
            if e.desc or e.regs or e.start is not None:
                lines.append(';')
                if e.desc:
                    for k, p in enumerate(e.desc):
                        if k:
                            lines.append('; .')
                        lines.append('; ' + p)
                else:
                    lines.append('; .')
                if e.regs or e.start is not None:
                    lines.append(';')
                    if e.regs:
                        lines.extend('; {} {}'.format(r, d) for r, d in e.regs)
                    else:
                        lines.append('; .')
                    if e.start is not None:
                        lines.append(';')
                        lines.append('; ' + e.start)
            lines.extend(e.remotes)
            for j, ins in enumerate(e.instrs):
                if ins.midblock and j:
                    lines.append('; ' + ins.midblock)
                if ins.label:
                    lines.append('@label=' + ins.label)
                if getattr(ins, 'keep', False):
                    lines.append('@keep')
                ctl = e.ctl if j == 0 else ('*' if ins.ep else ' ')
                if ins.hexaddr:
                    astr = '${:04X}'.format(ins.addr)
                else:
                    astr = rng.choice(('{:05d}', '{}' if ins.addr >= 10000 else '{:05d}')).format(ins.addr)   # the address field is 5 characters wide
                line = '{}{} {}'.format(ctl, astr, ins.op)
                if ins.comment:
                    line = '{:<28} ; {}'.format(line, ins.comment)
                lines.append(line)
            if e.end is not None:
                lines.append('; ' + e.end)
            lines.append('')
        return '\n'.join(lines) + '\n'

    # -- the project ---------------------------------------------------------------------------
    def build(self):
        rng = self.rng
        fl = self.flavour
        self.img_n = 0
        self.list_pages = {'Changelog'}
        self.map_pages = {'MemoryMap', 'RoutinesMap', 'DataMap', 'MessagesMap', 'UnusedMap', 'GameStatusBuffer', 'CustomMap'}
        single = self.single = fl.get('single', rng.random() < 0.35)
        self.audio = fl.get('audio', rng.random() < 0.3)
        n_other = fl.get('n_other', rng.choice((0, 0, 1, 1, 2)))
        starts = rng.sample((0, 24576, 32768, 40000, 49152, 57344, 65300), 1 + n_other)   # 0: a ROM disassembly (entry at address 0)
        if rng.random() < 0.25 and n_other:
            starts[1] = starts[0]          # overlapping address ranges in main and other code
        ids = ['main'] + rng.sample(('other', 'start', 'Load', 'c2', 'Save$1'), n_other)
        self.codes = [layout_code(rng, cid, st, rng.choice((1, 2, 3, 5, 8))) for cid, st in zip(ids, starts)]
        main = self.codes[0]

        paths, game, ref = {}, {}, []
        anchor_fmt = rng.choice(ANCHOR_FORMATS) if rng.random() < 0.6 else '{address}'
        if anchor_fmt != '{address}':
            game['AddressAnchor'] = anchor_fmt
        if rng.random() < 0.3:
            game['Address'] = rng.choice(ADDRESS_FORMATS)
        if rng.random() < 0.4:
            game['LinkOperands'] = rng.choice(('CALL,DEFW,DJNZ,JP,JR,LD,RST', 'CALL,JP', 'DEFW,LD', 'call,jp,jr,ld'))
        if rng.random() < 0.4:
            game['LinkInternalOperands'] = '1'
            if rng.random() < 0.4:
                game['LinkInternalOperandsMinDistance'] = str(rng.choice((1, 3, 10)))
        if rng.random() < 0.2:
            game['Bytes'] = '02X'
        single_via_option = False
        if single:
            if rng.random() < 0.5:
                single_via_option = True
            else:
                game['AsmSinglePage'] = '1'

        def rpath(depths=(0, 1, 1, 2), stem=None, last=None):
            comps = [rng.choice(DIRS) for _ in range(rng.choice(depths))]
            if last:
                comps.append(last)
            if stem:
                comps.append(stem)
            p = '/'.join(comps)
            if comps and rng.random() < fl.get('odd_paths', 0.15):
                k = rng.randrange(3)
                if k == 0:
                    p = './' + p
                elif k == 1 and len(comps) > 1:
                    p = p.replace('/', '//', 1)
                elif k == 2 and not stem:
                    p = p + '/'
            return p

        if rng.random() < 0.5:
            paths['CodePath'] = rpath((0, 1, 1, 2, 3)) or '.'
        if rng.random() < 0.3:
            paths['CodeFiles'] = rng.choice(('{address:04X}.html', 'e{address}.htm', '{address:05d}.html', '{address}'))
        if rng.random() < 0.4:
            paths['GameIndex'] = rpath(stem=rng.choice(('index.html', 'home.html')))
        if rng.random() < 0.4:
            paths['MemoryMap'] = rpath(stem='everything.html')
        if rng.random() < 0.3:
            paths['AsmSinglePage'] = rpath(stem='single.html')
        if rng.random() < 0.3:
            paths['ImagePath'] = rpath((0, 1, 2)) or '.'
        if rng.random() < 0.3:
            paths['UDGImagePath'] = rng.choice(('{ImagePath}/u', 'udgs', '{ScreenshotImagePath}/../u'))
        if rng.random() < 0.2:
            paths['ScreenshotImagePath'] = rng.choice(('{ImagePath}/screens', 'scr'))
        if rng.random() < 0.3:
            paths['StyleSheetPath'] = rpath((1, 2))
        if rng.random() < 0.3:
            paths['JavaScriptPath'] = rpath((1, 2))
        if rng.random() < 0.2:
            paths['FontPath'] = rpath((1, 2))
        if rng.random() < 0.2:
            paths['AudioPath'] = rpath((1, 2))
        for k, c in enumerate(self.codes[1:]):
            ref.append(('OtherCode:' + c.cid, ['Source={}.skool'.format(c.cid)] if rng.random() < 0.5 else []))
            if rng.random() < 0.3:
                paths[c.cid + '-CodePath'] = rpath((0, 1, 2), last='oc{}'.format(k))
            if rng.random() < 0.3:
                paths[c.cid + '-Index'] = rpath(stem='oc{}-idx.html'.format(k))
            if rng.random() < 0.3:
                paths[c.cid + '-AsmSinglePage'] = rpath(stem='oc{}-all.html'.format(k))

        # pages and boxes that #LINK may point at
        self.link_targets = [('MemoryMap', [str(e.addr) for e in main.entries if e.ctl != 'i']), ('GameIndex', [])]
        types_present = {e.ctl for e in main.entries}
        for mp, ts in (('RoutinesMap', 'c'), ('DataMap', 'bw'), ('MessagesMap', 't'), ('UnusedMap', 'su'), ('GameStatusBuffer', 'g')):
            if types_present & set(ts):
                self.link_targets.append((mp, [str(e.addr) for e in main.entries if e.ctl in ts]))
        pages, late_sections, files = [], [], {}
        if rng.random() < 0.6:
            for pid, prefix in rng.sample((('Bugs', 'Bug'), ('Facts', 'Fact'), ('Pokes', 'Poke'), ('Glossary', 'Glossary'),
                                           ('GraphicGlitches', 'GraphicGlitch')), rng.choice((1, 2, 3))):
                anchors = []
                for k in range(rng.choice((1, 2, 3))):
                    if rng.random() < 0.25:
                        # two-part section name: the anchor is derived from the title by the writer (only the
                        # page's own table of contents links to it)
                        late_sections.append(('{}:Untitled {} ({})'.format(prefix, prefix, k), 'box'))
                        continue
                    # ids are case-sensitive; an anchor must not start with a capital ('#Bug0' would read as macro #B)
                    a = rng.choice(('{0}{2}', '{0}{2}', 'my{1}No{2}', '{0}_{2}X')).format(prefix.lower(), prefix, k)
                    anchors.append(a)
                    late_sections.append(('{}:{}:Title {} {}{}'.format(prefix, a, prefix, k, rng.choice(('', '', ': part 2', ' (a:b)'))), 'box'))
                self.link_targets.append((pid, anchors))
                if rng.random() < 0.3:
                    paths[pid] = rpath(stem=pid.lower() + '.html')
        if rng.random() < 0.3:
            late_sections.append(('Changelog:20240101', 'changelog'))
            self.link_targets.append(('Changelog', ['20240101']))
        for k in range(rng.choice((0, 0, 1, 2))):
            pid = 'Custom{}'.format(k)
            pages.append(pid)
            self.link_targets.append((pid, []))
            if rng.random() < 0.5:
                paths[pid] = rpath(stem='custom{}.html'.format(k))
        custom_box = notes_type = None
        if rng.random() < 0.25:
            custom_box = 'Notes'
            if rng.random() < 0.3:
                notes_type = rng.choice(('ListItems', 'BulletPoints'))
                self.list_pages.add('Notes')
            note_ids = rng.choice((('n1', 'n2'), ('n1X', 'noteB')))
            self.link_targets.append(('Notes', list(note_ids)))
            for a in note_ids:
                late_sections.append(('Note:{}:Note {}'.format(a, a), 'list' if notes_type else 'box'))
            if rng.random() < 0.5:
                paths['Notes'] = rpath(stem='notes.html')
        if rng.random() < 0.3:
            ts = ''.join(sorted(set(rng.sample(CTLS, rng.choice((1, 2, 3))))))
            inc = [e.addr for e in main.entries if e.ctl != 'i' and rng.random() < 0.3]
            lines = ['EntryTypes=' + ts]
            if inc:
                lines.append('Includes=' + ','.join(map(str, inc)))
            if rng.random() < 0.5:
                lines.append('EntryDescriptions=1')
            if rng.random() < 0.5:
                lines.append('LabelColumn=1')
            ref.append(('MemoryMap:CustomMap', lines))
            listed = [str(e.addr) for e in main.entries if e.ctl != 'i' and (e.ctl in ts or e.addr in inc)]
            if listed:
                self.link_targets.append(('CustomMap', listed))
            if rng.random() < 0.5:
                paths['CustomMap'] = rpath(stem='cmap.html')
        if rng.random() < 0.15:
            ref.append(('MemoryMap:UnusedMap', ['Write=0']))
            self.link_targets = [t for t in self.link_targets if t[0] != 'UnusedMap']
        if rng.random() < 0.2:
            ref.append(('MemoryMap:MemoryMap', [rng.choice(('EntryDescriptions=1', 'LabelColumn=1', 'LengthColumn=1',
                                                           'Intro=Intro #LINK(GameIndex)(home)'))]))

        for c in self.codes:
            self.fill_operands(c)
        for c in self.codes:
            self.decorate(c)
        for c in self.codes:
            files['game.skool' if c is main else c.cid + '.skool'] = self.render_code(c)

        dummy = GEntry(0, 'c')      # collects the @remote directives needed by ref-file text
        for pid in pages:
            lines = []
            if rng.random() < 0.3:
                lines.append('JavaScript=' + rng.choice(('page.js', 'page.js;extra.js')))
                self.need_files['page.js'] = '// js\n'
                self.need_files['extra.js'] = '// js\n'
            lines.append('PageContent=' + self.text(main, dummy))
            ref.append(('Page:' + pid, lines))
        if custom_box:
            ref.append(('Page:Notes', ['SectionPrefix=Note'] + (['SectionType=' + notes_type] if notes_type else [])))
        for name, kind in late_sections:
            if kind == 'box':
                ref.append((name, [self.text(main, dummy), '', self.text(main, dummy)]))
            elif kind == 'list':
                ref.append((name, ['Intro ' + self.r_macro(main, dummy), '- Item ' + self.link_macro(), '- Item two']))
            else:
                ref.append((name, ['Intro text', '', 'Item ' + self.r_macro(main, dummy), '  Subitem ' + self.link_macro()]))
        if rng.random() < 0.25:
            ext = rng.choice(('ext', 'ext', 'Ext/Res'))
            ref.append(('Page:Existing', ['Content={}/existing.html'.format(ext)]))
            ref.append(('Resources', ['existing.html=' + ext]))
            self.need_files['existing.html'] = '<html><body><span id="top"></span></body></html>\n'
            if rng.random() < 0.5:
                ref.append(('Index:Reference:Reference', ['Existing', 'Bugs', 'Facts', 'Pokes', 'Glossary', 'Changelog']))
        if rng.random() < 0.3:
            game['Logo'] = rng.choice(('#SCR1,0,0,4,1(/logo)', '#UDG15616(logo)', '#UDG15616({ImagePath}/logo)'))
        elif rng.random() < 0.15:
            pics = rng.choice(('pics', 'Pics'))
            game['LogoImage'] = pics + '/logo.png'
            ref.append(('Resources', ['logo.png=' + pics]))
            self.need_files['logo.png'] = 'PNG'
        if rng.random() < 0.2:
            game['JavaScript'] = rng.choice(('global.js', 'global.js;g2.js'))
            self.need_files['global.js'] = '// js\n'
            self.need_files['g2.js'] = '// js\n'
        if rng.random() < 0.15:
            game['StyleSheet'] = 'skoolkit.css;mine.css'
            self.need_files['mine.css'] = '/* css */\n'
        if rng.random() < 0.1:
            game['Font'] = 'spectrum.ttf'
            self.need_files['spectrum.ttf'] = 'TTF'
        if dummy.remotes:
            files['game.skool'] = '\n'.join(dummy.remotes) + '\n' + files['game.skool']
        if game:
            ref.append(('Game', ['{}={}'.format(k, v) for k, v in game.items()]))
        if paths:
            ref.append(('Paths', ['{}={}'.format(k, v) for k, v in paths.items()]))
        if rng.random() < 0.2:
            ref.append(('EntryGroups', ['Grp=' + ','.join(str(e.addr) for e in main.entries[:2])]))
            ref.append(('Titles', ['Asm-Grp=Group entry at {entry[address]}']))
            ref.append(('PageHeaders', ['Asm-Grp=Group']))
        merged, order = {}, []
        for name, lines in ref:
            if name not in merged:
                merged[name] = []
                order.append(name)
            merged[name].extend(lines)
        files['game.ref'] = '\n'.join('[{}]\n{}\n'.format(n, '\n'.join(merged[n])) for n in order)
        files.update(self.need_files)

        argv = []
        if single_via_option:
            argv.append('-1')
        if rng.random() < 0.4:
            argv.append('-a')
        if rng.random() < 0.3:
            argv.append('-C')
        b = rng.random()
        if b < 0.25:
            argv.append('-H')
        elif b < 0.5:
            argv.append('-D')
        c = rng.random()
        if c < 0.2:
            argv.append('-l')
        elif c < 0.4:
            argv.append('-u')
        if rng.random() < 0.2:
            argv.append('-o')
        if rng.random() < 0.12:
            # themes: skoolkit-<theme>.css ships with SkoolKit; <theme>.css and <sheet>-<theme>.css exist only sometimes
            themes = rng.choice((['dark'], ['dark'], ['dark', 'wide'], ['green']))
            for t in themes:
                argv += ['-T', t]
            if rng.random() < 0.5:
                files[themes[0] + '.css'] = '/* theme */\n'
            if 'mine.css' in files and rng.random() < 0.6:
                files['mine-{}.css'.format(themes[-1])] = '/* themed */\n'
        if rng.random() < 0.1 and 'StyleSheetPath' not in paths:
            argv += ['-j', 'all.css']
        if rng.random() < 0.15:
            argv += ['-c', 'Game/Copyright=(c) <a href="https://example.com/">me</a>']
        meta = {'single': single, 'anchor': anchor_fmt, 'codes': len(self.codes),
                'entries': sum(len(c.entries) for c in self.codes), 'paths': sorted(paths)}
        return {'files': files, 'skool': 'game.skool', 'argv': argv, 'meta': meta}


def w_partition(rng):
    """A random ordered partition of the -w letters into 1..3 runs into the same output directory;
    the index comes last (write_index only lists the files that already exist)."""
    letters = list('dmoP')
    rng.shuffle(letters)
    runs = [[] for _ in range(rng.choice((1, 1, 2, 3)))]
    for l in letters:
        rng.choice(runs).append(l)
    runs = [''.join(r) for r in runs if r]
    runs[-1] += 'i'
    return runs


# --------------------------------------------------------------------------------------------
# Running skool2html in-process with instrumentation (no edits under /repo)
# --------------------------------------------------------------------------------------------

class Mods:
    def __init__(self):
        (self.skool2html, self.skoolhtml, self.skoolparser, self.skoolkit) = fresh_import(
            'skoolkit.skool2html', 'skoolkit.skoolhtml', 'skoolkit.skoolparser', 'skoolkit')


class Result:
    def __init__(self):
        self.opens = []         # (run number, normalised absolute path, mode)
        self.writes = []        # (run number, code id, include, fname as passed to write_file)
        self.writers = {}       # code id -> HtmlWriter (latest)
        self.errors = []        # (kind, text)
        self.out = None


def run_project(mods, proj, root, runs):
    """Write the project's files under root/src and run skool2html.main once per element of
    `runs` (values of -w) with output directory root/out."""
    src = os.path.join(root, 'src')
    out = os.path.join(root, 'out')
    os.makedirs(src)
    for name, text in proj['files'].items():
        with open(os.path.join(src, name), 'w') as f:
            f.write(text)
    res = Result()
    res.out = os.path.join(out, 'game')
    sh, s2h = mods.skoolhtml, mods.skool2html
    orig_open, orig_write, orig_clone, orig_wd = sh.FileInfo.open_file, sh.HtmlWriter.write_file, sh.HtmlWriter.clone, s2h.write_disassembly
    run_no = [0]

    def open_file(self, *names, mode='w'):
        path = self.odir
        for n in names:
            path = sh.join(path, n)
        res.opens.append((run_no[0], os.path.normpath(os.path.abspath(path)), mode))
        return orig_open(self, *names, mode=mode)

    def write_file(self, fname, contents):
        res.writes.append((run_no[0], self.code_id, self.skoolkit.get('include'), fname))
        return orig_write(self, fname, contents)

    def clone(self, skool_parser, code_id):
        w = orig_clone(self, skool_parser, code_id)
        res.writers[code_id] = w
        return w

    def write_disassembly(html_writer, *args, **kwargs):
        res.writers[html_writer.code_id] = html_writer
        return orig_wd(html_writer, *args, **kwargs)

    sh.FileInfo.open_file, sh.HtmlWriter.write_file, sh.HtmlWriter.clone, s2h.write_disassembly = open_file, write_file, clone, write_disassembly
    try:
        for w in runs:
            argv = ['-q', '-d', out, '-w', w] + proj['argv'] + [os.path.join(src, proj['skool'])]
            buf = io.StringIO()
            try:
                with contextlib.redirect_stdout(buf), contextlib.redirect_stderr(buf):
                    s2h.main(argv)
            except mods.skoolkit.SkoolKitError as e:
                res.errors.append(('rejected', str(e)[:300]))
            except SystemExit as e:
                res.errors.append(('exit', str(e)[:100] + buf.getvalue()[-200:]))
            except Exception as e:                     # a crash of the tool on legitimate input
                res.errors.append(('crash', '{}: {}'.format(type(e).__name__, str(e)[:300])))
            run_no[0] += 1
    finally:
        sh.FileInfo.open_file, sh.HtmlWriter.write_file, sh.HtmlWriter.clone, s2h.write_disassembly = orig_open, orig_write, orig_clone, orig_wd
    return res


@contextlib.contextmanager
def deep_cwd(scratch):
    """posixpath.relpath depends on os.getcwd(); work in a deep directory so that no generated
    '..' reaches the file-system root."""
    d = os.path.join(scratch, 'cwd', 'w1', 'w2', 'w3')
    os.makedirs(d, exist_ok=True)
    old = os.getcwd()
    os.chdir(d)
    try:
        yield d
    finally:
        os.chdir(old)


# --------------------------------------------------------------------------------------------
# The property on the real output tree
# --------------------------------------------------------------------------------------------

def rel_of(path):
    return posixpath.normpath(path)


STRUCTURAL = ('instruction', 'prev', 'next', 'up', 'logo', 'index-list', 'contents', 'map-label', 'map-entry', 'map-entry-title')


def link_key(problem, include, ctx, tag, url):
    if include == 'asm_single_page' and ctx == 'instruction' and url.startswith('#') and problem == 'missing-fragment':
        return KEY_SINGLE_REMOTE
    if tag != 'a':
        ctx = tag                      # link (CSS), script, img, audio
    else:
        ctx = re.sub(r'^map-[bcgstuw]$', 'map-entry', ctx or '')
        if ctx not in STRUCTURAL:
            ctx = 'text'               # a hyperlink produced by a macro in some text
    return '{}:{}:{}'.format(problem, include or 'page', ctx)


def check_tree(mods, res):
    """Evaluate C16 on the files the real tools wrote.  Returns (violations, stats) where a
    violation is (key, description)."""
    fails = []
    stats = {'refs': 0, 'external': 0, 'frag': 0, 'pages': 0, 'anchors': 0}
    include_of = {}
    for _run, _cid, include, fname in res.writes:
        include_of[rel_of(fname)] = include
    tree = linkcrawl.Tree(res.out, html=include_of)
    stats['pages'] = len(tree.html)
    for page, tag, attr, url, ctx, problem in tree.crawl():
        stats['refs'] += 1
        if problem == 'external':
            stats['external'] += 1
            continue
        if '#' in url:
            stats['frag'] += 1
        if problem:
            key = link_key(problem, include_of.get(page), ctx, tag, url)
            fails.append((key, '{}: <{} {}="{}"> in {} ({})'.format(problem, tag, attr, url, page, ctx or '-')))
    # no path written twice within one run
    seen = {}
    for run, path, mode in res.opens:
        k = (run, path)
        if k in seen:
            kind = 'html' if mode == 'w' else 'asset'
            fails.append(('path-written-twice:' + kind, 'written twice in one run: ' + os.path.relpath(path, res.out)))
        seen[k] = mode
    # every linkable instruction has its anchor, in exactly the page of its entry, shared with nobody
    for cid, w in res.writers.items():
        by_page = {}
        try:
            for entry in w.memory_map:
                if w.asm_single_page:
                    page = rel_of(w.paths[w._get_asm_page_id(w.code_id)])
                else:
                    page = rel_of(mods.skoolhtml.join(w.code_path, w.asm_fname(entry.address)))
                for k, ins in enumerate(entry.instructions):
                    if ins.address is None:
                        continue
                    expected = 1 + int(bool(ins.mid_block_comment)) + int(w.asm_single_page and k == 0)
                    by_page.setdefault(page, []).append((ins.address, w.asm_anchor(ins.address), expected))
        except Exception as e:
            fails.append(('anchor-naming-raises-' + type(e).__name__, 'asm_fname / asm_anchor / paths of the {} writer raise {}: {}'.format(cid, type(e).__name__, e)))
            continue
        for page, items in by_page.items():
            if page not in tree.files:
                continue              # (a run that did not write this disassembly)
            ids = tree.ids(page)
            owners = {}
            for addr, anchor, expected in items:
                stats['anchors'] += 1
                n = ids.get(anchor, 0)
                if n == 0:
                    fails.append(('anchor-missing', 'no id="{}" for address {} in {}'.format(anchor, addr, page)))
                elif n > expected:
                    fails.append(('anchor-duplicated', 'id="{}" occurs {} times (expected {}) in {}'.format(anchor, n, expected, page)))
                if owners.setdefault(anchor, addr) != addr:
                    fails.append(('anchor-shared', 'id="{}" stands for {} and {} in {}'.format(anchor, owners[anchor], addr, page)))
    return fails, stats


def stopped_tree_fails(mods, res):
    """skool2html stopped with an error on generated (legitimate) input: dead links in the tree written so far."""
    if not res.errors or not os.path.isdir(res.out):
        return []
    kind, text = res.errors[0]
    what = text.split(':')[0].split()[0] if kind == 'crash' and text else kind
    fails, _ = check_tree(mods, res)
    return [('tool-stopped-{}:{}'.format(what, key), '{} (skool2html stopped: {})'.format(desc, text[:120])) for key, desc in fails]


def check_subset_tree(mods, res):
    """A run that writes only a strict subset of the file kinds (-w): hyperlinks to pages of the kinds left
    out are dead by design, but (a) every asset reference (style sheet, script, image, audio) of every page
    written must resolve, (b) the index page only lists files that exist (write_index asks the file system),
    (c) a hyperlink to a file that was written must name an id that exists there."""
    fails = []
    include_of = {}
    for _run, _cid, include, fname in res.writes:
        include_of[rel_of(fname)] = include
    tree = linkcrawl.Tree(res.out, html=include_of)
    main = res.writers.get('main')
    index = rel_of(main.paths['GameIndex']) if main else None
    n = 0
    for page, tag, attr, url, ctx, problem in tree.crawl():
        n += 1
        if not problem or problem == 'external':
            continue
        if tag != 'a' or page == index or problem == 'missing-fragment':
            fails.append(('subset:' + link_key(problem, include_of.get(page), ctx, tag, url),
                          '{}: <{} {}="{}"> in {} ({})'.format(problem, tag, attr, url, page, ctx or '-')))
    return fails, n


W_SUBSETS = ('i', 'di', 'mi', 'Pi', 'oi', 'dmi', 'dPi', 'moi', 'dmPi', 'dmoi', 'mPoi', 'd', 'o', 'P', 'dm')


# --------------------------------------------------------------------------------------------
# Correspondence 1: path functions
# --------------------------------------------------------------------------------------------

PCOMPS = ('', '.', '..', 'a', 'b', 'asm', 'x.html', '...', 'A')


def path_ops(chk, mods):
    rng = chk.rng
    ops, impl = [], []

    def add(tag, op, f, nontrivial=True):
        ops.append(op)
        try:
            impl.append('ok =' + f())
        except ValueError:
            impl.append('err noPath')
        except Exception as e:
            impl.append('err ' + type(e).__name__)
        chk.case(tag, (op,) if nontrivial else None)

    for n in range(1, chk.scale(5, 7)):
        for t in itertools.product(('', '.', '..', 'a', 'b'), repeat=n):
            p = '/'.join(t)
            add('normpath-exh', 'normpath =' + p, lambda: posixpath.normpath(p), '..' in t or '' in t or '.' in t)
            add('dirname-exh', 'dirname =' + p, lambda: os.path.dirname(p))
            add('basename-exh', 'basename =' + p, lambda: os.path.basename(p))

    def rpath():
        return '/'.join(rng.choice(PCOMPS) for _ in range(rng.choice((1, 1, 2, 2, 3, 4, 6))))

    def clean():
        return '/'.join(rng.choice(('a', 'b', 'asm', 'maps', 'x.html')) for _ in range(rng.choice((1, 1, 2, 3))))

    w = mods.skoolhtml.HtmlWriter.__new__(mods.skoolhtml.HtmlWriter)      # relpath() uses no state
    real_getcwd = os.getcwd
    try:
        for k in range(chk.scale(6000, 60000)):
            p, q = (rpath(), rpath()) if k % 3 else (clean(), rng.choice(('', clean())))
            add('pjoin', 'pjoin ={} ={}'.format(p, q), lambda: posixpath.join(p, q))
            cs = [rpath() for _ in range(rng.choice((1, 2, 3)))]
            add('join', 'join ' + ' '.join('=' + c for c in cs), lambda: mods.skoolhtml.join(*cs))
            base = '/' + '/'.join(rng.choice(('h', 'u', 'a', 'b')) for _ in range(rng.choice((0, 1, 2, 3, 5))))
            os.getcwd = lambda: base
            add('abspath', 'abspath ={} ={}'.format(base, p), lambda: posixpath.abspath(p))
            add('relpath', 'relpath ={} ={} ={}'.format(base, p, q), lambda: w.relpath(q, p))
            # the round trip itself on the real functions (theorem relpath_resolves)
            if p and not p.startswith('/') and not q.startswith('/'):
                r = posixpath.relpath(p, q)
                if posixpath.abspath(posixpath.join(q, r)) != posixpath.abspath(p):
                    chk.violation('relpath-does-not-resolve', 'abspath(join(start, relpath(path, start))) != abspath(path)',
                                  {'kind': 'relpath', 'base': base, 'path': p, 'start': q})
                ops.append('rfc ={} ={}'.format(posixpath.abspath(q).lstrip('/'), r))
                impl.append('ok =' + posixpath.abspath(p).lstrip('/'))
                chk.case('rfc', None)
    finally:
        os.getcwd = real_getcwd
    return ops, impl


# --------------------------------------------------------------------------------------------
# Correspondence 2: the abstract site vs the real HtmlWriter objects of a run
# --------------------------------------------------------------------------------------------

KINDS = (('CALL', 'call'), ('DEFW', 'defw'), ('DJNZ', 'djnz'), ('JP', 'jp'), ('JR', 'jr'), ('LD ', 'ld'), ('RST', 'rst'))


def operand_of(mods, instruction):
    """(kind, address) exactly when calculate_references looks the operand up (its own helpers decide)."""
    sp = mods.skoolparser
    operation = instruction.operation.upper()
    if operation.startswith(('CALL', 'DEFW', 'DJNZ', 'JP', 'JR', 'LD ', 'RST')) and not sp._is_8_bit_ld_instruction(operation):
        addr_str = sp.get_address(instruction.operation)
        if addr_str:
            address = sp.parse_int(addr_str)
            if address is not None and (instruction.keep is None or (instruction.keep and address not in instruction.keep)):
                for prefix, kind in KINDS:
                    if operation.startswith(prefix):
                        return kind, address
    return None


def p_(s):
    return '=' + s


def site_lines(mods, res, base):
    """Describe the parsed site of a run to the Lean driver.  Returns (lines, order of code ids)
    or None when the run has no usable writers."""
    main = res.writers.get('main')
    if main is None:
        return None
    order = ['main'] + [cid for cid, _ in main.other_code if cid in res.writers]
    if len(order) != 1 + len(main.other_code):
        return None
    kinds = [k for prefix, k in KINDS if any(prefix.strip().startswith(t) for t in main.link_operands if t)]
    lines = ['site {} ={} main {} {} {}'.format(int(main.asm_single_page), base, int(main.link_internal_operands),
                                               main.lio_min_distance, ','.join(kinds) or '-')]
    addrs = set()
    other_index = {code['IndexPageId'] for _cid, code in main.other_code}
    for cid in order:
        w = res.writers[cid]
        if cid == 'main':
            single_id, map_id = 'AsmSinglePage', 'MemoryMap'
        else:
            code = dict(main.other_code)[cid]
            single_id, map_id = code['AsmSinglePageId'], code['IndexPageId']
        lines.append('code {} {} {} {}'.format(cid, p_(w.code_path), p_(main.paths[single_id]), p_(main.paths[map_id])))
        labels = []
        for e in w.parser.memory_map:
            toks = []
            for ins in e.instructions:
                if ins.address is None:
                    continue
                addrs.add(ins.address)
                od = operand_of(mods, ins)
                toks.append('{}:{}:{}'.format(ins.address, od[0], od[1]) if od else str(ins.address))
                if w.parser.get_asm_label(ins.address):
                    labels.append(ins.address)
            lines.append('entry {} {} {}'.format(ord(e.ctl), e.address, ' '.join(toks)))
        for r in w.parser._remote_entries:
            ias = [i.address for i in r.instructions if i.address is not None]
            addrs.update(ias)
            lines.append('remote {} {} {}'.format(r.asm_id, r.address, ' '.join(map(str, ias))))
        if labels:
            lines.append('label ' + ' '.join(map(str, sorted(set(labels)))))
        if cid == 'main':
            for name, d in w.memory_maps.items():
                if name in other_index or name not in w.paths:
                    continue
                lines.append('map {} {} 0 {} {}'.format(p_(w.paths[name]), d.get('EntryTypes', '') or '-',
                                                        int(d.get('Write') != '0'), ' '.join(map(str, d.get('Includes', ())))))
        else:
            d = w.memory_maps.get(map_id, {})
            lines.append('map {} {} 1 1 {}'.format(p_(w.paths[map_id]), d.get('EntryTypes', '') or '-',
                                                   ' '.join(map(str, d.get('Includes', ())))))
    return lines, order, addrs


HREF_RE = re.compile(r'<a href="([^"]*)"')


def canon_exc(mods, f):
    try:
        return 'ok ' + f()
    except mods.skoolkit.SkoolParsingError as e:
        return 'err notFound' if 'Address not found' in str(e) else 'err parse'
    except mods.skoolkit.SkoolKitError as e:
        return 'err noCode' if 'Cannot find code path' in str(e) else 'err skoolkit'
    except KeyError:
        return 'err keyError'
    except ValueError:
        return 'err relErr'
    except Exception as e:           # any other exception of the real code: a difference from the model
        return 'err ' + type(e).__name__


def site_queries(chk, mods, res, order, addrs, legit=True):
    """(ops, impl): queries answered by the real writers of the run."""
    rng = chk.rng
    ops, impl = [], []
    used = set(addrs)
    main = res.writers['main']
    dirs = {'', 'asm', 'maps', 'a/b/c', './x', 'p//q/', 'reference'}
    for cid in order:
        w = res.writers[cid]
        dirs.add(w.code_path)
        dirs.add(os.path.dirname(main.paths['MemoryMap']))
    dirs = sorted(dirs)
    all_local = {cid: [i.address for e in res.writers[cid].parser.memory_map for i in e.instructions if i.address is not None]
                 for cid in order}
    everything = sorted(addrs) or [0]
    if legit:
        # the generated site meets the hypothesis WF of the site theorems
        ops.append('q wf')
        impl.append('ok true')
    for ci, cid in enumerate(order):
        w = res.writers[cid]
        cwd_own = w.code_path if not w.asm_single_page else os.path.dirname(w.paths[w._get_asm_page_id(w.code_id)])
        # 1. _asm_relpath and #R from various directories
        for _ in range(6):
            cwd = rng.choice(dirs)
            a = rng.choice(everything + [rng.randrange(65536)])
            code = rng.choice(['-', '-', '-'] + order + ['zz', order[-1].upper(), 'MAIN'])
            used.add(a)
            ops.append('q asmrel {} {} {} {}'.format(ci, p_(cwd), a, code))
            impl.append(canon_exc(mods, lambda: w._asm_relpath(cwd, a, None if code == '-' else code)))
            chk.case('asmrel', ('asmrel', cwd, code, w.asm_single_page))
        for _ in range(10):
            cwd = rng.choice(dirs)
            code = rng.choice(['-', '-', '-', '-'] + order + ['zz', order[-1].upper(), 'Main'])
            pool = all_local[cid] if code == '-' else all_local.get(code, everything)
            a = rng.choice((pool or everything) + everything[:3] + [rng.randrange(65536)])
            cont = w.parser.get_container(a, '' if code == '-' else code)
            used.add(a)
            anchor = rng.choice(['-', '-', '-', str(cont.address if cont else a), str(a), str(a + 1)])
            macro = '#R{}{}{}'.format(a, '' if code == '-' else '@' + code, '' if anchor == '-' else '#' + anchor)
            ops.append('q r {} {} {} {} {}'.format(ci, p_(cwd), a, code, anchor))

            def expand_r():
                m = HREF_RE.search(w.expand(macro, cwd))
                return m.group(1)
            impl.append(canon_exc(mods, expand_r))
            chk.case('r-macro-' + ('ok' if impl[-1].startswith('ok') else impl[-1].split()[-1]),
                     ('r', code, anchor != '-', bool(cont), w.asm_single_page, impl[-1][:3]))
        # 2. operand references and hyperlinks, entry and map hrefs, as the asm pages contain them
        map_file = main.paths['MemoryMap'] if cid == 'main' else w.paths[dict(main.other_code)[cid]['IndexPageId']]
        for index, entry in enumerate(w.memory_map):
            try:
                ed = w._get_asm_entry(cwd_own, index, map_file)
            except Exception as e:           # reported by the e2e part if it matters
                continue
            ops.append('q entryhref {} {} {}'.format(ci, p_(cwd_own), entry.address))
            impl.append('ok ' + ed['href'])
            ops.append('q maphref {} {} {}'.format(ci, p_(cwd_own), entry.address))
            impl.append('ok ' + ed['map_href'])
            chk.case('entry-href', None)
            real = [i for i in entry.instructions]
            for ins, idict in zip(real, ed['instructions']):
                if ins.address is None:
                    continue
                od = operand_of(mods, ins)
                if not od:
                    continue
                ref = ins.reference
                ops.append('q ref {} {} {}'.format(ci, od[0], od[1]))
                impl.append('ok {} {} {}'.format(ref.entry.address, ref.entry.asm_id or '-', ref.address) if ref else 'none')
                m = HREF_RE.search(idict['operation'])
                ops.append('q op {} {} {} {} {} {}'.format(ci, p_(cwd_own), entry.address, ins.address, od[0], od[1]))
                impl.append('ok ' + m.group(1) if m else 'none')
                chk.case('operand', ('op', od[0], bool(ref), bool(m), bool(ref and ref.entry.asm_id), w.asm_single_page))
        if not legit:
            continue
        # 3. the files this writer wrote and the ids they define
        ops.append('q pages {}'.format(ci))
        impl.append(cid)        # placeholder, canonicalised by the caller
        ops.append('q links {}'.format(ci))
        impl.append(cid)
    return ops, impl, used


def canon_pages(text):
    """'ok path|a,b;path|c' -> sorted pages with sorted, de-duplicated anchors."""
    if not text.startswith('ok'):
        return text
    pages = []
    for item in text[3:].split(';'):
        if not item:
            continue
        path, _, anchors = item.partition('|')
        pages.append(rel_of(path) + '|' + ','.join(sorted(set(a for a in anchors.split(',') if a))))
    return 'ok ' + ';'.join(sorted(pages))


def real_pages(res, cid):
    tree_ids = {}
    pages = set()
    for _run, code_id, include, fname in res.writes:
        if code_id == cid and include in ('asm', 'asm_single_page', 'memory_map'):
            rel = rel_of(fname)
            if rel not in tree_ids:
                try:
                    tree_ids[rel] = linkcrawl.parse_page(os.path.join(res.out, rel)).ids
                except OSError:
                    tree_ids[rel] = {}
            pages.add(rel + '|' + ','.join(sorted(tree_ids[rel])))
    return 'ok ' + ';'.join(sorted(pages))


STRUCT_KIND = {'prev': 'prev', 'next': 'next', 'up': 'up', 'instruction': 'operand'}


def canon_links(text):
    """'ok page|kind|href;...' -> sorted set with normalised page paths."""
    if not text.startswith('ok'):
        return text
    links = set()
    for item in text[3:].split(';'):
        if item:
            page, kind, href = item.split('|', 2)
            links.add('{}|{}|{}'.format(rel_of(page), kind, href))
    return 'ok ' + ';'.join(sorted(links))


def real_links(res, cid):
    """The structural links (Prev/Up/Next, hyperlinked operands, memory-map entry links) of the
    disassembly and map pages that the writer of `cid` wrote, read back from the HTML files."""
    links = set()
    done = set()
    for _run, code_id, include, fname in res.writes:
        rel = rel_of(fname)
        if code_id != cid or include not in ('asm', 'asm_single_page', 'memory_map') or rel in done:
            continue
        done.add(rel)
        try:
            refs = linkcrawl.parse_page(os.path.join(res.out, rel)).refs
        except OSError:
            continue
        for tag, _attr, url, ctx in refs:
            if tag != 'a':
                continue
            if include == 'memory_map':
                kind = 'mapEntry' if re.match(r'map-[bcgstuw]$', ctx or '') else None
            else:
                kind = STRUCT_KIND.get(ctx)
            if kind:
                links.add('{}|{}|{}'.format(rel, kind, url))
    return 'ok ' + ';'.join(sorted(links))


# --------------------------------------------------------------------------------------------

ODD_MAIN = """@remote=other:40001,40002
@remote=other:40000,40002
@remote=nocode:50000
@remote=OTHER:40004
; Routine with an address that a later entry repeats
c32768 CALL 32770
 32770 JP 40002
 32773 CALL 40004
 32776 LD HL,32780
 32779 JR 32771

; Entry whose first address is inside the previous entry
c32770 RET
@label=INNER
 32771 JP 32768

; Ignored block that a @remote also declares
@remote=other:32780
i32780 DEFB 0

; Data
@remote=c2:45000,45001
@remote=c2:45001
w32790 DEFW 45001
 32792 DEFW 32780

; A reference to an unknown disassembly
w32800 DEFW 50000
"""
ODD_OTHER = """; Other
@remote=main:32768,32770
@remote=main:32771
c40000 RET
 40001 JP 32770
 40004 CALL 32771
"""
ODD_C2 = """; Second
b45000 DEFB 1
 45001 DEFB 2
"""


def fixed_projects():
    """Hand-written legitimate projects checked on every run: the regression input of the defect
    fixed in /repo (operand link to a @remote entry in single-page mode), in both page modes and
    with a non-default anchor format."""
    skool = ('@remote=other:40000,40002\n; Routine\nc32768 CALL 40000 ; #R40002@other\n 32771 JP 40002\n'
             ' 32774 JR 32768\n\n; Data\nw32776 DEFW 40000\n')
    other = '@remote=main:32768,32774\n; Other routine\nc40000 CALL 32774\n*40002 RET\n'
    for argv, game in ((['-1'], ''), ([], ''), (['-1', '-H'], 'AddressAnchor={address:04x}\nLinkInternalOperands=1\n'),
                       (['-l'], 'AddressAnchor=L{address:X}\nLinkOperands=CALL,DEFW,JP,JR\n')):
        ref = '[OtherCode:other]\n' + ('[Game]\n' + game if game else '')
        yield {'files': {'game.skool': skool, 'other.skool': other, 'game.ref': ref}, 'skool': 'game.skool', 'argv': argv,
               'meta': {'single': '-1' in argv, 'anchor': 'fixed', 'codes': 2, 'entries': 3, 'paths': []}}


def odd_projects():
    """Malformed sites (duplicate instruction addresses, untruthful / unknown / shadowed @remote
    declarations): not legitimate input, so no link check, but the model must still agree with
    the real functions (first match in get_container, last match in calculate_references, error
    branches)."""
    for argv, extra in (([], ''), (['-1'], ''), (['-a'], '[Game]\nLinkOperands=CALL,DEFW,JP,JR,LD\nLinkInternalOperands=1\n')):
        ref = '[OtherCode:other]\n[OtherCode:c2]\n' + extra
        yield {'files': {'game.skool': ODD_MAIN, 'other.skool': ODD_OTHER, 'c2.skool': ODD_C2, 'game.ref': ref},
               'skool': 'game.skool', 'argv': argv, 'meta': {'single': '-1' in argv, 'codes': 3, 'odd': True}}


def flavours(chk, n):
    """Deterministic sweep first (single x number of other codes), then random."""
    if n < 6:
        return {'single': bool(n % 2), 'n_other': n // 2}
    return None


def explore(chk, mods):
    rng = chk.rng
    n_proj = chk.scale(220, 4500)
    all_ops, all_impl = [], []
    page_checks = []            # (index into all_ops, result, cid)
    rejected = crashed = 0
    tot = {'refs': 0, 'external': 0, 'frag': 0, 'pages': 0, 'anchors': 0}
    with deep_cwd(chk.scratch) as cwd:
        base = cwd
        for k, proj in enumerate(odd_projects()):
            root = os.path.join(chk.scratch, 'odd{}'.format(k))
            res = run_project(mods, proj, root, ['o', 'dmPi'])
            chk.case('site-odd', ('odd', k))
            try:
                sl = site_lines(mods, res, base)
                if sl is None:
                    chk.breaks.append({'kind': 'correspondence', 'name': 'odd project {}'.format(k),
                                       'detail': 'no writers captured: {}'.format(res.errors)})
                else:
                    lines, order, addrs = sl
                    ops, impl, used = site_queries(chk, mods, res, order, addrs, legit=False)
                    w = res.writers['main']
                    fmts = ['fmt {} {} {}'.format(a, w.asm_fname(a), w.asm_anchor(a)) for a in sorted(used)]
                    all_ops.extend(lines + fmts + ops)
                    all_impl.extend(['ok'] * (len(lines) + len(fmts)) + impl)
            except Exception as e:
                chk.breaks.append({'kind': 'correspondence', 'name': 'odd project {}: the real HtmlWriter raised {}'.format(k, type(e).__name__),
                                   'detail': traceback.format_exc()[-1500:]})
            shutil.rmtree(root, ignore_errors=True)
        fixed = list(fixed_projects())
        for n in range(-len(fixed), n_proj):
            if n < 0:
                proj, runs = fixed[n], ['dmoPi']
            else:
                proj = ProjectGen(rng, flavours(chk, n)).build()
                runs = w_partition(rng)
            root = os.path.join(chk.scratch, 'p{}'.format(n % 1000003))
            res = run_project(mods, proj, root, runs)
            meta = proj['meta']
            tag = 'site-{}-{}codes'.format('single' if meta['single'] else 'multi', meta['codes'])
            if res.errors:
                kinds = {k for k, _ in res.errors}
                if 'crash' in kinds:
                    crashed += 1
                    chk.note('tool crashed on generated input: ' + res.errors[0][1][:200])
                else:
                    rejected += 1
                    chk.note('tool rejected generated input: ' + res.errors[0][1][:200])
                chk.case(tag + '-error', None)
                # the tool stopped part-way: the tree it has written so far is what the property speaks about
                for key, desc in stopped_tree_fails(mods, res):
                    chk.violation(key, desc, {'kind': 'e2e', 'files': proj['files'], 'skool': proj['skool'],
                                              'argv': proj['argv'], 'runs': runs, 'key': key})
                shutil.rmtree(root, ignore_errors=True)
                continue
            fails, stats = check_tree(mods, res)
            for k in tot:
                tot[k] += stats[k]
            chk.case(tag, ('e2e', n, tuple(proj['argv']), tuple(runs)),
                     {'argv': proj['argv'], 'runs': runs, 'meta': meta, 'refs': stats['refs'], 'pages': stats['pages']})
            for key, desc in fails:
                chk.violation(key, desc, {'kind': 'e2e', 'files': proj['files'], 'skool': proj['skool'],
                                          'argv': proj['argv'], 'runs': runs, 'key': key})
            # the same project written with a strict subset of -w into a fresh directory
            if n >= 0 and n % 4 == 1:
                sub = W_SUBSETS[(n // 4) % len(W_SUBSETS)]
                sroot = os.path.join(chk.scratch, 's{}'.format(n % 1000003))
                sres = run_project(mods, proj, sroot, [sub])
                if not sres.errors:
                    sfails, nrefs = check_subset_tree(mods, sres)
                    chk.case('site-subset-w', ('subset', n, sub), {'argv': proj['argv'], 'runs': [sub], 'refs': nrefs})
                    for key, desc in sfails:
                        chk.violation(key, desc + ' [-w {}]'.format(sub), {'kind': 'e2e', 'files': proj['files'], 'skool': proj['skool'],
                                                                          'argv': proj['argv'], 'runs': [sub], 'key': key, 'subset': True})
                shutil.rmtree(sroot, ignore_errors=True)
            # site correspondence on the same run
            if n < 0 or n % chk.scale(1, 3) == 0:
                try:
                    sl = site_lines(mods, res, base)
                    if sl:
                        lines, order, addrs = sl
                        ops, impl, used = site_queries(chk, mods, res, order, addrs)
                        w = res.writers['main']
                        fmts = ['fmt {} {} {}'.format(a, w.asm_fname(a), w.asm_anchor(a)) for a in sorted(used)]
                        for k, (o, i) in enumerate(zip(ops, impl)):
                            if o.startswith('q pages'):
                                impl[k] = real_pages(res, i)
                            elif o.startswith('q links'):
                                impl[k] = real_links(res, i)
                        all_ops.extend(lines + fmts + ops)
                        all_impl.extend(['ok'] * (len(lines) + len(fmts)) + impl)
                except Exception as e:
                    # the real writer raised where the site model is queried: a difference from the model, not a
                    # failure of the check (the crawl above is the search for a concrete input)
                    if len(chk.breaks) < 5:
                        chk.breaks.append({'kind': 'correspondence', 'name': 'site queries: the real HtmlWriter raised ' + type(e).__name__,
                                           'detail': traceback.format_exc()[-1500:]})
            shutil.rmtree(root, ignore_errors=True)
    chk.extra['e2e_totals'] = dict(tot, projects=n_proj, rejected=rejected, crashed=crashed)
    chk.extra['not_generated'] = list(NOT_GENERATED)
    return all_ops, all_impl


def run(chk):
    chk.rule = ('paths: all strings over {"", ".", "..", a, b} up to 4 (quick) / 6 (thorough) components + random strings with '
                'repeated slashes, dots, absolute prefixes, random working directories (depth 0..5); sites: 4 hand-written '
                'regression projects + generated skool + ref projects (1..3 disassemblies with disjoint or overlapping address '
                'ranges, entries of every type incl. ignored, entry points, labels, @keep, @remote, CALL/JP/JR/DJNZ/RST/LD/DEFW '
                'operands addressing instructions / mid-instruction / remote / nothing, #R with code ids and anchors, #LINK, image '
                'and audio macros, #LIST/#TABLE, box and list pages, custom pages/maps, [Paths] overrides incl. "./x", "x//y", "x/", '
                'AddressAnchor, CodeFiles, LinkOperands, LinkInternalOperands[MinDistance], EntryGroups, Logo, JavaScript, extra '
                'style sheets, [Resources]) x options (-1 -a -C -D -H -l -u -o -T -j -c, random ordered partitions of -w into 1..3 '
                'runs; every fourth project also with one strict subset of -w into a fresh directory: asset references, the index '
                'page and fragments of links to files that exist must still resolve); mixed-case directory names and box-page '
                'anchors; 3 malformed sites (duplicate addresses, untruthful/unknown/shadowed @remote) for the model tie only; '
                'non-trivial = distinct (argv, -w partition, project) / distinct query shape; the first six generated projects '
                'sweep single-page x number of other disassemblies')
    chk.trusted += ['hand models lean/SkoolVerif/Model/PathAlg.lean and Model/HtmlSite.lean tied by correspondence (harness/props/c16.py)',
                    'skool parsing (entries, instructions, @remote, labels) is taken from the real SkoolParser objects',
                    'CPython posixpath/os.makedirs/html.parser; independent crawler harness/indep/linkcrawl.py']
    chk.assumptions += [
        'HTML templates, image/audio/CSS/JavaScript/font writing and copying, the index page, box pages and #LINK are covered by '
        'the end-to-end crawl only (not modelled)',
        'site theorems assume a well-formed site (explicit hypothesis WF: relative non-empty [Paths] values, distinct code ids, '
        'truthful @remote declarations, distinct instruction addresses, the Up map lists every entry)',
        'duplicate ids that the stock templates emit by design (mid-block comment rows, the entry <div> of a single page) are '
        'counted as one anchor',
    ]
    mods = Mods()
    ok = chk.lake_build([PROPS, 'SkoolVerif.Prelude.Proto'])
    chk.audit(PROPS)
    if chk.thorough and ok:
        chk.leanchecker([PROPS])
    ops, impl = path_ops(chk, mods)
    model = chk.run_driver('C16', ops)
    chk.compare('PathAlg model vs posixpath / skoolhtml.join / HtmlWriter.relpath', ops, impl, model)
    ops, impl = explore(chk, mods)
    model = chk.run_driver('C16', ops)
    if model is not None:
        model = [canon_pages(m) if o.startswith('q pages') else canon_links(m) if o.startswith('q links') else m
                 for o, m in zip(ops, model)]
    chk.compare('HtmlSite model vs HtmlWriter (_asm_relpath, #R, references, operand links, pages and ids)', ops, impl, model)


def replay(chk, data):
    mods = Mods()
    if data.get('kind') == 'relpath':
        real = os.getcwd
        os.getcwd = lambda: data['base']
        try:
            r = posixpath.relpath(data['path'], data['start'])
            return posixpath.abspath(posixpath.join(data['start'], r)) != posixpath.abspath(data['path'])
        finally:
            os.getcwd = real
    with deep_cwd(chk.scratch):
        res = run_project(mods, data, os.path.join(chk.scratch, 'replay'), data['runs'])
        if res.errors:
            print('tool errors:', res.errors)
            fails = stopped_tree_fails(mods, res)
        else:
            fails, _ = check_subset_tree(mods, res) if data.get('subset') else check_tree(mods, res)
    for key, desc in fails:
        print(key, desc)
    return any(key == data.get('key') for key, _ in fails) or (bool(fails) and 'key' not in data)
