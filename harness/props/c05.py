"""C05 — the Z80 simulators implement documented Z80 instruction semantics.

Theorems: lean/SkoolVerif/Props/C05.lean — (1) every flag/result table entry = bit-level spec,
(2) every dispatch slot = independent decoder (closure, tables, registers, length, T-states, R),
(3) one step of the simulator model = one step of the executable ISA semantics Spec/Z80Sem.lean,
over the models translated on every run from simtables.py / simulator.py.

Here: the translator tie (real simulators vs generated models, per slot), and the property itself
evaluated on the real code: the executable specification (Drivers/C05.lean) against the four real
simulators (Python/C, plain/contended) per slot on boundary-biased states and on whole programs;
the real simtables tuples and the ALU instructions of all four simulators against an independent
Python bit-level oracle (harness/indep/z80alu.py); the interpreter sweep of Drivers/AluCheck.lean."""
import simcheck
import simcorr
import simgen
from framework import fresh_import, sh, LEAN_DIR
from simcheck import t_bias, single_step, build_impls, guarded
from indep import z80alu

PROPS = 'SkoolVerif.Props.C05'
REG_NAMES = ('A', 'F', 'B', 'C', 'D', 'E', 'H', 'L', 'IXh', 'IXl', 'IYh', 'IYl', 'SP', 'SP2', 'I', 'R',
             "A'", "F'", "B'", "C'", "D'", "E'", "H'", "L'")
FIELD_NAMES = ('PC', 'T', 'IFF', 'IM', 'HALT', 'MEMPTR')
PFX_NUM = {'MAIN': 0, 'CB': 1, 'ED': 2, 'DD': 3, 'FD': 4, 'DDCB': 5, 'FDCB': 6}
EDGE16 = (0x0000, 0x0001, 0x00FF, 0x0100, 0x0FFF, 0x1000, 0x3FFF, 0x4000, 0x7FFF, 0x8000, 0x8001, 0xEFFF, 0xF000, 0xFFFE, 0xFFFF)
EDGE8 = (0x00, 0x01, 0x0F, 0x10, 0x7F, 0x80, 0x99, 0x9A, 0xF0, 0xFF)


# ---------------------------------------------------------------------------------------------
# states

def gen_state(rng, tbl, op):
    """simcorr.rand_state + extra bias towards the values the flag rules turn on (half-carry / sign /
    zero boundaries of 8- and 16-bit operands, B/BC = 0/1/2 for block and DJNZ, flag bytes)."""
    regs, fields, mem, ins, tracers = simcorr.rand_state(rng, tbl, op, t_bias=t_bias)
    k = rng.randrange(8)
    if k == 0:      # 16-bit arithmetic edges in HL and one of BC/DE/IX/IY/SP
        for hi, lo in ((6, 7), rng.choice(((2, 3), (4, 5), (8, 9), (10, 11)))):
            v = rng.choice(EDGE16)
            regs[hi], regs[lo] = v >> 8, v & 255
        regs[12] = rng.choice(EDGE16)
    elif k == 1:    # 8-bit edges in A and the operand registers
        for r in (0, 2, 3, 4, 5, 6, 7, 8, 9, 10, 11):
            if rng.random() < 0.6:
                regs[r] = rng.choice(EDGE8)
    elif k == 2:    # loop counters
        bc = rng.choice((0, 1, 2, 0x100, 0x101, 0xFFFF))
        regs[2], regs[3] = bc >> 8, bc & 255
    elif k == 3:    # flags
        regs[1] = rng.choice((0x00, 0xFF, 0x01, 0x40, 0x04, 0x80, 0x10, 0x02, 0x13, 0xD7, 0x28))
    if rng.random() < 0.3:
        # the byte a memory operand points at: edges too
        for hi, lo in ((6, 7), (8, 9), (10, 11)):
            a = regs[lo] + 256 * regs[hi]
            mem.setdefault(a, rng.choice(EDGE8))
    # C simulators attach the IN A,(n) reader whenever any reader is attached: use states every
    # implementation can be configured for, so that one spec run serves all four
    tracers[0] = 1 if (tracers[0] or tracers[1] or tracers[2]) else 0
    return regs, fields, mem, ins, tracers


def grid_states(rng, thorough):
    """Directed operand grids (every run): see simcheck.operand_grids, plus the interrupt-window edges of the three
    instructions that read the clock (HALT, LD A,I, LD A,R)."""
    yield from simcheck.operand_grids(rng, thorough)
    for tbl, op in simcheck.CLOCK_SLOTS:
        for st in simcheck.window_states(rng, tbl, op):
            st[4][0] = 1 if (st[4][0] or st[4][1] or st[4][2]) else 0
            yield (tbl, op), st


def split_line(line, mem):
    """-> (regs[24], fields[6], outs, ins, final memory diff) or None"""
    parts = simcorr.final_diff(line, mem).split(';')
    if len(parts) != 6:
        return None
    try:
        return (list(map(int, parts[0].split())), list(map(int, parts[1].split())), parts[2].split(),
                parts[3].split(), parts[4].split())
    except ValueError:
        return None


def diff_fields(impl, tbl, op, real, spec):
    """Names of the observables on which a real simulator and the specification differ, after the
    documented allowances for the contended simulators (C19 covers their T-states/MEMPTR)."""
    cmio = impl.endswith('cmio')
    rr, rf, ro, ri, rm = real
    sr, sf, so, si, sm = spec
    out = []
    if cmio and ((tbl == 'MAIN' and op == 0x76) or (tbl == 'ED' and op in (0x57, 0x5F))) and rf[1] != sf[1]:
        # HALT / LD A,I / LD A,R look at the clock *after* the contention delay: only comparable
        # when no delay was applied
        return out
    for i, (a, b) in enumerate(zip(rr, sr)):
        if i == 1 and cmio and tbl == 'CB' and op & 0xC7 == 0x46:
            a, b = a & 0xD7, b & 0xD7        # BIT n,(HL): bits 5/3 come from MEMPTR there
        if a != b:
            out.append(REG_NAMES[i])
    for i, (a, b) in enumerate(zip(rf, sf)):
        if cmio and i in (1, 5):
            continue
        if not cmio and i == 5:
            continue                         # MEMPTR is not part of the plain simulators' state
        if a != b:
            out.append(FIELD_NAMES[i])
    if ro != so:
        out.append('out')
    if ri != si:
        out.append('in')
    if rm != sm:
        out.append('mem')
    return out


def state_json(st):
    return [st[0], st[1], {str(k): v for k, v in st[2].items()}, st[3], st[4]]


# ---------------------------------------------------------------------------------------------
# (1) spec vs the four real simulators, per slot

def spec_vs_real(chk, impls, mnem):
    rng = chk.rng
    n = chk.scale(4, 150)
    if chk.breaks:
        n = min(n * 3, 200)   # a proof / translator tie is broken: directed search with a larger budget
    states, slots = [], []
    for tbl, op in simcorr.all_slots():
        for _ in range(n):
            states.append(gen_state(rng, tbl, op))
            slots.append((tbl, op))
    for sl_, st_ in grid_states(rng, chk.tier == 'thorough'):
        states.append(st_)
        slots.append(sl_)
    if chk.breaks and hasattr(simcheck, 'suspect_slots'):
        # directed search (DESIGN §5): the slots whose Python closure / C handler / dispatch row changed against the committed
        # translation get every combination of boundary operand bytes plus a few hundred more states, and a deterministic
        # sweep of their address operands over the 16K / 64K edges, loop counters, R wrap and interrupt-window edges
        sus = sorted(set(simcheck.suspect_slots(chk)) | set(simcheck.c_suspect_slots(chk)))
        light = len(sus) > 40
        for tbl, op in sus[:700]:
            for st in list(simcheck.directed_states(rng, tbl, op, 10 if light else chk.scale(100, 1000))) + list(simcheck.edge_states(rng, tbl, op, light=light)):
                st[4][0] = 1 if (st[4][0] or st[4][1] or st[4][2]) else 0
                states.append(st)
                slots.append((tbl, op))
    ops = [simcorr.op_line(*st) for st in states]
    spec = chk.run_driver('C05', ops)
    if spec is None:
        return
    for name, wrapper, _driver, _is_c in impls:
        bad = 0
        for (tbl0, op0), st, sl in zip(slots, states, spec):
            # the slot actually executed: a state generated for MAIN CB/ED/DD/FD runs a second-level slot
            tbl, op = slot_at(st[2], st[1][0])
            real = wrapper.step(*st)
            a, b = split_line(real, st[2]), split_line(sl, st[2])
            chk.case(f'spec:{name}:{tbl}', (name, tbl, op, tuple(st[0]), tuple(st[1])),
                     {'impl': name, 'slot': f'{tbl}:{op:02X}', 'instr': mnem.get((tbl, op), '?'), 'pc': st[1][0]} if op == 0x09 else None)
            if b is None:
                chk.breaks.append({'kind': 'correspondence', 'name': 'Drivers/C05.lean', 'detail': sl[:300]})
                return
            d = ['exception'] if a is None else diff_fields(name, tbl, op, a, b)
            if d:
                bad += 1
                chk.violation(f'{name}:{tbl}:{op:02X}:{"+".join(d)}',
                              f'{name} executes {tbl} {op:02X} ({mnem.get((tbl, op), "?")}) differently from the Z80 specification: '
                              f'{", ".join(d)} differ; simulator {simcorr.norm(real)[:300]} / specification {simcorr.norm(sl)[:300]}',
                              {'kind': 'step', 'impl': name, 'tbl': tbl, 'op': op, 'state': state_json(st)})
        chk.note(f'spec vs {name}: {len(states)} states, {bad} differ')


# ---------------------------------------------------------------------------------------------
# (2) programs: n instructions in a row

class Runner:
    """n-step execution of a real simulator from a sparse state (memory elsewhere = 0)."""

    def __init__(self, cls, is_c):
        self.is_c = is_c
        self.w = simcorr.CSim(cls) if is_c else simcorr.PySim(cls)

    def run(self, st, n):
        regs, fields, mem, ins, tracers = st
        w = self.w
        sim, memory = w.sim, w.memory
        for a in w.dirty:
            if self.is_c:
                memory[a] = 0
            else:
                list.__setitem__(memory, a, 0)
        for a, v in mem.items():
            if self.is_c:
                memory[a] = v
            else:
                list.__setitem__(memory, a, v)
        before = dict(mem)
        if not self.is_c:
            memory.log = []
        for i, v in enumerate(regs):
            sim.registers[i] = v
        for i, v in enumerate(fields):
            sim.registers[24 + i] = v
        tr = simcorr.Tracer(ins)
        t = simcorr.PartialTracer()
        if tracers[0] or tracers[1] or tracers[2]:
            t.read_port = tr.read_port
        if tracers[3]:
            t.write_port = tr.write_port
        if self.is_c:
            sim.set_tracer(t, bool(tracers[1]), bool(tracers[2]))
        else:
            sim.set_tracer(t, in_r_c=bool(tracers[1]), ini=bool(tracers[2]))
        touched = set(mem)
        try:
            sim.run(fields[0])
            for _ in range(n - 1):
                sim.run()
        except Exception as e:
            w.dirty = set(range(65536))
            return f'exception {type(e).__name__}: {e}'
        if self.is_c:
            # final memory: scan (bytearray compare by 1K blocks)
            final = {}
            zero = bytes(1024)
            for base in range(0, 65536, 1024):
                blk = bytes(memory[base:base + 1024])
                if blk != zero:
                    for k, v in enumerate(blk):
                        if v:
                            final[base + k] = v
            w.dirty = set(final) | touched
            diffs = sorted((a, final.get(a, 0)) for a in set(final) | touched if final.get(a, 0) != before.get(a, 0))
        else:
            written = {a for a, _ in memory.log}
            w.dirty = written | touched
            diffs = sorted((a, memory[a]) for a in written if memory[a] != before.get(a, 0))
        r = list(sim.registers)
        return (f"{' '.join(map(str, r[:24]))} ; {' '.join(map(str, r[24:30]))} ; "
                f"{' '.join(f'{p}:{v}' for p, v in tr.out_log)} ; {' '.join(map(str, tr.in_log))} ; "
                f"{' '.join(f'{a}:{v}' for a, v in diffs)} ; 0")


INTERESTING = (0x00, 0x76, 0xFB, 0xF3, 0xD3, 0xDB, 0x10, 0x18, 0x20, 0x28, 0x30, 0x38, 0xC3, 0xCD, 0xC9, 0xC0, 0xE5, 0xE1, 0xF5, 0xF1,
               0x36, 0x77, 0x34, 0x35, 0x22, 0x2A, 0x32, 0x3A, 0xE3, 0xF9, 0x08, 0xD9, 0xEB, 0x27, 0x3F, 0x37, 0x2F, 0x09, 0x19,
               0x29, 0x39, 0x07, 0x0F, 0x17, 0x1F, 0xE9, 0xC7, 0xFF)
ED_OPS = (0xB0, 0xB8, 0xA0, 0xA8, 0xA1, 0xA9, 0xB1, 0xB9, 0xA2, 0xAA, 0xB2, 0xBA, 0xA3, 0xAB, 0xB3, 0xBB, 0x41, 0x79, 0x78, 0x40, 0x70,
          0x71, 0x46, 0x56, 0x5E, 0x47, 0x4F, 0x57, 0x5F, 0x67, 0x6F, 0x44, 0x45, 0x4D, 0x42, 0x4A, 0x52, 0x5A, 0x62, 0x6A, 0x72,
          0x7A, 0x43, 0x4B, 0x73, 0x7B, 0x00, 0x77)


def rand_code(rng, n):
    out = []
    while len(out) < n:
        k = rng.randrange(12)
        if k < 4:
            out.append(rng.randrange(256))
        elif k < 7:
            out.append(rng.choice(INTERESTING))
        elif k < 9:
            out += [0xED, rng.choice(ED_OPS)]
        elif k == 9:
            out += [rng.choice((0xDD, 0xFD)), rng.choice((0xCB, 0x36, 0x34, 0x46, 0x70, 0x09, 0xE9, 0x21, 0xDD, 0xFD, 0x00, 0x65, 0x8C, 0xE5)),
                    rng.randrange(256), rng.randrange(256)]
        else:
            out += [0xCB, rng.randrange(256)]
    return out[:n]


def programs(chk, classes, mnem):
    """Random instruction streams (all prefixes, self-modifying, stack in ROM/RAM, wrap at 64K)
    executed for n instructions by each real simulator and by the iterated specification."""
    rng = chk.rng
    runners = [(name, Runner(cls, name.startswith('c-'))) for name, cls in classes if not name.endswith('cmio')]
    jobs = []
    for k in range(chk.scale(120, 6000)):
        start = rng.choice((0x8000, 0x7FF0, 0xBFF8, 0xC000, 0xFFF0, 0xFFFC, 0x3FF8, 0x4000, 0x5B00, 0x0000))
        code = rand_code(rng, rng.randrange(8, 60))
        regs = [rng.randrange(256) for _ in range(24)]
        regs[12] = rng.choice((0x5000, 0x8001, 0xFFFF, 0x4001, 0x4000, 0x3FFF, 0x0000, 0x0001, rng.randrange(65536)))
        regs[13] = 0
        fields = [start, t_bias(rng), rng.randrange(2), rng.randrange(3), 0, 0]
        mem = {(start + i) % 65536: b for i, b in enumerate(code)}
        for _ in range(20):
            mem.setdefault(rng.randrange(65536), rng.randrange(256))
        for hi, lo in ((6, 7), (4, 5), (2, 3), (8, 9), (10, 11)):
            a = regs[lo] + 256 * regs[hi]
            for d in range(3):
                mem.setdefault((a + d) % 65536, rng.randrange(256))
        ins = [rng.randrange(256) for _ in range(rng.randrange(6))]
        tr = [rng.randrange(2) for _ in range(4)]
        tr[0] = 1 if (tr[0] or tr[1] or tr[2]) else 0
        n = rng.randrange(2, 40)
        jobs.append(((regs, fields, mem, ins, tr), n, code))
    ops = [f'run {n} | ' + simcorr.op_line(*st) for st, n, _ in jobs]
    spec = chk.run_driver('C05', ops)
    if spec is None:
        return
    for name, runner in runners:
        for (st, n, code), sl in zip(jobs, spec):
            real = runner.run(st, n)
            a, b = split_line(real, st[2]), split_line(sl, st[2])
            chk.case(f'program:{name}', ('prog', name, st[1][0], tuple(code[:24]), n),
                     {'impl': name, 'start': st[1][0], 'code': code[:10], 'steps': n} if len(chk.samples) < 10 else None)
            d = ['exception'] if a is None or b is None else diff_fields(name, 'PROGRAM', 0, a, b)
            if d:
                # localise: first instruction after which simulator and specification differ
                k, tbl, op, sub = first_divergence(chk, runner, st, n)
                where = f'{tbl}:{op:02X}' if tbl else 'program'
                chk.violation(f'{name}:{where}:{"+".join(sub or d)}',
                              f'{name} and the Z80 specification differ after {k} instruction(s) of a program at {st[1][0]} '
                              f'({mnem.get((tbl, op), "?")}): {", ".join(sub or d)}',
                              {'kind': 'program', 'impl': name, 'steps': k or n, 'state': state_json(st)})


def slot_at(st_mem, pc):
    g = lambda a: st_mem.get(a % 65536, 0)
    b0 = g(pc)
    if b0 == 0xCB:
        return 'CB', g(pc + 1)
    if b0 == 0xED:
        return 'ED', g(pc + 1)
    if b0 in (0xDD, 0xFD):
        t = 'DD' if b0 == 0xDD else 'FD'
        if g(pc + 1) == 0xCB:
            return t + 'CB', g(pc + 3)
        return t, g(pc + 1)
    return 'MAIN', b0


def first_divergence(chk, runner, st, n):
    ops = [f'run {k} | ' + simcorr.op_line(*st) for k in range(1, n + 1)]
    spec = chk.run_driver('C05', ops)
    if spec is None:
        return n, None, 0, None
    prev = None
    for k in range(1, n + 1):
        real = runner.run(st, k)
        a, b = split_line(real, st[2]), split_line(spec[k - 1], st[2])
        d = ['exception'] if a is None or b is None else diff_fields('x-plain', 'PROGRAM', 0, a, b)
        if d:
            # the instruction executed at step k started at the PC after k-1 steps
            if prev is None:
                pc, memnow = st[1][0], dict(st[2])
            else:
                pc = prev[1][0]
                memnow = dict(st[2])
                for w in prev[4]:
                    x, v = w.split(':')
                    memnow[int(x)] = int(v)
            tbl, op = slot_at(memnow, pc)
            return k, tbl, op, d
        prev = b
    return n, None, 0, None


# ---------------------------------------------------------------------------------------------
# (3) tables and ALU instructions against the independent Python oracle

def table_sweep(chk, simtables):
    total, bad = z80alu.sweep(simtables)
    chk.note(f'simtables.py: {total} table entries compared with the independent oracle, {len(bad)} table(s) wrong')
    chk.extra['table_entries_checked'] = total
    for _ in range(total // 4096):
        chk.evaluations += 4096       # counted in bulk
    for name, idx, got, exp in bad:
        chk.violation(f'simtables:{name}:{",".join(map(str, idx))}',
                      f'simtables.{name}[{"][".join(map(str, idx))}] = {got}, the Z80 flag rules give {exp}',
                      {'kind': 'table', 'table': name, 'index': list(idx)})
    return not bad


ALU_OPS = ((0x80, lambda c, a, b: z80alu.adc(0, a, b)), (0x88, z80alu.adc), (0x90, lambda c, a, b: z80alu.sbc(0, a, b)),
           (0x98, z80alu.sbc), (0xA0, lambda c, a, b: z80alu.and_(a, b)), (0xA8, lambda c, a, b: z80alu.xor_(a, b)),
           (0xB0, lambda c, a, b: z80alu.or_(a, b)), (0xB8, lambda c, a, b: z80alu.cp(a, b)))


def alu_instructions(chk, classes):
    """ALU A,B / INC B / DEC B / rotates / DAA &c. executed by every real simulator over (A, B, carry),
    results compared with the oracle directly (exhaustive in the thorough tier)."""
    rng = chk.rng
    stride = chk.scale(37, 1)
    for name, cls in classes:
        guarded(chk, f'alu-instructions:{name}', _alu_instructions_one, chk, name, cls, stride)


def _alu_instructions_one(chk, name, cls, stride):
    rng = chk.rng
    if True:
        sim = cls([0] * 65536)
        regs = sim.registers
        mem = sim.memory
        bad = {}

        cnt = 0
        off = rng.randrange(stride)
        for opc, fn in ALU_OPS:
            mem[0x8000] = opc
            for x in range(off, 131072, stride):
                c, a, b = x >> 16, (x >> 8) & 255, x & 255
                f = c | (rng.randrange(128) << 1 if stride > 1 else 0)
                ea, ef = fn(c, a, b)
                regs[0], regs[1], regs[2], regs[24] = a, f, b, 0x8000
                sim.run(0x8000)
                cnt += 1
                if (regs[0], regs[1]) != (ea, ef) and opc not in bad:
                    bad[opc] = (a, b, f, regs[0], regs[1], ea, ef)
        # one-operand forms over (value, carry) and accumulator ops over (A, F)
        for v in range(256):
            for c in (0, 1):
                for code, fn in (((0x04,), z80alu.inc), ((0x05,), z80alu.dec), ((0xCB, 0x10), z80alu.rl), ((0xCB, 0x18), z80alu.rr)):
                    er, ef = fn(c, v)
                    for i, b in enumerate(code):
                        mem[0x8000 + i] = b
                    regs[0], regs[1], regs[2], regs[24] = 0x5A, c, v, 0x8000
                    sim.run(0x8000)
                    cnt += 1
                    if (regs[2], regs[1]) != (er, ef) and code not in bad:
                        bad[code] = (v, c, 0, regs[2], regs[1], er, ef)
            for code, fn in (((0xCB, 0x00), z80alu.rlc), ((0xCB, 0x08), z80alu.rrc), ((0xCB, 0x20), z80alu.sla),
                             ((0xCB, 0x28), z80alu.sra), ((0xCB, 0x30), z80alu.sll), ((0xCB, 0x38), z80alu.srl)):
                er, ef = fn(v)
                for i, b in enumerate(code):
                    mem[0x8000 + i] = b
                regs[0], regs[1], regs[2], regs[24] = 0x5A, rng.randrange(256), v, 0x8000
                sim.run(0x8000)
                cnt += 1
                if (regs[2], regs[1]) != (er, ef) and code not in bad:
                    bad[code] = (v, 0, 0, regs[2], regs[1], er, ef)
        acc = ((0x27, z80alu.daa), (0x2F, z80alu.cpl), (0x07, z80alu.rlca), (0x0F, z80alu.rrca), (0x17, z80alu.rla), (0x1F, z80alu.rra),
               (0x37, lambda a, f: (a, z80alu.scf(f, a))), (0x3F, lambda a, f: (a, z80alu.ccf(f, a))))
        for opc, fn in acc:
            mem[0x8000] = opc
            for x in range(off % 7, 65536, 7 if stride > 1 else 1):
                a, f = x >> 8, x & 255
                ea, ef = fn(a, f)
                regs[0], regs[1], regs[24] = a, f, 0x8000
                sim.run(0x8000)
                cnt += 1
                if (regs[0], regs[1]) != (ea, ef) and opc not in bad:
                    bad[opc] = (a, 0, f, regs[0], regs[1], ea, ef)
        chk.evaluations += cnt
        chk.dist[f'alu-oracle:{name}'] += cnt
        for what, (a, b, f, ga, gf, ea, ef) in bad.items():
            code = what if isinstance(what, tuple) else (what,)
            tbl, op = ('CB', code[1]) if code[0] == 0xCB else ('MAIN', code[0])
            chk.violation(f'{name}:{tbl}:{op:02X}:A+F',
                          f'{name}: opcode {" ".join(f"{c:02X}" for c in code)} with A/operand={a}, B={b}, F={f} gives result {ga}, F={gf}; '
                          f'the Z80 flag rules give {ea}, F={ef}',
                          {'kind': 'alu', 'impl': name, 'code': list(code), 'a': a, 'b': b, 'f': f})


# ---------------------------------------------------------------------------------------------

def alu_check_driver(chk):
    """Interpreter sweep of every translated table entry against Spec/Z80Alu.lean (same checkers the
    kernel evaluates in Proofs/Alu/*)."""
    rc, out = sh(['lake', 'env', 'lean', '--run', 'Drivers/AluCheck.lean'], cwd=LEAN_DIR, timeout=1200)
    wrong = []
    seen = 0
    for line in out.splitlines():
        w = line.split()
        if len(w) == 2 and w[1].isdigit():
            seen += 1
            if w[1] != '0':
                wrong.append(line)
    if rc != 0 or seen < 30 or wrong:
        chk.breaks.append({'kind': 'correspondence', 'name': 'Drivers/AluCheck.lean (translated tables vs Spec/Z80Alu)',
                           'detail': '; '.join(wrong) or out[-800:]})
    else:
        chk.note(f'AluCheck driver: {seen} tables, all entries equal to the spec')
    return wrong


def decode_table(chk):
    """mnemonic of every slot by the independent decoder (for messages)"""
    ops = [f'decode {PFX_NUM[t]} {op}' for t, op in simcorr.all_slots()]
    out = chk.run_driver('C05', ops)
    if out is None:
        return {}
    return {(t, op): o.split(';')[0].strip() for (t, op), o in zip(simcorr.all_slots(), out)}


def run(chk):
    chk.rule = ('per slot: all 1792 dispatch slots x N boundary-biased in-range states (16K/64K address boundaries, half-carry/sign/zero '
                'edges of 8- and 16-bit operands, loop counters 0/1/2, frame positions around the interrupt window, port readers present/'
                'absent): the executable specification Spec.step vs Python plain/contended and C plain/contended simulators (all registers '
                'incl. R and shadows, PC, SP, IFF, IM, HALT, T-states, port traffic, final memory) and the four simulators vs the generated '
                'Lean models; programs: random instruction streams of 2-40 instructions (all prefixes, self-modifying, stack in ROM, 64K wrap) '
                'vs the iterated specification; tables: every entry of every simtables.py tuple and the ALU/rotate/DAA instructions of all '
                'four simulators vs an independent Python bit-level oracle. non-trivial = distinct (impl, slot, state) / distinct program')
    chk.trusted += ['translator translate/py2lean.py (Python AST subset -> Lean; validated per slot each run)',
                    'Spec/Z80Isa, Z80Decode, Z80Sem, Z80Alu, Z80Alu16: the oracle, written from the Z80 documentation (validated here '
                    'against four independent implementations)',
                    'C handler bodies and the contended Python closures: differential execution (C06/C19 carry their theorems)',
                    'harness/indep/z80alu.py: independent Python oracle for the flag tables']
    chk.assumptions += ['sim_refines_spec / run_refines_spec hold for every closure and every operand value from states satisfying the range '
                        'invariant RInv (which C08 proves is preserved by every step)',
                        'EX (SP),rr is proved for memories satisfying AdjMem (a write is not seen at the next address): instances for the 48K '
                        'list and the 128K paged memory are proved',
                        'block instructions are specified per iteration (the simulators execute one iteration per step)',
                        'BIT n,(HL): bits 5/3 of F come from MEMPTR, which the plain simulators do not model; the specification follows the '
                        'plain simulators (operand bits) and the contended ones are compared modulo those two bits',
                        'contended simulators: T-states and MEMPTR are not compared here (C19); HALT and LD A,I/R are compared only when no '
                        'contention delay was applied',
                        'one interrupt flip-flop (IFF1 = IFF2), so RETN = RETI; SCF/CCF bits 5/3 as on NMOS Zilog parts (from A)']
    (simtables,) = fresh_import('skoolkit.simtables')
    gen_ok = simgen.regen(chk)
    ok = chk.lake_build([PROPS, 'SkoolVerif.Prelude.SimProto', 'SkoolVerif.Gen.CmioHandlers', 'SkoolVerif.Spec.Z80Sem',
                         'SkoolVerif.Spec.AluCheck']) if gen_ok else False
    chk.audit(PROPS)
    if chk.thorough and ok:
        chk.leanchecker([PROPS])
    # the same claims for the C simulators: corollaries of C06's c_step_eq_python over the C handler bodies
    # translated from c/csimulator.c on this run
    import cgencheck
    cgencheck.c_corollaries(chk, 'SkoolVerif.Props.C05C', bool(ok))
    spec_ok = True
    if not ok:
        # the specification itself does not depend on the generated files
        rc, out = sh(['lake', 'build', 'SkoolVerif.Spec.Z80Sem', 'SkoolVerif.Prelude.SimProto'], cwd=LEAN_DIR, timeout=1200)
        spec_ok = rc == 0
    impls, classes = build_impls(chk)
    tables_ok = guarded(chk, 'table-sweep', table_sweep, chk, simtables)
    if gen_ok:
        alu_check_driver(chk)
    if gen_ok and ok:
        guarded(chk, 'single-step', single_step, chk, impls)
    if spec_ok:
        mnem = decode_table(chk)
        guarded(chk, 'spec-vs-real', spec_vs_real, chk, impls, mnem)
        guarded(chk, 'programs', programs, chk, classes, mnem)
    alu_instructions(chk, classes)
    chk.extra['tables_ok'] = tables_ok


def replay(chk, data):
    impls, classes = build_impls(chk)
    kind = data['kind']
    if kind == 'table':
        (simtables,) = fresh_import('skoolkit.simtables')
        _, bad = z80alu.sweep(simtables, names={data['table']})
        return bool(bad)
    if kind == 'alu':
        cls = dict(classes)[data['impl']]
        sim = cls([0] * 65536)
        code = data['code']
        for i, v in enumerate(code):
            sim.memory[0x8000 + i] = v
        sim.registers[0], sim.registers[1], sim.registers[2] = data['a'], data['f'], data['b']
        before = (data['a'], data['f'], data['b'])
        sim.run(0x8000)
        got = (sim.registers[0], sim.registers[1], sim.registers[2])
        # re-derive the expectation from the oracle by re-running the sweep on this implementation only
        n0 = len(chk.violations)
        alu_instructions(chk, [(data['impl'], cls)])
        return len(chk.violations) > n0
    if kind == 'group-exception':
        n0 = len(chk.violations)
        run(chk)
        return len(chk.violations) > n0
    regs, fields, mem, ins, tracers = data['state']
    st = (regs, fields, {int(k): v for k, v in mem.items()}, ins, tracers)
    if kind == 'step':
        w = {n: x for n, x, _, _ in impls}[data['impl']]
        spec = chk.run_driver('C05', [simcorr.op_line(*st)])
        if spec is None:
            return True
        a, b = split_line(w.step(*st), st[2]), split_line(spec[0], st[2])
        return a is None or b is None or bool(diff_fields(data['impl'], data['tbl'], data['op'], a, b))
    if kind == 'program':
        cls = dict(classes)[data['impl']]
        runner = Runner(cls, data['impl'].startswith('c-'))
        n = data['steps']
        spec = chk.run_driver('C05', [f'run {n} | ' + simcorr.op_line(*st)])
        if spec is None:
            return True
        a, b = split_line(runner.run(st, n), st[2]), split_line(spec[0], st[2])
        return a is None or b is None or bool(diff_fields(data['impl'], 'PROGRAM', 0, a, b))
    return True
