"""C13 end-to-end: the property itself on the real tools.  `tap2sna.main` is run in-process over the
speed-up matrix on (a) tapes made by `bin2tap.main` (standard ROM loader) and (b) TZX tapes whose turbo
blocks are read by custom loaders assembled around each recognised tape-sampling loop shape of
`loadsample.ACCELERATORS`; the snapshot files written are compared byte for byte where the property
demands identity, and on loaded bytes / PC / SP where it allows scratch differences."""
import base64
import contextlib
import io
import os
import pickle
import signal

from framework import fresh_import

REGCODE = {2: 0, 3: 1, 4: 2, 5: 3, 6: 4, 7: 5}   # registers[] index -> Z80 register code (B C D E H L)
OPLEN = {}
for _op in (0x04, 0x05, 0x0C, 0x14, 0x1C, 0x24, 0x2C, 0xC8, 0xD0, 0xD8, 0xC9, 0x1F, 0xA9, 0xAB, 0xA8, 0xA0, 0xA4, 0xA7, 0xB7, 0xAF,
            0xBA, 0x87, 0x00, 0x37, 0x7F):
    OPLEN[_op] = 1
for _op in (0x3E, 0xDB, 0xE6, 0xD6, 0x20, 0x28, 0x30, 0xCB, 0xED, 0xFD):
    OPLEN[_op] = 2
for _op in (0x3A, 0xCA, 0xC2, 0xD2, 0xF2, 0xFA):
    OPLEN[_op] = 3
JR = (0x20, 0x28, 0x30)
JP = (0xCA, 0xC2, 0xD2, 0xF2, 0xFA)


# ---------------------------------------------------------------------------------------------
# a tiny two-pass assembler (bytes, labels, absolute jumps/calls, padding to an offset from a label)
# ---------------------------------------------------------------------------------------------

class Asm:
    def __init__(self, org):
        self.org = org
        self.items = []
        self.labels = {}

    def b(self, *bs):
        self.items.append(('b', list(bs)))

    def label(self, name):
        self.items.append(('l', name))

    def jp(self, op, name):
        self.items.append(('w', op, name))

    def call(self, name):
        self.jp(0xCD, name)

    def word(self, name):
        self.items.append(('w2', name))

    def half(self, which, name):
        self.items.append(('half', which, name))

    def pad_to(self, base_label, off):
        self.items.append(('pad', base_label, off))

    def assemble(self):
        for _ in range(3):
            out = []
            for it in self.items:
                a = self.org + len(out)
                if it[0] == 'b':
                    out += it[1]
                elif it[0] == 'l':
                    self.labels[it[1]] = a
                elif it[0] == 'w':
                    t = self.labels.get(it[2], 0)
                    out += [it[1], t % 256, t // 256]
                elif it[0] == 'w2':
                    t = self.labels.get(it[1], 0)
                    out += [t % 256, t // 256]
                elif it[0] == 'half':
                    t = self.labels.get(it[2], 0)
                    out.append(t % 256 if it[1] == 'lo' else t // 256)
                elif it[0] == 'pad':
                    base = self.labels.get(it[1])
                    if base is None:
                        continue
                    n = base + it[2] - a
                    if n < 0:
                        raise ValueError(f'pad target behind the code: {it}')
                    out += [0] * n
        return out


def sig_info(code):
    """(instruction offsets, forward JR targets beyond the signature) of a signature (None = wildcard)."""
    offs, targets = [], []
    i, n = 0, len(code)
    while i < n:
        op = code[i]
        if op is None:
            i += 1
            continue
        ln = OPLEN[op]
        offs.append(i)
        if op in JR and i + 1 < n and code[i + 1] is not None:
            d = code[i + 1]
            t = i + 2 + (d if d < 128 else d - 256)
            if t >= n:
                targets.append(t)
            elif 0 < t and code[t] is not None and any(c is None for c in code[i + 2:t]):
                i = t          # skip the wildcard filler (alkatraz variants)
                continue
        i += ln
    return offs, sorted(set(targets))


def build_loader(accs, name, org, dest, length, stack, rng, delay_a=None, delay_b=None, npilot=8, span=120, nblocks=1, startup=None, fin=(0, 0)):
    """Machine code of a turbo loader whose edge detector is the loop shape `name`:

        start:  DI; LD SP,stack; (alt regs) HL'=dest DE'=length C'=1; EAR/mask registers
        pilot:  8 consecutive long periods (2 pulses each, measured with the shape's loop)
        sync:   first short period
        bits:   one period per bit, long = 1, MSB first, stored at (HL')
        done:   the address given to tap2sna --start

    A period is measured by two calls of the sampling routine (for the polarity-sensitive pairs
    audiogenic/gremlin2/kwc: the -0 and the -1 variant).  Each routine optionally starts with a
    `LD A,k: DEC A: JR NZ,$-1` or `...: JP NZ,$-1` delay loop (accelerate-dec-a)."""
    a = accs[name]
    typeB = a.ear_mask == 0
    other = accs[name[:-1] + ('1' if name.endswith('0') else '0')] if typeB else None
    r = REGCODE[a.counter]
    L = a.loop_time
    Z = max(400, 8 * L) + rng.randrange(200)
    O = 2 * Z + rng.randrange(-20, 120)
    P = O + rng.randrange(-30, 100)
    S1 = Z + rng.randrange(-20, 40)
    S2 = Z + rng.randrange(-20, 40)
    thr_n = max(2, (3 * Z - 200) // L)       # periods: zero bit ~ 2Z, one bit / pilot ~ 4Z
    thr_1 = max(2, (3 * Z - 300) // (2 * L))   # single pulses: sync ~ Z, pilot ~ 2Z
    if a.inc:
        init = (256 - span) % 256
        cmp_ = [0x3E, (init + thr_n) % 256, 0xB8 + r]            # LD A,thr ; CP r   -> carry iff r > thr
        cmp1 = [0x3E, (init + thr_1) % 256, 0xB8 + r]
    else:
        init = span % 256
        cmp_ = [0x78 + r, 0xFE, (init - thr_n) % 256]            # LD A,r ; CP thr   -> carry iff r < thr
        cmp1 = [0x78 + r, 0xFE, (init - thr_1) % 256]
    A = Asm(org)
    A.label('start')
    A.b(0xF3, 0x31, stack % 256, stack // 256)
    if startup:
        # one-off delay before listening (the pilot tone is still running): DEC A loops entered with the
        # boundary values of A (0 counts as 256 iterations)
        for n_, (kind_, k_) in enumerate(startup):
            A.b(0x37 if (n_ + k_) % 2 else 0xB7)       # SCF / OR A: DEC A leaves the carry alone
            A.b(0x3E, k_)
            A.label('su%d' % n_)
            if kind_ == 'jr':
                A.b(0x3D, 0x20, 0xFD)
            else:
                A.b(0x3D)
                A.jp(0xC2, 'su%d' % n_)
            A.b(0xF5)                                   # PUSH AF: A and F after the loop stay in RAM (all RAM is compared)
        A.b(0x31, stack % 256, stack // 256)
    A.b(0xD9, 0x21, dest % 256, dest // 256, 0x11, length % 256, length // 256, 0x0E, 0x01, 0xD9)
    if typeB:
        if name.startswith('audiogenic'):
            A.b(0x06, 0x40)      # LD B,$40 (mask)
        elif name.startswith('gremlin2'):
            A.b(0x26, 0x40)      # LD H,$40 (mask)
    else:
        A.b(0x06 + 8 * REGCODE[a.ear], rng.choice((0, a.ear_mask)))
        if name == 'activision':
            A.b(0x0E, 0xFE)      # LD C,$FE (IN A,(C) port)
    A.label('restart')
    if typeB:
        # polarity-sensitive pairs: a period (two pulses) is the unit; its alignment is fixed by the polarity
        A.b(0xD9, 0x06, npilot, 0xD9)
        A.label('pl')
        A.b(0x06 + 8 * r, init)
        A.call('measure2')
        A.jp(0xCA, 'restart')
        A.b(*cmp_)
        A.jp(0xD2, 'restart')
        A.b(0xD9, 0x05, 0xD9)
        A.jp(0xC2, 'pl')
        A.label('sy')
        A.b(0x06 + 8 * r, init)
        A.call('measure2')
        A.jp(0xCA, 'restart')
        A.b(*cmp_)
        A.jp(0xDA, 'sy')
    else:
        # single pulses for pilot and sync (like the ROM), so that the bit pairs are aligned whatever the
        # phase at which the loader starts listening
        A.b(0xD9, 0x06, 2 * npilot, 0xD9)
        A.label('pl')
        A.b(0x06 + 8 * r, init)
        A.call('s_a')
        A.b(0x04 + 8 * r, 0x05 + 8 * r)
        A.jp(0xCA, 'restart')
        A.b(*cmp1)
        A.jp(0xD2, 'restart')
        A.b(0xD9, 0x05, 0xD9)
        A.jp(0xC2, 'pl')
        A.label('sy')
        A.b(0x06 + 8 * r, init)
        A.call('s_b')
        A.b(0x04 + 8 * r, 0x05 + 8 * r)
        A.jp(0xCA, 'restart')
        A.b(*cmp1)
        A.jp(0xDA, 'sy')
        A.b(0x06 + 8 * r, init)
        A.call('s_a')               # second sync pulse
        A.b(0x04 + 8 * r, 0x05 + 8 * r)
        A.jp(0xCA, 'restart')
    A.label('bit')
    A.b(0x06 + 8 * r, init)
    A.call('measure2')
    A.jp(0xCA, 'fail')
    A.b(*cmp_)
    A.b(0xD9, 0xCB, 0x11)                       # EXX ; RL C
    A.jp(0xD2, 'nb')
    A.b(0x71, 0x23, 0x0E, 0x01, 0x1B, 0x7A, 0xB3, 0xD9)   # LD (HL),C; INC HL; LD C,1; DEC DE; LD A,D; OR E; EXX
    A.jp(0xC2, 'bit')
    A.b(0x3A)
    A.word('nblk')
    A.b(0x3D, 0x32)
    A.word('nblk')
    A.jp(0xCA, 'fin')
    A.b(0xD9, 0x11, length % 256, length // 256, 0x0E, 0x01, 0xD9)
    A.jp(0xC3, 'restart')
    A.label('nb')
    A.b(0xD9)
    A.jp(0xC3, 'bit')
    A.label('fail')
    A.b(0x3E, 0xEE, 0x32)
    A.word('failflag')
    A.label('fin')
    # a last DEC A that is not part of a delay loop (boundary operands, carry set or clear): its A and F are in the final
    # snapshot, so the DEC tables behind the accelerate-dec-a hooks (Python `loadtracer.DEC`, C `DEC`) are compared too
    A.b(0x3E, fin[0], 0x37 if fin[1] else 0xB7, 0x3D)
    A.label('done')
    A.b(0x00, 0x18, 0xFE)
    A.label('failflag')
    A.b(0x00)
    A.label('nblk')
    A.b(nblocks)
    A.label('measure2')
    A.call('s_a')
    A.b(0x04 + 8 * r, 0x05 + 8 * r, 0xC8)       # INC r ; DEC r ; RET Z   (counter 0 = time-out)
    A.call('s_b')
    A.b(0x04 + 8 * r, 0x05 + 8 * r, 0xC9)
    A.label('timeout')
    A.b(0xC9)
    same = (not typeB) and delay_a == delay_b
    for lab, acc, delay in (('s_a', a, delay_a), ('s_b', other if typeB else a, delay_b)):
        A.label(lab)
        if same and lab == 's_b':
            A.jp(0xC3, 's_a')
            continue
        sig = [c if isinstance(c, int) else None for c in acc.code]
        if delay:
            kind, k = delay
            A.b(0x3E, k)
            A.label(lab + '_d')
            if kind == 'jr':
                A.b(0x3D, 0x20, 0xFD)
            else:
                A.b(0x3D)
                A.jp(0xC2, lab + '_d')
        A.b(0xA7)        # AND A
        A.label(lab + '_loop')
        offs, targets = sig_info(sig)
        i = 0
        while i < len(sig):
            c = sig[i]
            if c is not None:
                A.b(c)
            else:
                prev = sig[i - 1] if i else None
                if prev in (0xCA, 0xD2) and i + 1 < len(sig) and sig[i + 1] is None:
                    A.half('lo', 'timeout')
                    A.half('hi', 'timeout')
                    i += 2
                    continue
                if prev == 0x3E:
                    A.b(0x7F)
                elif prev is not None:
                    A.b(0xC9)        # first filler byte of the alkatraz variants: RET (time-out)
                else:
                    A.b(0x00)
            i += 1
        jp_end = offs[-1] == len(sig) - 1 and sig[-1] in JP
        if jp_end:
            A.word(lab + '_loop')
        n0 = len(sig) + (2 if jp_end else 0)
        edge_off = n0
        if acc.name == 'software-projects':
            A.b(0xC9)            # falls through here when the counter reaches 0
            edge_off = n0 + 1
        if not typeB:
            e = REGCODE[acc.ear]
            A.b(0x78 + e, 0xEE, acc.ear_mask, 0x47 + 8 * e)      # LD A,e ; XOR mask ; LD e,A
        A.b(0xC9)
        for t in targets:
            if acc.name == 'software-projects' and t == edge_off:
                continue
            A.pad_to(lab + '_loop', t)
            A.b(0xC9)
    code = A.assemble()
    return code, dict(zero=Z, one=O, pilot=P, sync1=S1, sync2=S2, labels=dict(A.labels), typeB=typeB)


def tzx_std(block, pause=1000):
    return bytes([0x10, pause % 256, pause // 256, len(block) % 256, len(block) // 256]) + bytes(block)


def tzx_turbo(data, pilot, sync1, sync2, zero, one, npulses, used_bits=8, pause=0):
    w = lambda v: bytes([v % 256, v // 256])
    return (bytes([0x11]) + w(pilot) + w(sync1) + w(sync2) + w(zero) + w(one) + w(npulses) + bytes([used_bits]) + w(pause)
            + bytes([len(data) % 256, (len(data) >> 8) % 256, len(data) >> 16]) + bytes(data))


def tap_blocks(tap):
    i, out = 0, []
    while i < len(tap):
        n = tap[i] + 256 * tap[i + 1]
        out.append(tap[i + 2:i + 2 + n])
        i += 2 + n
    return out


def make_tzx(blocks):
    return b'ZXTape!\x1a\x01\x14' + b''.join(blocks)


# ---------------------------------------------------------------------------------------------
# running tap2sna
# ---------------------------------------------------------------------------------------------

class Runner:
    def __init__(self, chk, classes):
        self.chk = chk
        (self.tap2sna, self.bin2tap, self.loadsample, self.snapshot) = fresh_import(
            'skoolkit.tap2sna', 'skoolkit.bin2tap', 'skoolkit.loadsample', 'skoolkit.snapshot')
        cls = dict(classes)
        # the C under test is the C of the working tree (built by cbuild), not a possibly stale .so
        self.tap2sna.CSimulator = cls['c-plain']
        self.tap2sna.CCMIOSimulator = cls['c-cmio']
        self.dir = os.path.join(chk.scratch, 'e2e')
        os.makedirs(self.dir, exist_ok=True)
        self.n = 0
        # tap2sna does not store the clock in the snapshot it writes (`get_state(simulator, False)`); the property names the
        # T-state position, so the clock the simulation ended on is read where tap2sna collects the final state
        self.last_t = None
        orig_get_state = self.tap2sna.get_state
        runner = self

        def get_state_hook(simulator, *a, **k):
            runner.last_t = int(simulator.registers[25])
            return orig_get_state(simulator, *a, **k)
        self.tap2sna.get_state = get_state_hook

    def path(self, name):
        return os.path.join(self.dir, name)

    def load_inproc(self, tape, cfg, start, extra=()):
        """tap2sna.main in-process; returns (snapshot file bytes or None, last output lines)."""
        out = self.path('out.z80')
        if os.path.exists(out):
            os.remove(out)
        self.last_t = None
        args = []
        for c in cfg:
            args += ['-c', c]
        args += ['--start', str(start), *extra, tape, out]
        buf = io.StringIO()
        with contextlib.redirect_stdout(buf), contextlib.redirect_stderr(buf):
            try:
                self.tap2sna.main(args)
            except SystemExit as e:
                buf.write(f'\nEXIT {e.code}')
            except Exception as e:
                buf.write(f'\nEXCEPTION {type(e).__name__}: {e}')
        data = None
        if os.path.exists(out):
            with open(out, 'rb') as f:
                data = f.read()
        tail = [l.split('\x08')[-1] for l in buf.getvalue().strip().split('\n')[-3:]]
        return data, tail

    def load(self, tape, cfg, start, extra=()):
        """tap2sna.main in a forked child (same interpreter state, nothing re-imported): a crash of the C extension
        becomes a result instead of the end of the check."""
        r, w = os.pipe()
        pid = os.fork()
        if pid == 0:
            code = 0
            try:
                os.close(r)
                res = self.load_inproc(tape, cfg, start, extra)
                with os.fdopen(w, 'wb') as f:
                    pickle.dump((res, self.last_t), f)
            except BaseException:
                code = 1
            os._exit(code)
        os.close(w)
        with os.fdopen(r, 'rb') as f:
            blob = f.read()
        _, status = os.waitpid(pid, 0)
        self.last_t = None
        if os.WIFSIGNALED(status):
            return None, [f'CRASH signal {os.WTERMSIG(status)}']
        try:
            res, self.last_t = pickle.loads(blob)
            return res
        except Exception:
            return None, ['CRASH no result']

    def parse(self, data):
        s = self.snapshot.Snapshot.get(data, 'z80')
        return s, [0] * 16384 + list(s.ram())


def cfg_key(cfg):
    return ' '.join(cfg)


STRICT_DIMS = ('python', 'accelerator', 'accelerate-dec-a', 'pause')


def dims_key(py, accel_on, da, pa):
    """Which speed-up dimensions differ from the reference configuration (C, nothing accelerated, tape paused)."""
    parts = [n for n, on in (('python', py), ('accelerator', accel_on), ('dec-a', da), ('no-pause', not pa)) if on]
    return '+'.join(parts) or 'same-config'


def describe(s):
    return dict(pc=s.pc, sp=s.sp, r=s.r, t=s.tstates, a=s.a, f=s.f, bc=s.bc, de=s.de, hl=s.hl, ix=s.ix, iy=s.iy, iff=s.iff1)


def first_diff(run, a, b):
    """Human-readable first differences between two z80 files."""
    sa, ma = run.parse(a)
    sb, mb = run.parse(b)
    da, db = describe(sa), describe(sb)
    regs = {k: (da[k], db[k]) for k in da if da[k] != db[k]}
    mem = [(i, ma[i], mb[i]) for i in range(16384, 65536) if ma[i] != mb[i]][:6]
    return f'registers (ref, this): {regs}; first RAM differences (addr, ref, this): {mem}'


def same_pause(cfg, ref_cfg):
    p = lambda c: next((x for x in c if x.startswith('pause=')), 'pause=1')
    return p(cfg) == p(ref_cfg)


def strict_compare(chk, run, tape, tape_bytes, ref_cfg, ref, cfg, start, extra, key, what, forked=False, ref_t=None):
    data, tail = run.load(tape, cfg, start, extra)
    if data == ref:
        # the T-state position (not in the file tap2sna writes): equal clocks, among runs that treat the gaps between blocks
        # alike (pause=1 moves the clock to the first edge of the next block by design)
        if ref_t is not None and run.last_t is not None and run.last_t != ref_t and same_pause(cfg, ref_cfg):
            chk.violation(key + ':tstates', f'{what}: same snapshot, but the simulation with [{cfg_key(cfg)}] ends at T={run.last_t} and with '
                          f'[{cfg_key(ref_cfg)}] at T={ref_t}',
                          {'kind': 'strict', 'tape_name': os.path.basename(tape), 'tape': base64.b64encode(tape_bytes).decode(),
                           'ref_cfg': ref_cfg, 'cfg': cfg, 'start': start, 'extra': list(extra)})
            return False
        return True
    if data is None:
        desc = f'{what}: no snapshot written with [{cfg_key(cfg)}] ({tail}) but [{cfg_key(ref_cfg)}] loads'
        k = key + (':crash' if any('CRASH' in t for t in tail) else ':no-snapshot')
    else:
        desc = f'{what}: snapshot with [{cfg_key(cfg)}] differs from [{cfg_key(ref_cfg)}]: {first_diff(run, ref, data)}; output {tail}'
        k = key
    chk.violation(k, desc, {'kind': 'strict', 'tape_name': os.path.basename(tape), 'tape': base64.b64encode(tape_bytes).decode(),
                            'ref_cfg': ref_cfg, 'cfg': cfg, 'start': start, 'extra': list(extra)})
    return False


def weak_compare(chk, run, tape, tape_bytes, ref_cfg, ref, cfg, start, extra, region, key, what, forked=False):
    """fast-load / cmio may change scratch state: loaded bytes, PC and SP must not change."""
    data, tail = run.load(tape, cfg, start, extra)
    sa, ma = run.parse(ref)
    if data is None:
        chk.violation(key + (':crash' if any('CRASH' in t for t in tail) else ':no-snapshot'),
                      f'{what}: no snapshot written with [{cfg_key(cfg)}] ({tail}) but [{cfg_key(ref_cfg)}] loads',
                      {'kind': 'weak', 'tape_name': os.path.basename(tape), 'tape': base64.b64encode(tape_bytes).decode(), 'ref_cfg': ref_cfg,
                       'cfg': cfg, 'start': start, 'extra': list(extra), 'region': region})
        return False
    sb, mb = run.parse(data)
    lo, hi = region
    bad = []
    if ma[lo:hi] != mb[lo:hi]:
        bad.append('loaded bytes differ: ' + str([(i, ma[i], mb[i]) for i in range(lo, hi) if ma[i] != mb[i]][:6]))
    if sa.pc != sb.pc:
        bad.append(f'PC {sa.pc} vs {sb.pc}')
    if sa.sp != sb.sp:
        bad.append(f'SP {sa.sp} vs {sb.sp}')
    if not bad:
        return True
    chk.violation(key, f'{what}: [{cfg_key(cfg)}] vs [{cfg_key(ref_cfg)}]: ' + '; '.join(bad) + f'; output {tail}',
                  {'kind': 'weak', 'tape_name': os.path.basename(tape), 'tape': base64.b64encode(tape_bytes).decode(), 'ref_cfg': ref_cfg,
                   'cfg': cfg, 'start': start, 'extra': list(extra), 'region': region})
    return False


# ---------------------------------------------------------------------------------------------
# (a) bin2tap tapes, ROM loader
# ---------------------------------------------------------------------------------------------

def rom_tapes(chk, run):
    rng = chk.rng
    for n in range(chk.scale(2, 8)):
        length = rng.choice((1, 2, 17, 40, 257, rng.randrange(1, 400)))
        org = rng.choice((0x8000, 0xC000, 65536 - length, rng.randrange(0x6000, 65536 - length))) if n else 65536 - length   # first tape: ends at 0xFFFF
        data = bytes(rng.randrange(256) for _ in range(length))
        binf = run.path('r.bin')
        with open(binf, 'wb') as f:
            f.write(data)
        tape = run.path(f'rom{n}.tap')
        stack = rng.choice((org, 0x5F00, 0xFF58)) if org > 0x6000 else 0xFF58
        run.bin2tap.main(['-o', str(org), '-s', str(org), '-p', str(stack), binf, tape])
        with open(tape, 'rb') as f:
            tape_bytes = f.read()
        if n % 2 == 1:
            # stray blocks in front of the program (a headerless data block, a header of another kind of file): LD-BYTES sees a
            # flag byte it does not expect and goes on listening; the fast-load shortcut has its own branch for this
            stray = []
            # (the first block decides between LOAD "" and LOAD ""CODE in tap2sna: keep a non-header in front)
            for kind in [rng.choice(('data', 'short'))] + rng.choice(([], ['header'], ['header', 'data'])):
                if kind == 'data':
                    blk = [0xFF] + [rng.randrange(256) for _ in range(rng.choice((1, 5, 30)))]
                elif kind == 'short':
                    blk = [0xFF]
                else:
                    blk = [0x00, 3] + [ord(ch) for ch in 'stray     '] + [7, 0, 0, 0x90, 0, 0x80]
                par = 0
                for b in blk:
                    par ^= b
                blk.append(par)
                stray.append(bytes([len(blk) % 256, len(blk) // 256] + blk))
            tape_bytes = b''.join(stray) + tape_bytes
            with open(tape, 'wb') as f:
                f.write(tape_bytes)
        polarity = rng.randrange(2)
        first_edge = rng.choice((0, 0, 1000, 2168, rng.randrange(0, 5000)))
        # (simulated-time limit: a configuration under which the tape no longer loads must not run for the default 15 minutes)
        base = [f'polarity={polarity}', f'first-edge={first_edge}', 'timeout=60']
        what = f'bin2tap tape ({length} bytes at {org}, stack {stack}, polarity={polarity}, first-edge={first_edge})'
        # reference: C simulator, nothing accelerated, real-time ROM load
        ref_cfg = base + ['python=0', 'accelerator=none', 'accelerate-dec-a=0', 'pause=1', 'fast-load=0', 'cmio=0']
        ref, tail = run.load(tape, ref_cfg, org)
        ref_t = run.last_t
        loaded = False
        if ref is not None:
            s, m = run.parse(ref)
            loaded = s.pc == org and bytes(m[org:org + length]) == data
        chk.case('e2e:rom:ref', ('rom', length, org, polarity, first_edge), {'tape': what, 'loaded': loaded, 'output': tail[-2:]} if n == 0 else None)
        if not loaded:
            chk.dist['e2e:rom:not-loading'] += 1
            # the property is about tapes that load: if this one loads under another setting of the speed-up options or
            # with the other simulator, that setting changed the result (PC reached / bytes loaded)
            for alt in (['python=1', 'accelerator=none', 'accelerate-dec-a=0', 'pause=1', 'fast-load=0', 'cmio=0'],
                        ['python=0', 'accelerator=auto', 'accelerate-dec-a=3', 'pause=1', 'fast-load=0', 'cmio=0'],
                        ['python=0', 'accelerator=none', 'accelerate-dec-a=0', 'pause=1', 'fast-load=1', 'cmio=0']):
                adata, atail = run.load(tape, base + alt, org)
                chk.case('e2e:rom:alt-ref', ('rom-alt', n, tuple(alt)))
                if adata is None:
                    continue
                s2, m2 = run.parse(adata)
                if s2.pc == org and bytes(m2[org:org + length]) == data:
                    chk.violation('rom-loader:reference-does-not-load:' + '+'.join(a for a, b in zip(alt, ref_cfg[len(base):]) if a != b),
                                  f'{what}: loads with [{cfg_key(base + alt)}] but not with [{cfg_key(ref_cfg)}] ({tail})',
                                  {'kind': 'strict', 'tape_name': os.path.basename(tape), 'tape': base64.b64encode(tape_bytes).decode(),
                                   'ref_cfg': base + alt, 'cfg': ref_cfg, 'start': org, 'extra': []})
                    break
            continue
        # bit-identical group (fast-load=0, cmio=0): C exhaustively, Python sampled
        combos = [(py, acc, da, pa) for py in (0, 1) for acc in ('auto', 'none', 'rom', 'rom,speedlock') for da in (0, 1, 2, 3) for pa in (0, 1)]
        c_combos = [c for c in combos if c[0] == 0]
        py_combos = [c for c in combos if c[0] == 1]
        chosen = c_combos + rng.sample(py_combos, chk.scale(1, 6) if n < 2 else chk.scale(0, 3))
        for py, acc, da, pa in chosen:
            cfg = base + [f'python={py}', f'accelerator={acc}', f'accelerate-dec-a={da}', f'pause={pa}', 'fast-load=0', 'cmio=0']
            strict_compare(chk, run, tape, tape_bytes, ref_cfg, ref, cfg, org, (), 'rom-loader:strict:' + dims_key(py, acc != 'none', da, pa), what, ref_t=ref_t)
            chk.case(f'e2e:rom:strict:python={py}', ('rom', n, py, acc, da, pa))
        # bit-identical group with fast loading on
        ref2_cfg = base + ['python=0', 'accelerator=none', 'accelerate-dec-a=0', 'pause=1', 'fast-load=1', 'cmio=0']
        ref2, _ = run.load(tape, ref2_cfg, org)
        ref2_t = run.last_t
        if ref2 is not None:
            for py, acc, da, pa in ((0, 'auto', 3, 0), (1, 'auto', 3, 1), (1, 'none', 0, 0), (0, 'rom', 1, 1)):
                cfg = base + [f'python={py}', f'accelerator={acc}', f'accelerate-dec-a={da}', f'pause={pa}', 'fast-load=1', 'cmio=0']
                strict_compare(chk, run, tape, tape_bytes, ref2_cfg, ref2, cfg, org, (), 'rom-loader:strict-fast-load:' + dims_key(py, acc != 'none', da, pa), what, ref_t=ref2_t)
                chk.case('e2e:rom:strict-fast-load', ('romfl', n, py, acc, da, pa))
        # loaded bytes / PC / SP group: fast-load x cmio
        weak = [(0, 1, 0), (0, 0, 1), (0, 1, 1), (1, 1, 0)]
        if chk.thorough or n == 0:
            weak += [(1, 1, 1)]
        if chk.thorough:
            weak += [(1, 0, 1)]
        for py, fl, cm in weak:
            cfg = base + [f'python={py}', 'accelerator=auto', 'accelerate-dec-a=3', 'pause=1', f'fast-load={fl}', f'cmio={cm}']
            weak_compare(chk, run, tape, tape_bytes, ref_cfg, ref, cfg, org, (), (org, org + length), f'rom-loader:weak:python={py}:fast-load={fl}:cmio={cm}', what)
            chk.case(f'e2e:rom:weak:fast-load={fl}:cmio={cm}', ('romweak', n, py, fl, cm))


# ---------------------------------------------------------------------------------------------
# (b) custom loaders built from the recognised loop shapes
# ---------------------------------------------------------------------------------------------

def custom_tape(run, rng, accs, name, span, nblocks, gap_ms):
    org = 0x8000 + rng.randrange(0x1000)
    dest = 0xC000 + rng.randrange(0x1000)
    length = rng.randrange(3, 14)
    datas = [bytes(rng.choice((0x00, 0xFF, 0x80, 0x01, rng.randrange(256))) for _ in range(length)) for _ in range(nblocks)]
    delay_a = rng.choice((None, ('jr', rng.randrange(1, 7)), ('jp', rng.randrange(1, 7))))
    delay_b = rng.choice((None, ('jr', rng.randrange(1, 7)), ('jp', rng.randrange(1, 7))))
    startup = [(rng.choice(('jr', 'jp')), rng.choice((0, 0, 1, 2, 0x80, 0xFF))) for _ in range(rng.choice((0, 1, 2, 2)))]
    if not any(k == 'jp' and v == 0 for k, v in startup) and rng.randrange(2):
        startup.append(('jp', 0))
    if not any(k == 'jr' and v == 0 for k, v in startup) and rng.randrange(2):
        startup.append(('jr', 0))
    fin = (rng.choice((0x00, 0x01, 0x10, 0x80, 0xFF, 0x20, rng.randrange(256))), rng.randrange(2))
    code, info = build_loader(accs, name, org, dest, length, 0xBFF0, rng, delay_a=delay_a, delay_b=delay_b, span=span, nblocks=nblocks, startup=startup, fin=fin)
    binf = run.path('l.bin')
    with open(binf, 'wb') as f:
        f.write(bytes(code))
    tapf = run.path('l.tap')
    run.bin2tap.main(['-o', str(org), '-s', str(org), '-p', str(0xBFF0), binf, tapf])
    with open(tapf, 'rb') as f:
        std = [tzx_std(b) for b in tap_blocks(f.read())]
    return dict(org=org, dest=dest, length=length, datas=datas, info=info, std=std, done=info['labels']['done'], failflag=info['labels']['failflag'],
                delays=(delay_a, delay_b, tuple(startup), ('fin',) + fin), gap_ms=gap_ms)


def custom_loaders(chk, run):
    rng = chk.rng
    accs = {n: run.loadsample.Accelerator(*a) for n, a in run.loadsample.ACCELERATORS.items()}
    names = sorted(accs)
    fixed = ['rom', 'software-projects', 'digital-integration']
    rest = [n for n in names if n not in fixed]
    if chk.thorough:
        picked = [(n, 120, 1) for n in names] + [('software-projects', 256, 1), ('digital-integration', 256, 1), ('rom', 256, 1), ('rom', 120, 2),
                                                    ('tiny', 120, 2), ('kwc-0', 120, 2)]
    else:
        picked = [('software-projects', 256, 1), ('rom', 120, 2), ('digital-integration', 120, 1)] + [(n, rng.choice((120, 120, 256)), 1) for n in rng.sample(rest, 7)]
    for name, span, nblocks in picked:
        gap_ms = rng.choice((0, 1, 3, 10)) if nblocks > 1 else 0
        t = custom_tape(run, rng, accs, name, span, nblocks, gap_ms)
        polarity = rng.randrange(2)
        first_edge = rng.choice((0, 0, 777, rng.randrange(0, 5000)))
        extra = ('-c', 'in-flags=4') if name == 'activision' else ()
        base = [f'polarity={polarity}', f'first-edge={first_edge}', 'timeout=120']
        ref_cfg = base + ['python=0', 'accelerator=none', 'accelerate-dec-a=0', 'pause=1', 'fast-load=1', 'cmio=0']
        info = t['info']
        # the pair alignment of the loader depends on the parity of the pilot: take the first that loads
        ref = None
        tried = []
        for npil in ((40, 41) if rng.random() < 0.5 else (41, 40)):
            turbo = []
            ok_tape = True
            for k, d in enumerate(t['datas']):
                turbo.append(tzx_turbo(d, info['pilot'], info['sync1'], info['sync2'], info['zero'], info['one'], npil if k == 0 else npil + (k % 2),
                                       pause=t['gap_ms'] if k + 1 < len(t['datas']) else 0))
            tape_bytes = make_tzx(t['std'] + turbo)
            tape = run.path(f'{name}.tzx')
            with open(tape, 'wb') as f:
                f.write(tape_bytes)
            data, tail = run.load(tape, ref_cfg, t['done'], extra)
            tried.append(tape_bytes)
            if data is not None:
                s, m = run.parse(data)
                want = b''.join(t['datas'])
                if s.pc == t['done'] and m[t['failflag']] == 0 and bytes(m[t['dest']:t['dest'] + len(want)]) == want:
                    ref = data
                    ref_t = run.last_t
                    break
        what = (f'custom loader built on loop shape {name!r} (counter span {span}, {nblocks} turbo block(s), delays {t["delays"]}, '
                f'polarity={polarity}, first-edge={first_edge})')
        chk.case('e2e:custom:ref', ('custom', name, span, nblocks, polarity, first_edge, t['org']),
                 {'tape': what, 'loaded': ref is not None} if name in ('rom', 'software-projects') else None)
        if ref is None:
            chk.dist['e2e:custom:not-loading'] += 1
            # as above: does the last tape tried load with the other simulator / with acceleration on?
            want = b''.join(t['datas'])
            found = False
            for tb in tried:
                with open(tape, 'wb') as f:
                    f.write(tb)
                for alt in (['python=1', 'accelerator=none', 'accelerate-dec-a=0', 'pause=1', 'fast-load=1', 'cmio=0'],
                            ['python=0', 'accelerator=auto', 'accelerate-dec-a=3', 'pause=1', 'fast-load=1', 'cmio=0']):
                    adata, atail = run.load(tape, base + alt, t['done'], extra)
                    chk.case('e2e:custom:alt-ref', ('custom-alt', name, tuple(alt), len(tb)))
                    if adata is None:
                        continue
                    s2, m2 = run.parse(adata)
                    if s2.pc == t['done'] and m2[t['failflag']] == 0 and bytes(m2[t['dest']:t['dest'] + len(want)]) == want:
                        chk.violation(f'custom-loader:{name}:reference-does-not-load:' + '+'.join(a for a, b in zip(alt, ref_cfg[len(base):]) if a != b),
                                      f'{what}: loads with [{cfg_key(base + alt)}] but not with [{cfg_key(ref_cfg)}] ({tail})',
                                      {'kind': 'strict', 'tape_name': os.path.basename(tape), 'tape': base64.b64encode(tb).decode(),
                                       'ref_cfg': base + alt, 'cfg': ref_cfg, 'start': t['done'], 'extra': list(extra)})
                        found = True
                        break
                if found:
                    break
            continue
        zero_ctr = span == 256 and not accs[name].inc
        keybase = f'custom-loader:{name}'
        if zero_ctr:
            # the DEC-counting loop is entered with its counter at 0 (256 iterations): finding `tsl-dec-counter-zero`
            # (Python skipped -1 iterations, C read out of bounds); only the accelerator differs from the reference here
            for py in (0, 1):
                cfg = base + [f'python={py}', f'accelerator={name}', 'accelerate-dec-a=0', 'pause=1', 'fast-load=1', 'cmio=0']
                strict_compare(chk, run, tape, tape_bytes, ref_cfg, ref, cfg, t['done'], extra, f'tsl-dec-counter-zero:python={py}', what, forked=(py == 0), ref_t=ref_t)
                chk.case('e2e:custom:dec-counter-zero', ('zero', name, py))
        named = [name, name + ',rom'] if name != 'rom' else ['rom', 'rom,tiny']
        combos = [(py, acc, da, pa) for py in (0, 1) for acc in ['auto', 'none'] + named for da in (0, 1, 2, 3) for pa in (0, 1)]
        c_combos = [c for c in combos if c[0] == 0]
        py_combos = [c for c in combos if c[0] == 1]
        if not chk.thorough:
            c_combos = rng.sample(c_combos, 12)
        chosen = c_combos + rng.sample(py_combos, chk.scale(5, 8))
        for py, acc, da, pa in chosen:
            cfg = base + [f'python={py}', f'accelerator={acc}', f'accelerate-dec-a={da}', f'pause={pa}', 'fast-load=1', 'cmio=0']
            accel_on = acc != 'none'
            strict_compare(chk, run, tape, tape_bytes, ref_cfg, ref, cfg, t['done'], extra,
                           keybase + ':strict:' + dims_key(py, accel_on, da, pa),
                           what, forked=(py == 0 and zero_ctr), ref_t=ref_t)
            chk.case(f'e2e:custom:strict:python={py}', ('custom', name, span, nblocks, py, acc, da, pa))
        # scratch-changing options: loaded bytes, PC, SP
        want_len = len(t['datas']) * t['length']
        weak = [(0, 0, 0), (0, 1, 1), (0, 0, 1)]
        if chk.thorough:
            weak += [(1, 1, 1)] + ([(1, 0, 0)] if len(name) % 3 == 0 else [])
        elif name == 'rom':
            weak += [(1, 1, 1)]
        for py, fl, cm in weak:
            cfg = base + [f'python={py}', 'accelerator=auto', 'accelerate-dec-a=3', 'pause=1', f'fast-load={fl}', f'cmio={cm}']
            weak_compare(chk, run, tape, tape_bytes, ref_cfg, ref, cfg, t['done'], extra, (t['dest'], t['dest'] + want_len),
                         f'custom-loader:{name}:weak:python={py}:fast-load={fl}:cmio={cm}', what)
            chk.case(f'e2e:custom:weak:fast-load={fl}:cmio={cm}', ('customweak', name, py, fl, cm))


def negative_first_edge(chk, run):
    """A first edge before the start of the tape: both simulators must treat it alike."""
    rng = chk.rng
    data = bytes(rng.randrange(256) for _ in range(9))
    binf = run.path('n.bin')
    with open(binf, 'wb') as f:
        f.write(data)
    tape = run.path('neg.tap')
    run.bin2tap.main(['-o', '40000', '-s', '40000', binf, tape])
    with open(tape, 'rb') as f:
        tape_bytes = f.read()
    fe = rng.choice((-1, -379, -2168))
    res = {}
    for py in (0, 1):
        cfg = [f'first-edge={fe}', f'python={py}', 'fast-load=1']
        res[py] = run.load(tape, cfg, 40000)
        chk.case('e2e:negative-first-edge', ('neg', fe, py), {'first-edge': fe, 'python': py, 'output': res[py][1][-2:]} if py == 0 else None)
    if (res[0][0] is None) != (res[1][0] is None) or (res[0][0] is not None and res[0][0] != res[1][0]):
        chk.violation('negative-first-edge:c-vs-python',
                      f'bin2tap tape with first-edge={fe}: python=0 gives {res[0][1][-1:]}, python=1 gives {res[1][1][-1:]}',
                      {'kind': 'strict', 'tape_name': 'neg.tap', 'tape': base64.b64encode(tape_bytes).decode(),
                       'ref_cfg': [f'first-edge={fe}', 'python=1', 'fast-load=1'], 'cfg': [f'first-edge={fe}', 'python=0', 'fast-load=1'],
                       'start': 40000, 'extra': []})


def wrapped_block_tapes(chk, run):
    """A headerless block loaded with LD-BYTES so that it runs past 0xFFFF: the part that wraps round
    addresses the ROM, which must ignore the writes whether the block is fast-loaded or really loaded.
    The program then executes EI: HALT, so the ROM's own IM 1 routine at 0x0038 runs once; the tape bytes
    that wrap onto 0x0038.. are a routine that would overwrite a loaded byte.  Weak claim of C13: loaded
    bytes, PC and SP are the same with fast-load on and off, on both simulators."""
    rng = chk.rng

    def parity(d):
        p = 0
        for b in d:
            p ^= b
        return p

    def blk(flag, d):
        body = [flag, *d]
        body.append(parity(body))
        return [len(body) % 256, len(body) // 256, *body]

    def hdr(name, typ, length, p1, p2):
        d = [typ, *[ord(c) for c in name.ljust(10)[:10]], length % 256, length // 256, p1 % 256, p1 // 256, p2 % 256, p2 // 256]
        return blk(0, d)

    for n in range(chk.scale(2, 8)):
        ram_len = rng.choice((1, 8, 64, 64, 160))              # bytes below 0x10000 (above RAMTOP 0xFF57: the BASIC stack sits just below it)
        load_addr = 0x10000 - ram_len
        over = rng.choice((0x3F, 0x40, 0x48, 0x80))            # bytes that wrap to 0x0000..
        start, stop = 0x8000, 0x800F
        code = [0xDD, 0x21, load_addr % 256, load_addr // 256, 0x11, (ram_len + over) % 256, (ram_len + over) // 256,
                0x3E, 0xFF, 0x37, 0xCD, 0x56, 0x05, 0xFB, 0x76, 0x18, 0xFE]
        data = [rng.randrange(1, 255) for _ in range(ram_len)]
        wrapped = [0] * over
        if over > 0x3E:
            v = (data[0] + 1 + rng.randrange(200)) % 256
            wrapped[0x38:0x3F] = [0x3E, v, 0x32, load_addr % 256, load_addr // 256, 0xFB, 0xC9]
        basic = [0, 10, 15, 0, 239, 34, 34, 175, 58, 249, 192, 46, 14, 0, 0, start % 256, start // 256, 0, 13]
        tap = hdr('w', 0, len(basic), 10, len(basic)) + blk(0xFF, basic) + hdr('c', 3, len(code), start, 32768) + blk(0xFF, code) + blk(0xFF, data + wrapped)
        tape = run.path(f'wrap{n}.tap')
        tape_bytes = bytes(tap)
        with open(tape, 'wb') as f:
            f.write(tape_bytes)
        ref_cfg = ['fast-load=0', 'python=0', 'timeout=300']
        ref, tail = run.load(tape, ref_cfg, stop)
        chk.case('e2e-wrapped-block', ('wrap', n), {'load_addr': load_addr, 'ram_bytes': ram_len, 'wrapped_bytes': over} if n == 0 else None)
        if ref is None:
            chk.note(f'wrapped-block tape {n}: reference configuration does not load ({tail}); skipped')
            continue
        s, m = run.parse(ref)
        if s.pc != stop or m[load_addr:0x10000] != data:
            chk.violation('wrapped-block:real-load', f'LD-BYTES at {load_addr:#x} for {ram_len}+{over} bytes, really loaded (fast-load=0): PC={s.pc} (expected {stop}), '
                          f'bytes at {load_addr:#x}.. = {m[load_addr:load_addr + 8]} (tape has {data[:8]})',
                          {'kind': 'weak', 'tape_name': os.path.basename(tape), 'tape': base64.b64encode(tape_bytes).decode(), 'ref_cfg': ref_cfg,
                           'cfg': ref_cfg, 'start': stop, 'extra': [], 'region': [load_addr, 0x10000]})
            continue
        for cfg in (['fast-load=1', 'python=0', 'timeout=300'], ['fast-load=1', 'python=1', 'timeout=300']):
            weak_compare(chk, run, tape, tape_bytes, ref_cfg, ref, cfg, stop, (), (load_addr, 0x10000), 'wrapped-block:fast-load',
                         f'headerless block loaded by LD-BYTES at {load_addr:#x} running {over} bytes past 0xFFFF (ROM must ignore them), then EI: HALT', forked=True)


def run(chk, classes):
    run_ = Runner(chk, classes)
    wrapped_block_tapes(chk, run_)
    negative_first_edge(chk, run_)
    rom_tapes(chk, run_)
    custom_loaders(chk, run_)


def replay(chk, classes, data):
    run_ = Runner(chk, classes)
    if data.get('kind') == 'walk':
        from props import c13_corr
        (loadsample,) = fresh_import('skoolkit.loadsample')
        n0 = len(chk.violations)
        c13_corr.walks(chk, loadsample, classes)
        return len(chk.violations) > n0
    tape = run_.path(data['tape_name'])
    tape_bytes = base64.b64decode(data['tape'])
    with open(tape, 'wb') as f:
        f.write(tape_bytes)
    ref, tail = run_.load(tape, data['ref_cfg'], data['start'], tuple(data['extra']))
    ref_t = run_.last_t
    if ref is None:
        print('reference configuration does not load:', tail)
        return False
    n0 = len(chk.violations)
    if data['kind'] == 'strict':
        strict_compare(chk, run_, tape, tape_bytes, data['ref_cfg'], ref, data['cfg'], data['start'], tuple(data['extra']), 'replay', 'replay', forked=True, ref_t=ref_t)
    else:
        weak_compare(chk, run_, tape, tape_bytes, data['ref_cfg'], ref, data['cfg'], data['start'], tuple(data['extra']), tuple(data['region']), 'replay', 'replay', forked=True)
    for v in chk.violations[n0:]:
        print(v['desc'])
    return len(chk.violations) > n0
