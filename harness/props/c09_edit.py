"""C09 correspondence streams for the hand models Model/SnapEdit.lean (poke/move/patch/_get_page on
a flat list and on a Memory), Model/SnapHeader.lean (header field encodings) and the version 2/3
page-block reader of Model/Z80Rle.lean.  Every function returns (ops, impl): the op lines for
Drivers/C09.lean and what the real code answers to the same ops (canonical text)."""
import os

MOD = 1000000007
ERRS = (('Value missing in poke spec', 'noValue'), ('Invalid page number in', 'badPage'),
        ('Invalid value in poke spec', 'badValue'), ('Invalid address range in poke spec', 'badRange'),
        ('Not enough arguments in move spec', 'fewArgs'), ('Invalid integer in move spec', 'badInt'),
        ('Filename missing in patch spec', 'noFile'), ('Invalid address in patch spec', 'badAddr'))


def cell_val(k, b, i):
    return (i * k + b * 37 + i // 251) % 256


BASE = [cell_val(7, 0, i) for i in range(16384)]


def mk_bank(k, b):
    r = (k * 97 + b * 1009) % 16384
    return BASE[r:] + BASE[:r]


def wsum(l):
    acc = 0
    for i, v in enumerate(l):
        acc = (acc + (i + 1) * (v + 1)) % MOD
    return acc


def diff_list(old, new):
    if old == new:
        return ''
    if len(old) != len(new):
        return f'len={len(new)},w={wsum(new)}'
    ch = [(i, b) for i, (a, b) in enumerate(zip(old, new)) if a != b]
    if len(ch) > 48:
        return f'n={len(ch)},w={wsum([v for _, v in ch])},first={ch[0][0]},last={ch[-1][0]}'
    return ','.join(f'{i}={v}' for i, v in ch)


def err_kind(snapshot_mod, e):
    from skoolkit import SkoolKitError
    if isinstance(e, SkoolKitError):
        msg = e.args[0] if e.args else ''
        for prefix, kind in ERRS:
            if msg.startswith(prefix):
                return kind
        return 'skoolkit:' + msg[:40]
    if isinstance(e, IndexError):
        return 'index'
    if isinstance(e, TypeError):
        return 'type'
    if isinstance(e, ValueError):
        return 'stepZero' if 'arg 3 must not be zero' in str(e) else 'value:' + str(e)[:40]
    return type(e).__name__


class RealMem:
    """A real skoolkit.snapshot.Memory and the view of it the driver prints."""

    def __init__(self, snapshot, k, s, mask):
        self.kind = None
        if s == (8, 9, 10):
            flat = [0] * 16384 + mk_bank(k, 8) + mk_bank(k, 9) + mk_bank(k, 10)
            self.mem = snapshot.Memory(flat)
            self.objs = lambda: [self.mem.memory[0]] + list(self.mem.banks) + self.mem.memory[1:4]
        else:
            banks = {b: mk_bank(k, b) for b in range(8) if (mask >> b) & 1}
            if s[:2] == (5, 2):
                self.mem = snapshot.Memory(banks=banks, page=s[2])
            else:
                assert s == (5, 1, 2)
                self.mem = snapshot.Memory(banks=banks)
            self.objs = lambda: [self.mem.memory[0]] + list(self.mem.banks)
        self.save()

    def save(self):
        self.saved = [None if o is None else list(o) for o in self.objs()]

    def restore(self):
        for o, s in zip(self.objs(), self.saved):
            if o is not None:
                o[:] = s

    def diff(self):
        parts = []
        for i, (s, o) in enumerate(zip(self.saved, self.objs())):
            if (s is None) != (o is None):
                d = 'presence'
            elif s is None:
                d = ''
            else:
                d = diff_list(s, o)
            if d:
                parts.append(('rom' if i == 0 else f'b{i - 1}') + ':' + d)
        return ' '.join(parts)


def numeral(rng, n, accept0x=True):
    r = rng.randrange(10)
    if r < 6:
        return str(n)
    if r == 6 and accept0x:
        return f'0x{n:x}' if rng.randrange(2) else f'0x{n:04X}'
    if r == 7:
        return f'${n:X}'
    if r == 8 and n < 4096:
        return f'%{n:b}'
    return ('0' * rng.randrange(3)) + str(n)


BAD_NUM = ('x', '12a', '0x', '$', '%', '%2', '0X10', 'g', '$g', '1.5', '0x1g', '%12', '$-', '#1', '')
FLAT_EDGES = (0, 1, 16383, 16384, 16385, 23296, 32767, 32768, 49151, 49152, 65534, 65535, 65536, 65537, 70000)
BANK_EDGES = (0, 1, 2, 100, 8191, 16382, 16383, 16384, 16385, 32768, 49151, 49152 + 5, 65535, 65536 + 7)

# Cost model of the Lean side: the model works on `List`s, so one cell write at index i costs O(i).
# `heavy` (rare) allows long element-wise loops; slice operations are linear and never restricted.


def pick_addr(rng, edges, limit):
    r = rng.randrange(4)
    if r == 0:
        return rng.choice(edges)
    if r == 1:
        return max(0, rng.choice(edges) - rng.randrange(12))
    return rng.randrange(limit)


def page_prefix(rng, allow_none=True, bad=False):
    if bad and rng.randrange(25) == 0:
        return rng.choice(BAD_NUM) + ':'
    r = rng.randrange(10)
    if allow_none and r < 3:
        return ''
    if r < 8:
        return numeral(rng, rng.randrange(8), accept0x=False) + ':'
    return numeral(rng, rng.choice((8, 9, 10, 11, 13, 15, 16, 23, 255, 256 + 3)), accept0x=False) + ':'


def gen_poke(rng, paged, limit, malformed=True, heavy=False):
    if malformed and rng.randrange(30) == 0:
        return rng.choice(('30000', '30000-', ',', ':,', '1:2:3,4', '30000,', '30000,^', '30000,+', '-,1', '1-2-3-4,5',
                           '1--2,5', '5,1,2', '3:,1', '3:5-,1', ':5,1', '30000,x', '5-3,1', '7-7-0,1'))
    edges = BANK_EDGES if paged else [e for e in FLAT_EDGES if e <= limit + 5000] + [limit - 1, limit, limit + 1]
    a = pick_addr(rng, edges, limit)
    r = rng.randrange(10)
    parts = [a]
    if r >= 3:
        if heavy:
            count, step = rng.choice(((260, 64), (520, 32), (131, 128), (1030, 16) if paged else (300, 200)))
        else:
            count = rng.choice((0, 1, 1, 2, 3, 5, 9))
            step = rng.choice((1, 1, 1, 2, 3, 5, 7, 16, 255, 256, 1000, 4096, 8192, 16383, 16384, 16385, 32768)) if r >= 6 else 1
        b = a + max(0, count - 1) * step + (rng.randrange(step) if count else 0)
        if count == 0:
            b = max(0, a - rng.randrange(1, 4))
        parts.append(b)
        if r >= 6 or step > 1:
            parts.append(step if rng.randrange(25) else 0)
    nums = [numeral(rng, n) for n in parts]
    if malformed and rng.randrange(30) == 0:
        nums[rng.randrange(len(nums))] = rng.choice(BAD_NUM)
    op = rng.choice(('', '', '^', '+'))
    v = rng.choice((0, 1, 127, 128, 255, rng.randrange(256), rng.randrange(256), 256, 257, 511, 65535))
    val = numeral(rng, v)
    if malformed and rng.randrange(30) == 0:
        val = rng.choice(BAD_NUM)
    return (page_prefix(rng, bad=malformed) if paged else '') + '-'.join(nums) + ',' + op + val


def gen_move(rng, paged, limit, malformed=True, elementwise=False, heavy=False):
    """`elementwise`: the move goes through Memory.__getitem__/__setitem__ (no bank prefix on a Memory)."""
    if malformed and rng.randrange(30) == 0:
        return rng.choice(('1,2', '1', ',,', '1,2,', ',2,3', '1,,3', '1:,2,3', '1:2,3,4:', '1,2,3,4', 'a,b,c', '3:1,2,x:4'))
    edges = BANK_EDGES if paged else [e for e in FLAT_EDGES if e <= limit + 5000] + [limit - 1, limit, limit + 1]
    src = pick_addr(rng, edges, limit)
    dest = pick_addr(rng, edges, limit)
    r = rng.randrange(8)
    if elementwise:
        n = rng.choice((300, 700)) if heavy else rng.choice((0, 1, 2, 3, 7, 12, 30))
    elif r == 0:
        n = rng.choice((0, 1, 2, 16383, 16384, 16385, 32768, 40000, 65536, limit, limit + 1))
    elif r == 1:
        n = rng.randrange(20000)
    else:
        n = rng.randrange(40)
    if rng.randrange(4) == 0:
        dest = max(0, src + rng.randrange(-n - 1, n + 2))          # overlapping ranges
    if paged:
        sp = page_prefix(rng, allow_none=rng.randrange(6) == 0, bad=malformed)
        dp = page_prefix(rng, allow_none=True, bad=malformed)
        if rng.randrange(5) == 0:
            dp = rng.choice(('0:', '0:', sp))                        # destination bank 0 / same bank
        if rng.randrange(8) == 0:
            sp = '0:'
    else:
        sp = dp = ''
    nums = [numeral(rng, src), numeral(rng, n), numeral(rng, dest)]
    if malformed and rng.randrange(30) == 0:
        nums[rng.randrange(3)] = rng.choice(BAD_NUM)
    return f'{sp}{nums[0]},{nums[1]},{dp}{nums[2]}'


def gen_patch(rng, paged, limit, malformed=True, elementwise=False):
    """Returns (address part, data)."""
    edges = BANK_EDGES if paged else [e for e in FLAT_EDGES if e <= limit + 5000] + [limit - 1, limit, limit + 1]
    a = pick_addr(rng, edges, limit)
    r = rng.randrange(40)
    if elementwise:
        n = rng.choice((0, 1, 2, 3, 5, 17, 40))
    elif r == 0:
        n = rng.choice((16384, 16385, 20000))
    elif r == 1:
        n = rng.choice((49151, 49152, 49153, 49160))
    else:
        n = rng.choice((0, 1, 2, 3, 5, 17, 60))
    k = rng.randrange(1, 255)
    data = [(k + 3 * i) % 256 for i in range(n)]
    num = numeral(rng, a)
    if malformed and rng.randrange(30) == 0:
        num = rng.choice(BAD_NUM)
    return (page_prefix(rng, bad=malformed) if paged else '') + num, data


def edit_ops(chk, snapshot):
    """Stateful op stream: real functions on real objects vs the model's state."""
    rng = chk.rng
    ops, impl = [], []
    pfile = os.path.join(chk.scratch, 'patch.bin')
    assert ',' not in pfile and ':' not in pfile and ' ' not in pfile

    def emit(op, res, tag, key=None):
        ops.append(op)
        impl.append(res)
        if tag != 'edit-init':
            tag += ':' + (res[4:] if res.startswith('err') else 'unchanged' if res == 'ok' else 'resized' if 'len=' in res
                          else 'rom-only' if res.startswith('ok rom:') and ' b' not in res else 'changed')
        chk.case(tag, key)

    def run_real(fn, target, spec, restore):
        try:
            fn(target, spec)
        except Exception as e:            # noqa: every exception class is part of the comparison
            restore()
            return 'err ' + err_kind(snapshot, e)
        return None

    def ok(d):
        return ('ok ' + d).rstrip()

    # ---- (a) flat lists ------------------------------------------------
    n_flat = chk.scale(400, 3000)
    flat = None
    for i in range(n_flat):
        if flat is None or i % 10 == 0 or not 0 < len(flat) < 140000:
            n = rng.choice((65536, 49152, 1000, 300, 300, 2000, 70000))
            k = rng.randrange(1, 256)
            flat = [cell_val(k, 0, j) for j in range(n)]
            emit(f'flat {n} {k}', 'ok', 'edit-init')
        old = list(flat)
        limit = len(flat)

        def restore():
            flat[:] = old
        kind = rng.randrange(7)
        paged = rng.randrange(8) == 0        # bank prefixes are ignored on a list
        if kind < 3:
            spec = gen_poke(rng, paged, limit if limit < 5000 or rng.randrange(3) else 3000, heavy=False)
            r = run_real(snapshot.poke, flat, spec, restore)
            emit('fpoke ' + spec, r or ok(diff_list(old, flat)), 'flat-poke', ('fp', spec))
        elif kind < 5:
            spec = gen_move(rng, paged, limit)
            r = run_real(snapshot.move, flat, spec, restore)
            emit('fmove ' + spec, r or ok(diff_list(old, flat)), 'flat-move', ('fm', spec))
        else:
            a, data = gen_patch(rng, paged, limit)
            with open(pfile, 'wb') as f:
                f.write(bytes(data))
            spec = a if rng.randrange(40) == 0 else a + ',' + pfile
            r = run_real(snapshot.patch, flat, spec, restore)
            emit(f'fpatch {spec} ' + ' '.join(map(str, data)), r or ok(diff_list(old, flat)), 'flat-patch', ('fpa', a, len(data)))

    # ---- (b) Memory objects --------------------------------------------
    n_mem = chk.scale(550, 4500)
    rm = None
    for i in range(n_mem):
        if rm is None or i % 8 == 0:
            k = rng.randrange(1, 256)
            r = rng.randrange(10)
            if r < 5:
                s, mask = (5, 2, rng.randrange(8)), 255                      # 128K, any page (incl. 2 and 5: aliased windows)
            elif r < 7:
                s, mask = (5, 2, 0), 0b00100101                              # 48K SZX / Z80 v1
            elif r == 7:
                s, mask = (5, 1, 2), 0b00100110                              # 48K Z80 v2/v3
            elif r == 8:
                s, mask = (8, 9, 10), 0b11100000000                          # Memory(flat 64K) (bin2sna)
            else:
                s, mask = (5, 2, rng.randrange(8)), 0b00100101               # 48K banks, paged-in bank missing
            rm = RealMem(snapshot, k, s, mask)
            emit(f'mem {k} {s[0]} {s[1]} {s[2]} {mask}', 'ok', 'edit-init')
        kind = rng.randrange(7)
        paged = rng.randrange(3) > 0
        heavy = rng.randrange(chk.scale(60, 40)) == 0
        sfx = '-bank' if paged else '-flat'
        if kind < 3:
            spec = gen_poke(rng, paged, 16384 if paged else 65536, heavy=heavy)
            r = run_real(snapshot.poke, rm.mem, spec, rm.restore)
            emit('mpoke ' + spec, r or ok(rm.diff()), 'mem-poke' + sfx, ('mp', spec))
        elif kind < 5:
            spec = gen_move(rng, paged, 16384 if paged else 65536, elementwise=not paged, heavy=heavy)
            elementwise = ':' not in spec.split(',')[0]
            if elementwise and ':' in spec:
                pass    # destination prefix without a source prefix: the flat path is taken
            r = run_real(snapshot.move, rm.mem, spec, rm.restore)
            emit('mmove ' + spec, r or ok(rm.diff()), 'mem-move' + sfx, ('mm', spec))
        else:
            a, data = gen_patch(rng, paged, 16384 if paged else 65536, elementwise=not paged)
            with open(pfile, 'wb') as f:
                f.write(bytes(data))
            spec = a if rng.randrange(40) == 0 else a + ',' + pfile
            r = run_real(snapshot.patch, rm.mem, spec, rm.restore)
            emit(f'mpatch {spec} ' + ' '.join(map(str, data)), r or ok(rm.diff()), 'mem-patch' + sfx, ('mpa', a, len(data)))
        rm.save()
    # ---- get_int_param ---------------------------------------------------
    import skoolkit
    for _ in range(chk.scale(150, 1500)):
        s = rng.choice(BAD_NUM) if rng.randrange(3) == 0 else numeral(rng, rng.choice((0, 7, 255, 65535, rng.randrange(1 << 20))))
        if not s:
            continue
        acc = rng.randrange(2)
        try:
            r = f'ok {skoolkit.get_int_param(s, bool(acc))}'
        except ValueError:
            r = 'err value'
        emit(f'int {s} {acc}', r, 'int-param', ('int', s, acc))
    return ops, impl


# ---- header fields ----------------------------------------------------------------------------

def header_ops(chk, snapshot):
    rng = chk.rng
    ops, impl = [], []

    def emit(op, res, tag):
        ops.append(op)
        impl.append(res)
        chk.case(tag, (tag, op))

    z48 = snapshot.Z80(ram=[0] * 49152)
    z128 = snapshot.Z80(ram=[[0] * 16384] * 8, machine='128K')
    base = {69888: bytearray(z48.data()), 70908: bytearray(z128.data())}
    sz = {69888: snapshot.SZX(ram=[0] * 49152), 70908: snapshot.SZX(ram=[[0] * 16384] * 8, machine='128K')}
    for s in sz.values():
        s.set_registers_and_state([], ['border=0'])
    szbase = {f: bytearray(s.data()) for f, s in sz.items()}

    def tvals(frame):
        return [0, 1, frame // 4 - 1, frame // 4, frame // 4 + 1, frame // 2 - 1, frame // 2, 3 * (frame // 4) - 1,
                3 * (frame // 4), frame - 2, frame - 1, frame, frame + 1, 2 * frame + 17472, 2 ** 24 - 1, 2 ** 24, 2 ** 24 + 87,
                2 ** 32 + 5]
    n = chk.scale(60, 600)
    for frame, z in ((69888, z48), (70908, z128)):
        for t in tvals(frame) + [rng.randrange(frame) for _ in range(n)] + [rng.randrange(2 ** 26) for _ in range(n // 4)]:
            z._set_state([f'tstates={t}'])
            emit(f'z80wt {frame} {t}', 'ok ' + ' '.join(map(str, z.header[55:58])), 'hdr-z80-tstates-write')
            s = sz[frame]
            s.set_registers_and_state([], [f'tstates={t}'])
            emit(f'szxwt {frame} {t}', 'ok ' + ' '.join(map(str, s.blocks[b'Z80R'][29:32])), 'hdr-szx-tstates-write')
        q = frame // 4
        trip = [(a, b, c) for c in (0, 1, 2, 3, 4, 7, 255) for (a, b) in ((0, 0), (255, 255), ((q - 1) % 256, (q - 1) // 256), (q % 256, q // 256))]
        trip += [(rng.randrange(256), rng.randrange(256), rng.randrange(256)) for _ in range(n)]
        for a, b, c in trip:
            d = bytearray(base[frame])
            d[55:58] = (a, b, c)
            emit(f'z80rt {frame} {a} {b} {c}', f'ok {snapshot.Z80(bytes(d)).tstates}', 'hdr-z80-tstates-read')
    # SZX dwCyclesStart reader (4 bytes)
    d0 = szbase[69888]
    off = bytes(d0).index(b'Z80R') + 8
    for _ in range(n):
        bs = [rng.choice((0, 255, rng.randrange(256))) for _ in range(4)]
        d = bytearray(d0)
        d[off + 29:off + 33] = bs
        emit('szxrt ' + ' '.join(map(str, bs)), f'ok {snapshot.SZX(bytes(d)).tstates}', 'hdr-szx-tstates-read')
    # 16-bit words: every 16-bit register of both formats
    regs16 = ('bc', 'de', 'hl', 'ix', 'iy', 'sp', 'pc', '^bc', '^de', '^hl')
    wvals = [0, 1, 255, 256, 257, 32767, 32768, 65535, 65536, 65537, 131071, -1, -256, -32768, -65536, -65537]
    wvals += [rng.randrange(65536) for _ in range(n // 3)]
    for i, v in enumerate(wvals):
        reg = regs16[i % len(regs16)]
        z48._set_registers([f'{reg}={v}'])
        o = snapshot.Z80_REGISTERS[reg]
        emit(f'z80ww {v}', f'ok {z48.header[o]} {z48.header[o + 1]}', 'hdr-z80-word-write')
        s = sz[69888]
        s.set_registers_and_state([f'{reg}={v}'], [])
        o = snapshot.SZX_REGISTERS[reg]
        emit(f'szxww {v}', f'ok {s.blocks[b"Z80R"][o]} {s.blocks[b"Z80R"][o + 1]}', 'hdr-szx-word-write')
    attr = {'^bc': 'bc2', '^de': 'de2', '^hl': 'hl2'}
    for i in range(n):
        a, b = rng.choice((0, 255, rng.randrange(256))), rng.choice((0, 255, rng.randrange(256)))
        reg = regs16[i % len(regs16)]
        d = bytearray(base[69888])
        o = snapshot.Z80_REGISTERS[reg]
        d[o:o + 2] = (a, b)
        emit(f'rw {a} {b}', f'ok {getattr(snapshot.Z80(bytes(d)), attr.get(reg, reg))}', 'hdr-z80-word-read')
        d = bytearray(d0)
        o = off + snapshot.SZX_REGISTERS[reg]
        d[o:o + 2] = (a, b)
        emit(f'rw {a} {b}', f'ok {getattr(snapshot.SZX(bytes(d)), attr.get(reg, reg))}', 'hdr-szx-word-read')
    # byte 12 of the Z80 header: R bit 7, border, (compression flag)
    for h12 in list(range(0, 256, 1 if chk.thorough else 5)) + [255]:
        for v in (0, 1, 127, 128, 129, 255, 256, 384, rng.randrange(65536)):
            z48.header[12] = h12
            z48._set_registers([f'r={v}'])
            emit(f'wr {h12} {v}', f'ok {z48.header[11]} {z48.header[12]}', 'hdr-z80-r-write')
        for v in (0, 1, 5, 7, 8, 9, 255, rng.randrange(1000)):
            z48.header[12] = h12
            z48._set_state([f'border={v}'])
            emit(f'wb {h12} {v}', f'ok {z48.header[12]}', 'hdr-z80-border-write')
        for h11 in (0, 127, 128, 255, rng.randrange(256)):
            d = bytearray(base[69888])
            d[11], d[12] = h11, h12
            zz = snapshot.Z80(bytes(d))
            emit(f'rr {h11} {h12}', f'ok {zz.r} {zz.border}', 'hdr-z80-r-border-read')
    z48.header[12] = 0
    for h29 in range(0, 256, 1 if chk.thorough else 3):
        for v in (0, 1, 2, 3, 4, 5, 255):
            z48.header[29] = h29
            z48._set_state([f'im={v}'])
            emit(f'wim {h29} {v}', f'ok {z48.header[29]}', 'hdr-z80-im-write')
            z48.header[29] = h29
            z48._set_state([f'issue2={v}'])
            emit(f'wissue2 {h29} {v}', f'ok {z48.header[29]}', 'hdr-z80-issue2-write')
        d = bytearray(base[69888])
        d[29] = h29
        emit(f'rim {h29}', f'ok {snapshot.Z80(bytes(d)).im}', 'hdr-z80-im-read')
    return ops, impl


# ---- version 2/3 page-block reader ------------------------------------------------------------

def pages_ops(chk, snapshot):
    rng = chk.rng
    ops, impl = [], []
    z = snapshot.Z80()
    hdr = [0] * 86
    hdr[30] = 54
    hdr[34] = 4

    def page_data():
        if rng.randrange(4) == 0:
            return [rng.randrange(256)] * 16384
        out = []
        while len(out) < 16384:
            out += [rng.choice((237, 0, rng.randrange(256)))] * rng.choice((1, 2, 5, 200, 255, 256, 3000))
        return out[:16384]

    for n in range(chk.scale(40, 300)):
        stream = []
        kind = rng.randrange(8)
        for _ in range(rng.choice((0, 1, 2, 3, 8))):
            d = page_data()
            page = rng.choice((3, 4, 5, 8, 10, rng.randrange(256)))
            if kind == 1 and rng.randrange(3) == 0:
                stream += [255, 255, page] + d                       # uncompressed block
            else:
                stream += list(z._make_z80_ram_block(d, page))
        if kind == 2 and stream:
            stream = stream[:rng.randrange(len(stream))]             # truncated
        elif kind == 3:
            stream += [rng.randrange(256) for _ in range(rng.randrange(1, 9))]   # trailing garbage
        elif kind == 4 and len(stream) > 8:
            stream[rng.randrange(len(stream))] = rng.choice((0, 237, 255))
        try:
            s = snapshot.Z80(bytes(hdr + stream))
            got = {b: data for b, data in enumerate(s.memory.banks) if data is not None}
            res = 'ok-dict ' + ' '.join(f'{b}:{len(d)}:{wsum(d)}' for b, d in sorted(got.items()))
        except snapshot.SnapshotError as e:
            res = 'err zeroRun' if 'ED ED 00' in e.args[0] else 'err badLength'
        except IndexError:
            res = 'err truncated'
        except TypeError:
            res = 'exc TypeError'
        ops.append('pages ' + ' '.join(map(str, stream)))
        impl.append(res)
        chk.case('pages-' + ('ok' if res.startswith('ok') else res.split()[1]), ('pages', n))
    return ops, impl


def wpages_ops(chk, snapshot):
    """Z80.data() page writer (version 2/3 branch) vs Z80Rle.writePages."""
    rng = chk.rng
    ops, impl = [], []
    for n in range(chk.scale(60, 600)):
        descs, banks = [], []
        for _ in range(rng.choice((0, 1, 3, 8, 8, 11))):
            r = rng.randrange(6)
            if r == 0:
                descs.append('-')
                banks.append(None)
            elif r == 1:
                descs.append('e')
                banks.append([])
            else:
                runs = [(rng.choice((237, 0, rng.randrange(256))), rng.choice((1, 2, 4, 5, 6, 254, 255, 256, 700))) for _ in range(rng.randrange(1, 7))]
                if rng.randrange(3) == 0:
                    runs = [(rng.randrange(256), 16384)]
                descs.append(','.join(f'{v}*{k}' for v, k in runs))
                banks.append([v for v, k in runs for _ in range(k)])
        z = snapshot.Z80(ram=[[0] * 16384] * 8, machine='128K')
        z.memory.banks = banks
        res = 'ok ' + ' '.join(map(str, z.data()[len(z.header):]))
        ops.append('wpages 3 ' + ' '.join(descs))
        impl.append(res)
        chk.case('wpages', ('wpages', n))
    return ops, impl


def norm_pages(model_line, impl_line):
    """The model returns the assignments `banks[bank] = …` in order; the real reader keeps them in a
    dict that Memory() turns into `[banks.get(i) for i in range(max(8, max(banks)))]` (an empty dict
    makes Memory() raise TypeError).  Compare in that form: later assignments win."""
    if not model_line.startswith('ok'):
        return model_line, impl_line
    d = {}
    for item in model_line.split()[1:]:
        b, ln, w = item.split(':')
        d[int(b)] = (ln, w)
    if not d:
        return 'exc TypeError', impl_line
    lst = [d.get(i) for i in range(max(8, max(d)))]
    return 'ok-dict ' + ' '.join(f'{i}:{v[0]}:{v[1]}' for i, v in enumerate(lst) if v is not None), impl_line
