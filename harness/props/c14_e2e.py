"""C14 end-to-end part: generators, the real-tool pipeline and the property oracle.

Kept separate from c14.py (correspondence / Lean part) only for readability; imported by it.
Everything here talks to the REAL tools (sna2ctl.main, sna2skool.main, skool2bin.main,
trace.main, skoolkit.simulator) in-process; nothing is modelled.
"""
import contextlib
import io
import os
import re
import signal

TEXT_DEFAULT = "0123456789abcdefghijklmnopqrstuvwxyzABCDEFGHIJKLMNOPQRSTUVWXYZ !\"$%&'()*+,-./:;<=>?[]"
MAP_FORMATS = ('rzxplay', 'fuse', 'spud', 'specemu-log', 'specemu-map', 'z80-map', 'zero-dec', 'zero-hex')
# one-byte opcodes that look like code to the generator heuristics (no prefix, not END)
ONE = [0x04, 0x05, 0x0C, 0x0D, 0x14, 0x23, 0x2B, 0x3C, 0x3D, 0x47, 0x4F, 0x78, 0x79, 0x7E, 0x77, 0x80, 0x87, 0x90,
       0xA7, 0xAF, 0xB7, 0xB8, 0xC5, 0xD5, 0xE5, 0xF5, 0xC1, 0xD1, 0xE1, 0xF1, 0xEB, 0xD9, 0x08, 0x37, 0x3F, 0x2F,
       0xF3, 0xFB, 0xC0, 0xC8, 0xD0, 0xD8, 0x09, 0x19, 0x29, 0x07, 0x0F, 0x17, 0x1F, 0x76, 0x00]
TWO = [0x06, 0x0E, 0x16, 0x1E, 0x26, 0x2E, 0x36, 0x3E, 0xC6, 0xCE, 0xD6, 0xDE, 0xE6, 0xEE, 0xF6, 0xFE, 0xD3, 0xDB]
THREE = [0x01, 0x11, 0x21, 0x31, 0x22, 0x2A, 0x32, 0x3A]
JR = [0x18, 0x20, 0x28, 0x30, 0x38, 0x10]
JP = [0xC3, 0xC2, 0xCA, 0xD2, 0xDA, 0xE2, 0xEA, 0xF2, 0xFA]
CALL = [0xCD, 0xC4, 0xCC, 0xD4, 0xDC, 0xE4, 0xEC, 0xF4, 0xFC]
RST = [0xC7, 0xCF, 0xD7, 0xDF, 0xE7, 0xEF, 0xF7, 0xFF]
ENDS = [[0xC9], [0xC9], [0xC9], [0xE9], [0xDD, 0xE9], [0xFD, 0xE9], [0xED, 0x45], [0xED, 0x4D]]
CODE_TEXT = b"$%,-<=459$%<=,-"   # text characters whose opcodes do not look like data to sna2ctl


class Timeout(Exception):
    pass


@contextlib.contextmanager
def time_limit(seconds):
    """CPU-time limit (ITIMER_PROF: user+system time of this process), so that a loaded machine
    cannot produce a spurious "did not terminate"."""
    def handler(signum, frame):
        raise Timeout()
    old = signal.signal(signal.SIGPROF, handler)
    signal.setitimer(signal.ITIMER_PROF, seconds)
    try:
        yield
    finally:
        signal.setitimer(signal.ITIMER_PROF, 0)
        signal.signal(signal.SIGPROF, old)


@contextlib.contextmanager
def quiet():
    """Swallow the progress chatter read_map writes to stderr."""
    with contextlib.redirect_stderr(io.StringIO()):
        yield


# ---------------------------------------------------------------- images

def seg_random(rng, n):
    return [rng.randrange(256) for _ in range(n)]


def seg_text(rng, n):
    out = []
    words = [b'Hello', b'SCORE', b'game over', b'Press any key', b'(c) 1984', b'HI', b'a', b'Level 1!', b'0123456789']
    while len(out) < n:
        out += list(rng.choice(words))
        out += rng.choice(([], [0], [13], [255], [32], [0, 0, 0], [rng.randrange(128, 256)], [1, 2, 3]))
    return out[:n]


def seg_zeros(rng, n):
    out = []
    while len(out) < n:
        out += [0] * rng.choice((1, 2, 3, 5, 8, 17, 40))
        out += rng.choice(([], [0xC9], [1], [rng.randrange(1, 256)] * rng.choice((1, 2, 6)), [0xC3, 0, 0]))
    return out[:n]


def seg_prefix(rng, n):
    out = []
    while len(out) < n:
        k = rng.randrange(10)
        if k < 3:
            out += [rng.choice((0xDD, 0xFD))] * rng.choice((1, 1, 2, 3))
            out += [rng.choice((0x21, 0x36, 0xCB, 0xE9, 0x00, 0xED, 0xDD, 0xFD, 0x7E, 0x46, 0xC9, 0x09, rng.randrange(256)))]
        elif k < 5:
            out += [0xED, rng.choice((0x4B, 0x43, 0xB0, 0x45, 0x4D, 0x00, 0x7B, 0xED, 0xCB, 0xDD, rng.randrange(256)))]
        elif k < 7:
            out += [0xCB, rng.randrange(256)]
        elif k < 8:
            out += [rng.choice((0xDD, 0xFD)), 0xCB, rng.randrange(256), rng.randrange(256)]
        else:
            out += [rng.randrange(256) for _ in range(rng.randrange(1, 4))]
    return out[:n]


def seg_code(rng, n, base, lo, hi):
    """Routines with RET/JP/JR/CALL structure; jump targets mostly inside [lo, hi)."""
    out = []

    def target():
        r = rng.randrange(10)
        if r < 6:
            return rng.randrange(lo, max(lo + 1, hi))
        if r < 8:
            return base + len(out) + rng.randrange(-6, 12)
        return rng.choice((0, 8, 56, 0x3FFF, 0x4000, 65535, hi, hi - 1, lo))
    while len(out) < n:
        for _ in range(rng.choice((1, 2, 3, 5, 9, 14))):
            k = rng.randrange(20)
            if k < 8:
                out.append(rng.choice(ONE))
            elif k < 11:
                out += [rng.choice(TWO), rng.randrange(256)]
            elif k < 13:
                t = target() & 0xFFFF
                out += [rng.choice(THREE), t & 255, t >> 8]
            elif k < 15:
                out += [rng.choice(JR), rng.choice((0, 1, 2, 3, 5, 0xFE, 0xFD, 0xFC, 0xF0, rng.randrange(256)))]
            elif k < 17:
                t = target() & 0xFFFF
                out += [rng.choice(JP[1:] + CALL), t & 255, t >> 8]
            elif k < 18:
                out += [rng.choice(RST)] + ([rng.randrange(256)] if rng.randrange(2) else [])
            elif k < 19:
                out += seg_prefix(rng, rng.choice((2, 3, 4)))
            else:
                out += [rng.choice(ONE)] * rng.choice((2, 4, 5, 6, 8))
        e = rng.randrange(10)
        if e < 5:
            out += rng.choice(ENDS)
        elif e < 7:
            t = target() & 0xFFFF
            out += [0xC3, t & 255, t >> 8]
        elif e < 9:
            out += [0x18, rng.choice((0, 1, 2, 0xFE, 0xFC, 0xF8, rng.randrange(256)))]
        # else: fall through into whatever follows
        d = rng.randrange(10)
        if d < 2:
            out += seg_text(rng, rng.choice((3, 6, 13, 20)))
        elif d < 3:
            out += [0] * rng.choice((1, 3, 9))
        elif d < 4:
            out += seg_random(rng, rng.choice((1, 2, 5, 11)))
        elif d < 5:
            # "code-like" text: characters that decode to innocuous opcodes
            k = rng.choice((3, 11, 12, 13, 14, 20))
            out += [CODE_TEXT[(i + rng.randrange(2)) % len(CODE_TEXT)] for i in range(k)]
            out += rng.choice(([], [0x21], [0x21, 0xDD, 0x21], [0x3E], [0x20, 0xCD], [0x31, 0xDD]))
    return out[:n]


IMAGE_KINDS = ('random', 'code', 'text', 'zeros', 'prefix', 'mixed', 'codetext')


def gen_image(rng, kind, n, base, lo, hi):
    if kind == 'random':
        return seg_random(rng, n)
    if kind == 'code':
        return seg_code(rng, n, base, lo, hi)
    if kind == 'text':
        return seg_text(rng, n)
    if kind == 'zeros':
        return seg_zeros(rng, n)
    if kind == 'prefix':
        return seg_prefix(rng, n)
    if kind == 'codetext':
        out = []
        while len(out) < n:
            k = rng.choice((11, 12, 13, 16, 25))
            out += [CODE_TEXT[(i + rng.randrange(2)) % len(CODE_TEXT)] for i in range(k)]
            out += rng.choice(([0x21, 0xDD, 0x21, 0xC9], [0x21, 0x01, 0xC9, 0xC9], [0xC9], [0x3E, 0xC9, 0xC9], [0x21, 0xCD, 0xC9, 0, 0xC9],
                               seg_code(rng, 6, base + len(out), lo, hi)))
        return out[:n]
    out = []
    while len(out) < n:
        k = rng.choice(IMAGE_KINDS[:5])
        out += gen_image(rng, k, rng.choice((3, 8, 20, 50)), base + len(out), lo, hi)
    return out[:n]


SWEEP_PREFIXES = {'MAIN': (), 'CB': (0xCB,), 'ED': (0xED,), 'DD': (0xDD,), 'FD': (0xFD,), 'DDCB': (0xDD, 0xCB, 0x05), 'FDCB': (0xFD, 0xCB, 0xFB)}
SWEEP_TAIL = (0x21, 0x34, 0x12, 0x3E, 0x07, 0x11, 0x78, 0x56, 0x47, 0x4F, 0x57)   # LD HL,nn; LD A,n; LD DE,nn; 3 one-byte loads (resync)


def sweep_cases(per_image=16):
    """Deterministic opcode sweep: every slot of every prefix table once, each followed by multi-byte
    instructions (so that a wrong instruction length in sna2ctl's decoder puts the following -C
    directives inside instructions) and a one-byte resync sled. 7 x 256 / per_image cases."""
    for tbl, prefix in SWEEP_PREFIXES.items():
        for first in range(0, 256, per_image):
            data = []
            for op in range(first, first + per_image):
                data += list(prefix) + [op] + list(SWEEP_TAIL)
            data.append(0xC9)
            yield {'kind': f'sweep-{tbl}', 'org': 32768, 'data': data, 'start': None, 'end': None,
                   'opts': ['-C'] + (['-r'] if first % (2 * per_image) else []), 'ini': {}}


# ---------------------------------------------------------------- code maps

def trace_addresses(simulator_mod, mem, pcs, steps):
    """Real execution traces: run skoolkit.simulator.Simulator from each entry point."""
    seen = []
    for pc in pcs:
        m = list(mem)
        sim = simulator_mod.Simulator(m, {'SP': 0xFF00, 'PC': pc})
        regs = sim.registers
        for _ in range(steps):
            a = regs[24]
            seen.append(a)
            sim.run()
            if m[a:a + 1] == [0x76]:
                break
    return seen


def write_map(path, fmt, addresses, rng):
    """Write `addresses` (execution order, with repeats) in one of the formats read_map understands."""
    if fmt == 'z80-map':
        data = bytearray(8192)
        for a in addresses:
            data[a >> 3] |= 1 << (a & 7)
        with open(path, 'wb') as f:
            f.write(data)
        return
    if fmt == 'specemu-map':
        data = bytearray(65536)
        for a in addresses:
            data[a] |= 1
        for a in rng.sample(range(65536), 50):
            data[a] |= rng.choice((2, 4, 6, 0x80))     # other flag bits must be ignored
        with open(path, 'wb') as f:
            f.write(data)
        return
    lines = []
    if fmt == 'rzxplay':
        lines = [f'${a:04X}' for a in sorted(set(addresses))]
    elif fmt == 'fuse':
        cnt = {}
        for a in addresses:
            cnt[a] = cnt.get(a, 0) + 1
        lines = [f'0x{a:X},{c}' if a >= 0x1000 else f'0x{a:04X},{c}' for a, c in sorted(cnt.items())]
    elif fmt == 'spud':
        t = 12345
        for a in addresses:
            lines.append('PC = {0:04X}  HL = 0000  tstate = {1:05}  NOP'.format(a, t))
            t = (t + 4) % 70908
    elif fmt == 'specemu-log':
        regs = ["PC: 0x8492\tSP: 0x5E83", "IX: 0x304E\tIY: 0x5C3A", "HL: 0x3918\tHL': 0x2758",
                "DE: 0x1023\tDE': 0x369B", "BC: 0xA3EA\tBC': 0x1521", "AF: 0x0022\tAF': 0x000A"]
        lines += regs + ['']
        t = 56789
        for i, a in enumerate(addresses):
            lines.append('{0:04X}  {1:>5}\tNOP'.format(a, t))
            t = (t + 4) % 69888
            if i % 50 == 49:
                lines += [''] + regs + ['']
        lines += [''] + regs
    elif fmt in ('zero-dec', 'zero-hex'):
        dec = fmt == 'zero-dec'
        lines = ['All numbers are in {}decimal'.format('' if dec else 'hexa'), '']
        t = 47
        for a in addresses:
            lines.append('{0}\t{1:<5}\tNOP'.format(str(a) if dec else '{:x}'.format(a), t))
            t = (t + 4) % 69888
    text = '\n'.join(lines) + '\n'
    if len(text.encode()) in (8192, 65536):
        text += '\n'
    with open(path, 'w') as f:
        f.write(text)


# ---------------------------------------------------------------- running the real tools

def call_tool(main, args, limit=30.0):
    """Run a skoolkit tool; a run that exceeds `limit` CPU-seconds is repeated once with ten times
    the budget before it is reported as not terminating."""
    res = call_tool1(main, args, limit)
    if res[2] and res[2][0] == 'timeout':
        res = call_tool1(main, args, 10 * limit)
    return res


def call_tool1(main, args, limit):
    """Run a skoolkit `main(args)` in-process. Returns (stdout, stderr, exc) where exc is None,
    ('timeout', ''), ('exit', code) or (ExceptionTypeName, 'function:lineno-independent location')."""
    out, err = io.StringIO(), io.StringIO()
    exc = None
    try:
        with contextlib.redirect_stdout(out), contextlib.redirect_stderr(err), time_limit(limit):
            main(args)
    except Timeout:
        exc = ('timeout', '')
    except SystemExit as e:
        exc = ('exit', str(e.code))
    except Exception as e:       # noqa: the oracle classifies every exception
        tb = e.__traceback__
        fn = ''
        detail = ''
        while tb is not None:
            code = tb.tb_frame.f_code
            if '/skoolkit/' in code.co_filename:
                fn = os.path.basename(code.co_filename)[:-3] + '.' + code.co_name
                ins = tb.tb_frame.f_locals.get('instruction')
                if code.co_name == 'get_comment' and ins is not None:
                    # -C: which instruction was handed to the comment generator
                    b = list(getattr(ins, 'bytes', ()))
                    a = getattr(ins, 'address', -1)
                    if a + len(b) >= 65536:
                        detail = 'comment-on-instruction-truncated-at-64K'
                    elif b in ([0xDD], [0xFD]):
                        detail = 'comment-on-bare-ddfd-prefix'
                    else:
                        detail = 'comment-on-' + '-'.join('%02X' % v for v in b[:4])
            tb = tb.tb_next
        if detail:
            fn = detail
        exc = (type(e).__name__, fn + ': ' + str(e)[:200])
    return out.getvalue(), err.getvalue(), exc


def parse_ctl(text):
    """Parse sna2ctl's output with an independent mini-parser.
    Returns (asm, blocks, subs, junk): asm = [(addr, directive)], blocks = [(addr, letter)],
    subs = [(block_addr, addr, letter, rest)], junk = unparseable lines."""
    asm, blocks, subs, junk = [], [], [], []

    def num(s):
        if s.startswith('$'):
            return int(s[1:], 16)
        return int(s)
    for line in text.split('\n'):
        if not line:
            continue
        m = re.fullmatch(r'@ (\$[0-9A-Fa-f]{4}|\d+) (\S+)', line)
        if m:
            asm.append((num(m.group(1)), m.group(2)))
            continue
        m = re.fullmatch(r'(\S) (\$[0-9A-Fa-f]{4}|\d+)', line)
        if m and m.group(1) not in 'BCSTW' and not m.group(1).isdigit():
            blocks.append((num(m.group(2)), m.group(1)))
            continue
        m = re.fullmatch(r'([ BCSTW]) (\$[0-9A-Fa-f]{4}|\d+)((?:,[^ ]*)?)((?: .*)?)', line)
        if m and blocks:
            subs.append((blocks[-1][0], num(m.group(2)), m.group(1), m.group(3) + m.group(4)))
            continue
        junk.append(line)
    return asm, blocks, subs, junk


def parse_skool(text):
    """Instruction lines of a skool file: [(ctl_char, address, operation)]."""
    res = []
    for line in text.split('\n'):
        m = re.match(r'([ bcgistuw*])(\d{5}) (.*?)(?: +;.*)?$', line)
        if m:
            res.append((m.group(1), int(m.group(2)), m.group(3).rstrip()))
    return res


RST8_RE = re.compile(r'RST (8|\$08|\$8)', re.I)


def mem_at(case, a):
    i = a - case['org']
    return case['data'][i] if 0 <= i < len(case['data']) else 0


def effective_range(case):
    if case.get('is_snapshot'):
        return (case['start'] if case['start'] is not None else 16384), (case['end'] if case['end'] is not None else 65536)
    n = len(case['data'])
    org = case['org']
    start = max(org, case['start'] if case['start'] is not None else 0)
    end = min(case['end'] if case['end'] is not None else 65536, org + n)
    return start, end


def accepted_map_addresses(case):
    start, end = effective_range(case)
    return sorted(set(a for a in case.get('map') or () if start <= a < end))


def run_case(mods, case, scratch, with_skool=True, cause=None):
    """Evaluate C14 on one case with the real tools. Returns (failures, info): failures is a list of
    (key, description); info has the parsed ctl for tagging."""
    sna2ctl, sna2skool, skool2bin = mods['sna2ctl'], mods['sna2skool'], mods['skool2bin']
    fails = []
    if case.get('is_snapshot'):
        binf = os.path.join(scratch, 'snap.' + case['kind'].split('-')[1])
        mods['snapshot'].write_snapshot(binf, case['data'], (), ())
        args = []
    else:
        binf = os.path.join(scratch, 'img.bin')
        with open(binf, 'wb') as f:
            f.write(bytes(case['data']))
        args = ['-o', str(case['org'])]
    if case['start'] is not None:
        args += ['-s', str(case['start'])]
    if case['end'] is not None:
        args += ['-e', str(case['end'])]
    path = 'nomap'
    if case.get('map') is not None:
        path = 'map'
        mapf = os.path.join(scratch, 'code.map')
        import random
        write_map(mapf, case['map_fmt'], case['map'], random.Random(case.get('map_seed', 0)))
        args += ['-m', mapf]
    args += list(case.get('opts', ()))
    for k, v in case.get('ini', {}).items():
        args += ['-I', f'{k}={v}']
    if case.get('words') is not None:
        dictf = os.path.join(scratch, 'words.txt')
        with open(dictf, 'w') as f:
            f.write('\n'.join(case['words']) + '\n')
        args += ['-I', f'Dictionary={dictf}']
    start, end = effective_range(case)
    info = {'path': path, 'start': start, 'end': end, 'args': args}
    out, err, exc = call_tool(sna2ctl.main, args + [binf])
    info['ctl'] = out
    if exc:
        if exc[0] == 'timeout':
            fails.append((f'{path}:no-termination', f'sna2ctl {args} did not finish within the time limit'))
        elif exc[0] == 'CodeMapError' and case.get('map'):
            # every map this harness writes with at least one address is a well-formed file of its
            # format holding addresses 0..65535 only: rejecting it means no control file for a valid input
            fails.append(('map:valid-code-map-rejected', f'sna2ctl {args} rejected a well-formed {case["map_fmt"]} map '
                          f'({len(case["map"])} addresses, min {min(case["map"])}, max {max(case["map"])}): {exc[1][-120:]}'))
        elif exc[0] in ('CodeMapError', 'SkoolKitError'):
            info['rejected'] = exc[1]       # input rejected with a proper error message: nothing is claimed
        else:
            fails.append((f'{path}:exception:{exc[0]}:{exc[1].split(":")[0]}', f'sna2ctl {args} raised {exc[0]} in {exc[1]}'))
        return fails, info
    asm, blocks, subs, junk = parse_ctl(out)
    info['blocks'] = blocks
    info['subs'] = subs
    if junk:
        fails.append((f'{path}:unparseable-ctl-line', f'unexpected line in sna2ctl output: {junk[0]!r}'))
    bad = [b for b in blocks if b[1] not in 'bcist']
    if bad:
        fails.append((f'{path}:bad-directive-letter:{bad[0][1]}', f'block directive {bad[0][1]!r} at {bad[0][0]}'))
    if start >= end:
        return fails, info       # empty range: nothing is claimed
    addrs = [a for a, _ in blocks]
    if not addrs or addrs[0] != start:
        fails.append((f'{path}:first-directive-not-at-start', f'first block directive at {addrs[:1]}, start={start}'))
    if any(a >= b for a, b in zip(addrs, addrs[1:])):
        fails.append((f'{path}:not-strictly-increasing', f'block addresses {addrs}'))
    if any(a > end or a < start for a in addrs):
        fails.append((f'{path}:key-beyond-end' if any(a > end for a in addrs) else f'{path}:key-before-start',
                      f'block addresses {addrs} outside [{start},{end}]'))
    if end < 65536:
        if not blocks or blocks[-1] != (end, 'i'):
            fails.append((f'{path}:no-terminator-at-end', f'last block directive {blocks[-1:]} but end={end}'))
    elif any(a >= 65536 for a in addrs):
        fails.append((f'{path}:key-beyond-end', f'block addresses {addrs}'))
    if any(l == 'i' for a, l in blocks if a != end):
        # an interior 'i' block would remove bytes of the range from the disassembly
        fails.append((f'{path}:interior-ignore-block', f'i directive inside the range: {blocks}'))
    if sorted(asm) != sorted([(start, 'start'), (start, 'org')]) and addrs:
        fails.append((f'{path}:asm-directives', f'@ directives {asm}, start={start}'))
    # every accepted code-map address lies in a c block
    if path == 'map' and addrs and addrs == sorted(addrs):
        import bisect
        for a in accepted_map_addresses(case):
            i = bisect.bisect_right(addrs, a) - 1
            if i < 0 or blocks[i][1] != 'c':
                fails.append(('map:map-address-not-in-code-block', f'executed address {a} is in block {blocks[i] if i >= 0 else None}'))
                break
    # sub-block directives (comments, RST arguments) stay inside the requested range
    for baddr, a, l, rest in subs:
        if not start <= a < end:
            fails.append((f'{path}:subctl-at-or-beyond-end', f'sub-block directive {l!r} {a}{rest} (under block {baddr}) outside [{start},{end})'))
            break
    if fails or not with_skool:
        return fails, info
    # ---- feed the control file to sna2skool
    ctlf = os.path.join(scratch, 'gen.ctl')
    with open(ctlf, 'w') as f:
        f.write(out)
    sargs = ['-c', ctlf] if case.get('is_snapshot') else ['-o', str(case['org']), '-c', ctlf]
    if case['start'] is not None:
        sargs += ['-s', str(case['start'])]
    if case['end'] is not None:
        sargs += ['-e', str(min(case['end'], 65536))]
    sk, serr, exc = call_tool(sna2skool.main, sargs + [binf])
    info['skool_err'] = serr
    if exc:
        fails.append((f'{path}:sna2skool-exception:{exc[0]}:{exc[1].split(":")[0]}', f'sna2skool {sargs} on the generated ctl raised {exc}'))
        return fails, info
    instr = parse_skool(sk)
    iaddrs = {}
    for c, a, op in instr:
        iaddrs.setdefault(a, op)
    for w in re.findall(r'WARNING: (.*)', serr):
        m = re.match(r'Instruction at (\d+) overlaps the following instruction at (\d+)', w)
        m2 = re.match(r'Two instructions at (\d+)', w)
        if m:
            x, y = int(m.group(1)), int(m.group(2))
            if y == end:
                info['end_overlap'] = True
                if ('-r' in case.get('opts', ()) and x not in addrs and x - 1 in iaddrs and RST8_RE.fullmatch(iaddrs[x - 1])
                        and mem_at(case, x - 1) == 0xCF):
                    # not inherent: X is the argument byte of the RST 8 at X-1 in the same block (default RSTHandlerConfig
                    # 8:B), which sna2ctl -r must mark as data ('B X,1') when it lies inside the range; sna2skool decoded it as code
                    fails.append((f'{path}:overlap-warning:rst-argument-at-end-decoded-as-code',
                                  f'sna2skool on the generated ctl: {w} (the byte at {x} is the argument of the RST 8 at {x - 1})'))
                continue          # the image's own last instruction straddles END: inherent, see assumptions
            why = cause(x, y, info) if cause else 'unclassified'
            fails.append((f'{path}:overlap-warning:{why}', f'sna2skool on the generated ctl: {w}'))
        elif m2:
            fails.append((f'{path}:two-instructions-warning', f'sna2skool on the generated ctl: {w}'))
        else:
            fails.append((f'{path}:sna2skool-warning', f'sna2skool on the generated ctl: {w}'))
    # sub-block directives sit on instruction boundaries of sna2skool's own decoding
    for baddr, a, l, rest in subs:
        if a not in iaddrs:
            fails.append((f'{path}:subctl-off-instruction-boundary', f'sub-block directive {l!r} {a}{rest} (block {baddr}): sna2skool has no instruction at {a}'))
            break
    # C01 on the generated file: skool2bin(sna2skool(image, ctl)) == image on [start, end)
    # (not evaluated when the image's last instruction straddles END: skool2bin then relocates)
    if not fails and not info.get('end_overlap'):
        skf = os.path.join(scratch, 'gen.skool')
        outb = os.path.join(scratch, 'gen.out.bin')
        with open(skf, 'w') as f:
            f.write(sk)
        if os.path.exists(outb):
            os.remove(outb)
        _, berr, exc = call_tool(skool2bin.main, ['-S', str(start), '-E', str(end), skf, outb])
        if exc:
            fails.append((f'{path}:skool2bin-exception:{exc[0]}', f'skool2bin on sna2skool output raised {exc}'))
        else:
            with open(outb, 'rb') as f:
                back = list(f.read())
            want = list(case['data'][start - case['org']:end - case['org']])
            if back != want:
                d = next((i for i, (p, q) in enumerate(zip(back, want)) if p != q), min(len(back), len(want)))
                fails.append((f'{path}:c01-image-differs', f'skool2bin(sna2skool(ctl)) differs from the image at {start + d} (lengths {len(back)}/{len(want)})'))
    return fails, info


# ---------------------------------------------------------------- case generator

ORGS = (0, 1, 9980, 16384, 23296, 32768, 40000, 49152, 65000)


def gen_case(rng, mods, allow_map=True):
    n = rng.choice((1, 2, 3, 5, 12, 30, 60, 60, 120, 120, 250, 500))
    r = rng.randrange(10)
    if r < 3:
        org = 65536 - n                      # image ends at 65536: no terminator can be written
    elif r < 8:
        org = rng.choice(ORGS)
    else:
        org = rng.randrange(0, 65536 - n)
    org = min(org, 65536 - n)
    kind = rng.choice(IMAGE_KINDS)
    data = gen_image(rng, kind, n, org, org, org + n)
    case = {'kind': kind, 'org': org, 'data': data, 'start': None, 'end': None, 'opts': [], 'ini': {}}
    # range: whole file, or -s/-e inside it (boundary biased; END often inside an instruction)
    r = rng.randrange(10)
    if r < 3 and n > 2:
        case['start'] = org + rng.choice((0, 1, 2, rng.randrange(n)))
    r = rng.randrange(10)
    if r < 5 and n > 1:
        lo = (case['start'] or org) + 1
        cands = [org + n, org + n - 1, org + n - 2, rng.randrange(lo, org + n + 1)]
        # put END one or two bytes after the first byte of a multi-byte opcode
        multi = [org + i for i, b in enumerate(data) if b in THREE or b in JP or b in CALL or b in (0xDD, 0xFD, 0xED, 0xCB) or b in TWO or b in JR]
        multi = [a for a in multi if a + 1 >= lo]
        if multi:
            a = rng.choice(multi)
            cands += [a + 1, a + 2, a + 1, a + 2, a + 3]
        e = rng.choice(cands)
        case['end'] = max(lo, min(e, org + n)) if rng.randrange(8) else min(e, 65536)
    r = rng.randrange(12)
    if r == 0:
        case['end'] = 65536 if rng.randrange(2) else min(65536, org + n + rng.randrange(1, 5))    # beyond the file: clamped by make_snapshot
    start, end = effective_range(case)
    # options
    if rng.randrange(4) == 0:
        case['opts'].append('-C')
    if rng.randrange(4) == 0:
        case['opts'].append('-r')
    h = rng.randrange(8)
    if h < 2:
        case['opts'].append(('-h', '-l')[h])
    if rng.randrange(5) == 0:
        case['ini']['TextMinLengthCode'] = rng.choice((1, 2, 5, 12, 13, 40))
    if rng.randrange(5) == 0:
        case['ini']['TextMinLengthData'] = rng.choice((1, 2, 3, 4, 9))
    if rng.randrange(6) == 0:
        case['ini']['TextChars'] = rng.choice(('ABCDEFGHIJKLMNOPQRSTUVWXYZ', 'abcdefghijklmnopqrstuvwxyz ', '$%,-<=459', '0123456789', 'Helo'))
    if rng.randrange(6) == 0:
        case['words'] = rng.choice((['hello'], ['score', 'game'], ['zzz'], ['press', 'key', 'level'], ['$%', '<=']))
    # code map
    if allow_map and rng.randrange(3) and start < end:
        case['map_fmt'] = rng.choice(MAP_FORMATS)
        case['map_seed'] = rng.randrange(1 << 30)
        mk = rng.randrange(10)
        if mk < 6:
            mem = [0] * 65536
            mem[org:org + n] = data
            pcs = [start] + [rng.randrange(start, end) for _ in range(rng.choice((0, 0, 1, 3)))]
            case['map_kind'] = 'trace'
            case['map'] = trace_addresses(mods['simulator'], mem, pcs, rng.choice((1, 5, 30, 200)))
        elif mk < 9:
            k = rng.choice((0, 1, 2, 5, 20, max(1, (end - start) // 3)))
            case['map_kind'] = 'arbitrary'
            case['map'] = [rng.randrange(start, end) for _ in range(k)]
            if rng.randrange(3) == 0:
                case['map'] += [start, end - 1, end, max(0, start - 1)]
        else:
            case['map_kind'] = 'dense'
            a = rng.randrange(start, end)
            case['map'] = list(range(a, min(end + 2, 65536, a + rng.choice((1, 4, 30, 1000)))))
        case['map'] = [a for a in case['map'] if 0 <= a < 65536]
    return case


def case_tag(case, info):
    start, end = info['start'], info['end']
    tag = info['path'] + '/' + case['kind']
    if case.get('map') is not None:
        tag += '/' + case['map_fmt'] + '/' + case['map_kind']
    return tag


def case_summary(case, info):
    return {'org': case['org'], 'len': len(case['data']), 'range': [info['start'], info['end']], 'kind': case['kind'],
            'opts': case['opts'], 'ini': case['ini'], 'map': (case.get('map_fmt'), case.get('map_kind'), len(case.get('map') or ())),
            'blocks': ''.join(l for _, l in info.get('blocks', ()))[:60]}


def snapshot_cases(rng, mods, scratch):
    """A few 48K snapshot inputs (.z80/.szx/.sna): default start 16384, END 65536, -s/-e windows."""
    snapshot = mods['snapshot']
    res = []
    for ext in ('z80', 'szx'):
        ram = [0] * 49152
        base = rng.choice((16384, 30000, 49152, 65000))
        n = min(400, 65536 - base)
        ram[base - 16384:base - 16384 + n] = gen_image(rng, 'code', n, base, base, base + n)
        fn = os.path.join(scratch, f'snap.{ext}')
        snapshot.write_snapshot(fn, ram, (), ())
        win = rng.choice(((base, base + n), (base, None), (base + 3, base + n - 2)))
        res.append({'kind': 'snapshot-' + ext, 'org': 16384, 'data': ram, 'start': win[0],
                    'end': win[1] if win[1] is None or win[1] < 65536 else None, 'opts': rng.choice(([], ['-C'], ['-r'])), 'ini': {},
                    'is_snapshot': True})
    return res


def trace_tool_case(rng, mods, scratch):
    """Code map written by the real `trace.py --map` (rzxplay format) for a generated binary."""
    n = rng.choice((60, 200))
    org = rng.choice((32768, 40000, 49152, 65536 - n))
    data = gen_image(rng, 'code', n, org, org, org + n)
    binf = os.path.join(scratch, 'trace.bin')
    mapf = os.path.join(scratch, 'trace.map')
    with open(binf, 'wb') as f:
        f.write(bytes(data))
    if os.path.exists(mapf):
        os.remove(mapf)
    call_tool(mods['trace'].main, ['-o', str(org), '-s', str(org), '-m', str(rng.choice((5, 40, 300))), '-n', '--map', mapf, binf])
    addrs = []
    if os.path.exists(mapf):
        with open(mapf) as f:
            addrs = [int(l[1:5], 16) for l in f if l.startswith('$')]
    return {'kind': 'code', 'org': org, 'data': data, 'start': None, 'end': None, 'opts': rng.choice(([], ['-C'], ['-r'])), 'ini': {},
            'map': addrs or [org], 'map_fmt': 'rzxplay', 'map_kind': 'trace.py', 'map_seed': 0}
