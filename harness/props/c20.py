"""C20 — RZX playback is reproducible, implementation-independent and resumable.

Theorems: lean/SkoolVerif/Props/C20.lean (input-block round trip incl. the 65535 marker; rzxinfo = rzxplay on
every stream; fetch decrement = M1 cycles = R increment for every dispatch slot, Python and C loops, plain
and contended; playback as a fold, stop/resume for the plain (up to what a snapshot carries) and the contended
simulator (up to the clock), playback flag 4 over the block loop; record -> play).
Ties: generated simulator models (translator, validated per slot by C06/C08) + per-closure theorem files
generated here (translate/gen_c20.py -> Gen/RzxSimThms, Gen/RzxCmioThms, Gen/RzxCmioClockThms); hand models
Model/RzxInput.lean, Model/RzxPlay.lean tied by the correspondence below (parse_rzx, rzxinfo, write_rzx,
per-slot fetch decrements of process_block / exec_frame, accept_interrupt, whole process_block runs incl.
errors and --stop, whole files through rzxplay.main incl. snapshot blocks and flag 4, the recorder).
E2E: an independent recorder (harness/indep/rzxrec.py) writes RZX files of generated programs; the real
rzxplay.main / rzxinfo.main are run in-process on them."""
import contextlib
import importlib
import io
import os
import random
import re
import sys
import zlib

from framework import fresh_import, REPO, VERIF, LeanLock
import simgen
import simcorr
import looprun
from indep import rzxrec, snapdec

PROPS = 'SkoolVerif.Props.C20'
GEN = {'RzxSimThms.lean': (False, 'main'), 'RzxCmioThms.lean': (True, 'main'), 'RzxCmioClockThms.lean': (True, 'clock')}
IMPLS = ('py-plain', 'py-cmio', 'c-plain', 'c-cmio')


# ---------------------------------------------------------------------------------------------------
# set-up

def regen_c20(chk):
    sys.path.insert(0, os.path.join(VERIF, 'translate'))
    if 'gen_c20' in sys.modules:
        importlib.reload(sys.modules['gen_c20'])
    import gen_c20
    texts = {}
    try:
        for fn, (cmio, part) in GEN.items():
            texts[fn] = gen_c20.gen(REPO, cmio=cmio, part=part)
    except Exception as e:
        chk.breaks.append({'kind': 'translator', 'name': 'translate/gen_c20.py -> Gen/Rzx*Thms.lean', 'detail': f'{type(e).__name__}: {e}'})
        return False
    changed = []
    with LeanLock():
        for fn, text in texts.items():
            if chk.write_gen(os.path.join('SkoolVerif', 'Gen', fn), text):
                changed.append(fn)
    if changed:
        chk.note('regenerated (source changed): ' + ', '.join(changed))
    chk.extra.setdefault('generated_files', []).extend(sorted(texts))
    return True


class Env:
    """The real code under test (fresh import) + the C simulators built from the working tree."""

    def __init__(self, chk):
        mods = fresh_import('skoolkit', 'skoolkit.rzxplay', 'skoolkit.rzxinfo', 'skoolkit.simulator', 'skoolkit.cmiosimulator',
                            'skoolkit.simutils', 'skoolkit.pagingtracer', 'skoolkit.snapshot')
        (self.skoolkit, self.rzxplay, self.rzxinfo, self.simulator, self.cmiosimulator, self.simutils,
         self.pagingtracer, self.snapshot) = mods
        import cbuild
        self.CS, self.CC = cbuild.build(chk.scratch)
        # rzxplay picks `CSimulator or Simulator`: make it pick the C built from the working tree
        self.rzxplay.CSimulator = self.CS
        self.rzxplay.CCMIOSimulator = self.CC
        self.rom48 = list(self.skoolkit.read_bin_file(self.skoolkit.ROM48))
        self.classes = {'py-plain': self.simulator.Simulator, 'py-cmio': self.cmiosimulator.CMIOSimulator,
                        'c-plain': self.CS, 'c-cmio': self.CC}
        self.files = {}
        real_read = self.skoolkit.read_bin_file
        files = self.files

        def read_bin_file(fname, size=-1):
            if fname in files:
                return files[fname]
            return real_read(fname, size)
        self.rzxplay.read_bin_file = read_bin_file
        self.rzxinfo.read_bin_file = read_bin_file
        self.rec_mods = {'simulator': self.simulator, 'simutils': self.simutils, 'pagingtracer': self.pagingtracer,
                         'rom48': self.rom48}
        self.rec_mods_cmio = dict(self.rec_mods)

    def run_main(self, mod, args):
        """-> (stdout, error kind or None)"""
        buf = io.StringIO()
        try:
            with contextlib.redirect_stdout(buf), contextlib.redirect_stderr(io.StringIO()):
                mod.main(list(args))
        except self.skoolkit.SkoolKitError as e:
            return buf.getvalue(), 'SkoolKitError: ' + str(e.args[0] if e.args else '')
        except SystemExit as e:
            return buf.getvalue(), f'SystemExit {e.code}'
        except Exception as e:
            return buf.getvalue(), f'{type(e).__name__}: {e}'
        return buf.getvalue(), None


# ---------------------------------------------------------------------------------------------------
# 1. frame streams: parse_rzx / rzxinfo / writers vs Model/RzxInput.lean

def gen_frames(rng, n=None):
    n = rng.choice((0, 1, 2, 3, 5, 9)) if n is None else n
    frames = []
    prev = None
    for _ in range(n):
        fc = rng.choice((0, 1, 2, 3, 255, 256, 65535, rng.randrange(65536)))
        k = rng.random()
        if prev is not None and k < 0.25:
            reads = list(prev)
        else:
            ln = rng.choice((0, 0, 1, 2, 9, 10, 11, 12, 40, rng.randrange(300)))
            reads = [rng.choice((0, 255, 191, rng.randrange(256))) for _ in range(ln)]
        frames.append((fc, reads))
        prev = reads
    return frames


def gen_stream(rng):
    """(tag, num_frames, bytes)"""
    k = rng.randrange(10)
    frames = gen_frames(rng)
    if k < 3:
        return 'explicit', len(frames), rzxrec.frames_bytes(frames, False)
    if k < 5:
        return 'marker', len(frames), rzxrec.frames_bytes(frames, True)
    if k == 5:
        # markers where the readings differ (semantics: previous frame's readings)
        out = []
        for fc, reads in frames:
            if rng.random() < 0.4:
                out += [fc % 256, fc // 256, 255, 255]
            else:
                out += [fc % 256, fc // 256, len(reads) % 256, len(reads) // 256] + reads
        return 'marker-any', len(frames), out
    if k == 6:
        d = rzxrec.frames_bytes(frames, rng.random() < 0.5)
        return 'more-frames-than-data', len(frames) + rng.choice((1, 2)), d
    if k == 7:
        d = rzxrec.frames_bytes(frames, rng.random() < 0.5)
        return 'truncated', len(frames), d[:rng.randrange(len(d) + 1)]
    if k == 8:
        d = rzxrec.frames_bytes(frames, rng.random() < 0.5)
        return 'fewer-frames-than-data', max(0, len(frames) - 1), d + [rng.randrange(256) for _ in range(rng.randrange(4))]
    return 'garbage', rng.randrange(5), [rng.choice((0, 1, 255, rng.randrange(256))) for _ in range(rng.randrange(24))]


def parse_info_output(text):
    """rows of `rzxinfo --frames` as fc/ic/count/more/shown (count only where it is printed)."""
    rows = []
    cur = None
    for line in text.splitlines():
        s = line.strip()
        m = re.match(r'Frame (\d+):$', s)
        if m:
            cur = {'fc': None, 'ic': None, 'count': '-', 'more': 0, 'shown': ''}
            rows.append(cur)
            continue
        if cur is None:
            continue
        m = re.match(r'Fetch counter: (\d+)$', s)
        if m:
            cur['fc'] = m.group(1)
        m = re.match(r'IN counter: (\d+)(?: \((\d+)\))?$', s)
        if m:
            cur['ic'] = m.group(1)
            if m.group(2) is not None:
                cur['count'] = m.group(2)
        m = re.match(r'Port readings: (.*)$', s)
        if m:
            v = m.group(1)
            if v.endswith('...'):
                cur['more'] = 1
                v = v[:-3]
            cur['shown'] = ','.join(x.strip() for x in v.split(','))
    return ' '.join(f"{r['fc']}/{r['ic']}/{r['count']}/{r['more']}/{r['shown']}" for r in rows)


def canon_info_model(line):
    if not line.startswith('ok'):
        return line
    rows = []
    for w in line.split()[1:]:
        fc, ic, count, more, shown = w.split('/')
        if ic != '65535':
            count = '-'
        rows.append('/'.join((fc, ic, count, more, shown)))
    return ('ok ' + ' '.join(rows)).strip()


def stream_correspondence(chk, env):
    rng = chk.rng
    ops_p, impl_p, ops_i, impl_i, ops_w, impl_w = [], [], [], [], [], []
    # fixed streams, every run: IN counters next to the repeat marker 65535 (65534 readings is an ordinary frame)
    fixed = []
    for ic in (65533, 65534):
        body = [(7 * j + ic) % 256 for j in range(ic)]
        fixed.append((f'in-counter-{ic}', 3, rzxrec.frames_bytes([(3, body), (2, body), (1, [5, 6])], ic % 2 == 1)))
    nrand = chk.scale(1500, 20000)
    for k in range(len(fixed) + nrand):
        tag, n, data = fixed[k] if k < len(fixed) else gen_stream(rng)
        compress = rng.random() < 0.5
        blk = rzxrec.input_block([None] * n, tstates=rng.randrange(70000), compress=compress, raw=data)
        name = f'mem:{k}.rzx'
        env.files[name] = rzxrec.rzx_file([blk], creator=rng.random() < 0.5)
        arg = ' '.join(map(str, data))
        # rzxplay.parse_rzx
        try:
            contents = env.rzxplay.parse_rzx(name)
            fr = contents[-1].obj.frames
            got = ('ok ' + ' '.join(f'{f.fetch_counter}:{f.start}:{f.end}' for f in fr)).strip()
            okp = True
        except IndexError:
            got = 'err indexError'
            okp = False
        except Exception as e:
            got = f'exception {type(e).__name__}'
            okp = False
        ops_p.append(f'parse {n} {arg}'.strip())
        impl_p.append(got)
        # rzxinfo --frames
        out, err = env.run_main(env.rzxinfo, ['--frames', name])
        if err is None:
            goti = ('ok ' + parse_info_output(out)).strip()
        elif err.startswith('IndexError'):
            goti = 'err indexError'
        else:
            goti = 'exception ' + err
        ops_i.append(f'info {n} {arg}'.strip())
        impl_i.append(goti)
        del env.files[name]
        chk.case('stream:' + tag, ('stream', tag, n, tuple(data)), {'stream': tag, 'frames': n, 'bytes': data[:24]} if len(fixed) <= k < len(fixed) + 3 else None)
        # e2e on the spot: the two real readers must agree on every stream (the property's last sentence
        # needs rzxinfo to report what rzxplay plays)
        if okp != (err is None):
            chk.violation('rzxinfo-vs-rzxplay:one-rejects', f'stream {data[:40]} ({n} frames): rzxplay {got[:60]!r}, rzxinfo {goti[:60]!r}',
                          {'kind': 'stream', 'n': n, 'data': data})
    model = chk.run_driver('C20', ops_p + ops_i)
    if model is not None:
        chk.compare('rzxplay.parse_rzx frame loop vs Model/RzxInput.parseFrames', ops_p, impl_p, [m.strip() for m in model[:len(ops_p)]])
        chk.compare('rzxinfo --frames vs Model/RzxInput.infoFrames', ops_i, impl_i, [canon_info_model(m) for m in model[len(ops_p):]])
    # writers: the harness's own stream writers (explicit / repeat-marker) vs the model writers
    for _ in range(chk.scale(400, 5000)):
        frames = [(fc, r) for fc, r in gen_frames(rng)]
        arg = ' '.join(f"{fc}:{','.join(map(str, r))}" for fc, r in frames)
        ops_w.append(('write ' + arg).strip())
        impl_w.append(' '.join(map(str, rzxrec.frames_bytes(frames, False))))
        ops_w.append(('writerep ' + arg).strip())
        impl_w.append(' '.join(map(str, rzxrec.frames_bytes(frames, True))))
        chk.case('writer', ('w', tuple((fc, tuple(r)) for fc, r in frames)))
    model = chk.run_driver('C20', ops_w)
    if model is not None:
        chk.compare('recorder stream writers vs Model/RzxInput.writeFrames/writeRep', ops_w, impl_w, [m.strip() for m in model])


# ---------------------------------------------------------------------------------------------------
# shared: machine images for the frame-loop correspondence (custom "ROM", sparse cells)

class Img:
    """A small machine image: 48K (64K flat incl. a synthetic ROM) or 128K (2 ROMs + 8 banks), as sparse cells."""

    def __init__(self, is128, o7ffd=0):
        self.is128 = is128
        self.o7ffd = o7ffd
        self.cells = {}          # 48K: addr -> v ; 128K: ('r'|'b', i, off) -> v

    def phys(self, addr):
        if not self.is128:
            return addr
        q, off = addr // 16384, addr % 16384
        if q == 0:
            return ('r', (self.o7ffd % 32) // 16, off)
        if q == 1:
            return ('b', 5, off)
        if q == 2:
            return ('b', 2, off)
        return ('b', self.o7ffd % 8, off)

    def poke(self, addr, v):
        self.cells[self.phys(addr % 65536)] = v

    def cell_words(self):
        if not self.is128:
            return ' '.join(f'{a}:{v}' for a, v in sorted(self.cells.items()))
        return ' '.join(f'{k}{i}.{off}:{v}' for (k, i, off), v in sorted(self.cells.items()))

    def header(self):
        if self.is128:
            return f'm128 70908 {14361 - 23} 58035 {self.o7ffd}'
        return f'm48 69888 {14335 - 23} 57245 0'

    def build(self, env, impl):
        """-> a real memory object for the given implementation"""
        if not self.is128:
            mem = [0] * 65536
            for a, v in self.cells.items():
                mem[a] = v
            return mem
        banks = [[0] * 16384 for _ in range(8)]
        roms = [[0] * 16384 for _ in range(2)]
        for (k, i, off), v in self.cells.items():
            (roms if k == 'r' else banks)[i][off] = v
        m = env.pagingtracer.Memory(banks, self.o7ffd)
        m.roms = tuple(roms)
        m.out7ffd(self.o7ffd)
        return m


def mem_snapshot(img, mem):
    """physical contents as one bytes object (48K: the 64K flat image; 128K: ROM 0,1 then banks 0..7)"""
    if not img.is128:
        return bytes(mem)
    return b''.join(bytes(x) for x in mem.roms) + b''.join(bytes(x) for x in mem.banks)


def mem_diff_words(img, before, after):
    if before == after:
        return ''
    out = []
    for base in range(0, len(after), 1024):
        if after[base:base + 1024] != before[base:base + 1024]:
            for a in range(base, min(base + 1024, len(after))):
                if after[a] != before[a]:
                    if not img.is128:
                        out.append(f'{a}:{after[a]}')
                    else:
                        i, off = divmod(a, 16384)
                        out.append(f'r{i}.{off}:{after[a]}' if i < 2 else f'b{i - 2}.{off}:{after[a]}')
    return ' '.join(out)


class FakeSnapshot:
    border = 0
    out7ffd = 0
    outfffd = 0
    ay = (0,) * 16
    outfe = 0


class Opts:
    def __init__(self, stop=None):
        self.stop = stop
        self.quiet = True
        self.cmio = False
        self.python = False
        self.force = False


class TraceSink:
    def __init__(self):
        self.lines = []

    def write(self, s):
        self.lines.append(s)


_POOL = {}
_ZERO64 = [0] * 65536


def make_sim(env, impl, img, regs, fields):
    """A real simulator loaded with the image.  48K simulators are reused (closures keep their memory object)."""
    cfg = {'int_active': 0, 'frame_duration': 70908 if img.is128 else 69888}
    if img.is128:
        sim = env.classes[impl](img.build(env, impl), config=cfg)
    else:
        key = (id(env), impl)
        sim = _POOL.get(key)
        if sim is None:
            sim = _POOL[key] = env.classes[impl]([0] * 65536, config=cfg)
        mem = sim.memory
        mem[:] = _ZERO64 if isinstance(mem, list) else bytes(65536)
        for a, v in img.cells.items():
            mem[a] = v
    r = sim.registers
    for i, v in enumerate(regs):
        r[i] = v
    for i, v in enumerate(fields):
        r[24 + i] = v
    return sim


def real_process_block(env, impl, img, regs, fields, frames, flags, stop, cnt, trace=False):
    """Run the real rzxplay.process_block on one input recording block.
    -> (canonical result line, trace lines)"""
    rz = env.rzxplay
    sim = make_sim(env, impl, img, regs, fields)
    mem = sim.memory
    before = mem_snapshot(img, mem)
    data = []
    fobjs = []
    for fc, reads in frames:
        start = len(data)
        data += reads
        fobjs.append(rz.Frame(fc, start, len(data)))
    block = rz.InputRecording(fields[1], fobjs, bytes(data))
    ctx = rz.RZXContext(None)
    snap = FakeSnapshot()
    snap.out7ffd = img.o7ffd
    ctx.snapshot = snap
    ctx.simulator = sim
    ctx.registers = None
    ctx.total_frames = cnt + len(frames)
    ctx.frame_count = cnt
    tracer = rz.RZXTracer(ctx, block)
    sim.set_tracer(tracer)
    sink = None
    if trace:
        sink = TraceSink()
        ctx.tracefile = sink
        ctx.trace_line = '{fc}\n'
        ctx.operand_fmt = ('$', '02X', '04X')
    err = None
    try:
        rz.process_block(block, Opts(stop), flags, ctx)
    except env.skoolkit.SkoolKitError as e:
        msg = str(e.args[0])
        err = 'err exhausted' if 'exhausted' in msg else ('err leftover' if 'left for frame' in msg else 'err ' + msg)
    except Exception as e:
        err = f'exception {type(e).__name__}: {e}'
    lines = sink.lines if sink else []
    if err:
        return err, lines
    r = list(sim.registers)
    after = mem_snapshot(img, sim.memory)
    o7 = sim.memory.o7ffd if img.is128 else 0
    state = (f"{' '.join(map(str, r[:24]))} ; {' '.join(map(str, r[24:30]))} ; {mem_diff_words(img, before, after)} ; {o7}")
    rem = tracer.frames[tracer.frame_index:]
    remw = ' '.join(f"{f.fetch_counter}:{','.join(map(str, tracer.data[f.start:f.end]))}" for f in rem)
    tag = 'stop' if (ctx.stop and rem) else 'fin'
    return f'{tag} {ctx.frame_count} ; {state} ; {remw}', lines


def canon_play(line):
    """`stop n ; … ;` with nothing left is the same outcome as `fin n`."""
    line = simcorr.norm(line)
    if line.startswith('stop ') and line.endswith(';'):
        line = 'fin' + line[4:]
    return line


def machine_line(img, regs, fields):
    return f"{img.header()} ; {' '.join(map(str, regs))} ; {' '.join(map(str, fields))} ; {img.cell_words()}"


# ---------------------------------------------------------------------------------------------------
# 1b. the C frame loop on instructions that straddle the 64K wrap, in a forked child

def _forked(fn):
    """fn() in a forked child -> (True, result) | (False, 'signal N'): a crash of the C extension is a result."""
    import pickle
    r, w = os.pipe()
    pid = os.fork()
    if pid == 0:
        code = 0
        try:
            os.close(r)
            res = fn()
            with os.fdopen(w, 'wb') as f:
                pickle.dump(res, f)
        except BaseException:
            code = 1
        os._exit(code)
    os.close(w)
    with os.fdopen(r, 'rb') as f:
        blob = f.read()
    _, status = os.waitpid(pid, 0)
    if os.WIFSIGNALED(status):
        return False, f'signal {os.WTERMSIG(status)}'
    try:
        return True, pickle.loads(blob)
    except Exception:
        return False, 'no result'


WRAP_SEQS = ([0x00], [0x3E, 0x12], [0x21, 0x34, 0x12], [0xCB, 0x47], [0xED, 0x44], [0xED, 0x57], [0xDD, 0x23], [0xFD, 0x23], [0xDD, 0x00],
             [0xDD, 0xCB, 0x01, 0x46], [0xFD, 0xCB, 0xFF, 0xC6], [0xDD, 0xFD, 0xDD, 0x00], [0x76], [0xFB], [0xDB, 0xFE], [0x18, 0x00])


def wrap_cases():
    cases = []
    for is128 in (False, True):
        for pc in (0xFFFC, 0xFFFD, 0xFFFE, 0xFFFF):
            for seq in WRAP_SEQS:
                img = Img(is128, 3 if is128 else 0)
                for k, b in enumerate(seq + [0x00] * 4):
                    img.poke((pc + k) % 65536, b)
                regs = [0] * 24
                regs[12] = 0xBF00
                regs[8], regs[9], regs[10], regs[11] = 0x90, 0x00, 0xA0, 0x00
                cases.append((img, regs, [pc, 100, 0, 1, 0, 0], seq))
    return cases


def crash_canary(chk, env):
    """exec_frame reads the opcode bytes at pc, pc + 1 and pc + 3 itself: every instruction shape placed across
    0xFFFF/0x0000, on the C simulators, in a child process first.  A child killed by a signal is reported with the concrete
    machine state; the check then stops (the same call would kill the check itself in the next phase)."""
    cases = wrap_cases()

    def run_all(impl, sub):
        return [real_process_block(env, impl, img, regs, fields, [(1, [0xFF] * 2)], 0, None, 0)[0] for img, regs, fields, seq in sub]
    for impl in ('c-plain', 'c-cmio'):
        ok, res = _forked(lambda: run_all(impl, cases))
        for c in cases:
            chk.case(f'wrap:{impl}', ('wrap', impl, c[2][0], tuple(c[3])))
        if ok:
            continue
        for img, regs, fields, seq in cases:
            ok1, res1 = _forked(lambda: run_all(impl, [(img, regs, fields, seq)]))
            if not ok1:
                chk.violation(f'c-exec-frame-crash:{impl}',
                              f'{impl}: CSimulator.exec_frame dies ({res1}) executing {" ".join(f"{b:02X}" for b in seq)} at PC={fields[0]:#06x} '
                              f'on a {"128K" if img.is128 else "48K"} machine (one frame, fetch counter 1); the Python simulator plays it',
                              {'kind': 'wrap', 'impl': impl, 'pc': fields[0], 'seq': seq, 'is128': img.is128})
                return False
        chk.violation(f'c-exec-frame-crash:{impl}', f'{impl}: CSimulator.exec_frame dies ({res}) on the 64K wrap group', {'kind': 'wrap', 'impl': impl})
        return False
    return True


# ---------------------------------------------------------------------------------------------------
# 2. per-slot fetch decrement of the real loops vs fetchDec / fetchDecC / Spec.m1

def fetch_decrements(chk, env):
    rng = chk.rng
    n = chk.scale(1, 6)
    ops, impl_lines = [], []
    for tbl, op in simcorr.all_slots():
        for _ in range(n):
            regs, fields, mem, ins, _tr = simcorr.rand_state(rng, tbl, op)
            fields = [fields[0], rng.randrange(60000), fields[2], fields[3], 0, fields[5]]
            img = Img(False)
            for a, v in mem.items():
                img.poke(a, v)
            pc = fields[0]
            b0, b1 = mem[pc], mem.get((pc + 1) % 65536, 0)
            decs = {}
            r1s = {}
            for impl in IMPLS:
                res, lines = real_process_block(env, impl, img, regs, fields, [(1, [ins[0]])], 0, None, 0, trace=True)
                if not lines:
                    decs[impl] = 'no-trace:' + res[:40]
                    continue
                fc = int(lines[0])
                if fc >= 1 << 31:
                    fc -= 1 << 32      # exec_frame hands the counter to the trace callback as an unsigned int
                decs[impl] = 1 - fc
            r0 = regs[15]
            want = rzxrec.m1_count(b0, b1)
            chk.case(f'fetchdec:{tbl}', ('fd', tbl, op, r0 & 1), {'slot': f'{tbl}:{op:02X}', 'dec': decs, 'm1': want} if op == 0x21 else None)
            # the property on the real code: every implementation counts the instruction's M1 cycles
            for impl, d in decs.items():
                if d != want:
                    chk.violation(f'fetch-decrement:{impl}:{tbl}',
                                  f'{impl}: fetch counter decremented by {d} for {b0:02X} {b1:02X} ({want} M1 cycles)',
                                  {'kind': 'fetchdec', 'impl': impl, 'regs': regs, 'fields': fields, 'mem': {str(k): v for k, v in mem.items()}, 'ins': ins})
            # model tie: fetchDec / fetchDecC on the R values of the real (Python plain) run, Spec.m1 on the bytes
            sim = make_sim(env, 'py-plain', img, regs, fields)
            sim.set_tracer(simcorr.Tracer([ins[0]]))
            sim.run()
            r1 = sim.registers[15]
            ops += [f'fdec {b0} {r0} {r1}', f'fdecc {b0} {b1} {r0} {r1}', f'm1 {b0} {b1}']
            impl_lines += [str(decs['py-plain']), str(decs['c-plain']), str(want)]
    model = chk.run_driver('C20', ops)
    chk.compare('process_block / exec_frame fetch decrement vs Model fetchDec / fetchDecC / Spec.m1 (all 1792 slots)', ops, impl_lines, model)


# ---------------------------------------------------------------------------------------------------
# 3. accept_interrupt and whole process_block runs vs Model/RzxPlay.lean

B16 = simcorr.BOUND16


def small_program(rng, img, base):
    """Random code at `base` built from instruction templates that keep execution mostly local; the
    interesting end-of-frame instructions (HALT, EI, LD A,I/R, DD/FD prefixes, IN) are frequent."""
    pool = [
        [0x00], [0x3C], [0x04], [0x0D], [0x80], [0xA9], [0x17], [0x2F], [0x37], [0x3F], [0x08], [0xD9], [0xEB],
        [0xFB], [0xFB], [0xFB], [0xF3], [0x76], [0xFB, 0x76],
        [0xED, 0x57], [0xED, 0x5F], [0xED, 0x57], [0xED, 0x5F], [0xFB, 0xED, 0x5F], [0xED, 0x4F], [0xED, 0x47], [0xED, 0x44],
        [0xED, 0x46], [0xED, 0x56], [0xED, 0x5E],
        [0xDB, 0xFE], [0xDB, 0x1F], [0xED, 0x78], [0xED, 0x40], [0xED, 0x70], [0xED, 0xA2], [0xED, 0xAA], [0xED, 0xB2],
        [0xD3, 0xFE], [0xED, 0x79], [0xED, 0x41], [0xED, 0xA3],
        [0x3E, None], [0x06, None], [0x0E, None], [0xC6, None], [0xFE, None],
        [0xDD], [0xFD], [0xDD, 0xFD], [0xDD, 0x00], [0xFD, 0xEB], [0xDD, 0x24], [0xFD, 0x2D], [0xDD, 0x7E, None], [0xFD, 0x36, None, None],
        [0xDD, 0xCB, None, 0x06], [0xFD, 0xCB, None, 0x46], [0xDD, 0xCB, None, 0xC6], [0xDD, 0xE5], [0xDD, 0xE1], [0xDD, 0x21, None, None],
        [0xCB, 0x00], [0xCB, 0x46], [0xCB, 0x7E], [0xCB, 0xC6], [0xCB, 0x3F],
        [0xC5], [0xC1], [0xF5], [0xF1], [0xE5], [0xE1],
        [0x18, 0x00], [0x20, 0x01], [0x28, 0x00], [0x10, 0x00], [0x38, 0x01],
        [0x21, None, None], [0x01, None, 0x00], [0x36, None], [0x77], [0x7E], [0x34], [0x23], [0x2B], [0x09],
        [0xED, 0xA0], [0xED, 0xB0], [0xED, 0xA1], [0xED, 0x6F], [0xED, 0x67], [0xED, 0x4A], [0xED, 0x42], [0xED, 0x43, None, None],
        [0x32, None, None], [0x3A, None, None], [0x22, None, None], [0x2A, None, None],
        [0xC7 + 8 * 7],
    ]
    a = base
    n = rng.randrange(4, 40)
    for _ in range(n):
        t = rng.choice(pool)
        for b in t:
            img.poke(a, rng.choice((0, 1, 0x7F, 0x80, 0xFF, rng.randrange(256))) if b is None else b)
            a += 1
    # loop back
    img.poke(a, 0xC3)
    img.poke(a + 1, base % 256)
    img.poke(a + 2, base // 256)
    return a + 3


def gen_play_case(rng, env, is128=None, real_rom0=False):
    """A machine image with a program + frames (fetch counters derived from a dry run of the Python
    simulator, then optionally falsified) -> dict"""
    is128 = rng.random() < 0.35 if is128 is None else is128
    o7 = rng.choice((0, 1, 3, 4, 7, 0x10, 0x17, 0x24)) if is128 else 0
    img = Img(is128, o7)
    base = rng.choice((0x8000, 0x8000, 0x7FF0, 0xBFF8, 0xC000, 0x6000, 0xFFF0, 0x4000))
    end = small_program(rng, img, base)
    # synthetic ROM: DI at 0 (as in the real ROMs), IM 1 handler, a second entry for RST 38-less programs
    for rom_sel in ((0, 1) if is128 else (0,)):
        def rp(addr, v, rom_sel=rom_sel):
            if is128:
                img.cells[('r', rom_sel, addr)] = v
            else:
                img.cells[addr] = v
        # process_block passes prev_pc = 0 to accept_interrupt: the byte at address 0 (0xF3 in every Spectrum ROM) matters
        rp(0, 0xF3 if real_rom0 else rng.choice((0xF3, 0xF3, 0xF3, 0xFB, 0xDD, 0x00)))
        for k, b in enumerate(rng.choice(([0xFB, 0xC9], [0xF5, 0xDB, 0xFE, 0xF1, 0xFB, 0xC9], [0xC9], [0xFB, 0xED, 0x4D], [0x76]))):
            rp(0x38 + k, b)
    regs = [rng.choice(simcorr.BOUND8 + (rng.randrange(256),) * 3) for _ in range(24)]
    regs[13] = 0
    regs[12] = rng.choice((0xBF00, 0xFFFE, 0x0000, 0x0001, 0x4001, 0x4000, 0x3FFF, 0xC001, base + 2, rng.randrange(65536)))
    # IM 2 vector table
    regs[14] = rng.choice((0xBE, 0x3B, 0xFF, 0x7F, rng.randrange(256)))
    vaddr = 255 + 256 * regs[14]
    isr = rng.choice((base, 0x9000, 0x0038, rng.randrange(65536)))
    if vaddr >= 0x4000:
        img.poke(vaddr, isr % 256)
        img.poke((vaddr + 1) % 65536, isr // 256)
    if isr == 0x9000:
        for k, b in enumerate((0x08, 0xDB, 0xFE, 0x08, 0xFB, 0xC9)):
            img.poke(0x9000 + k, b)
    for hi, lo in ((6, 7), (8, 9), (10, 11), (2, 3), (4, 5)):
        if rng.random() < 0.5:
            v = rng.choice((0xA000, 0xC000, 0xFFFF, 0x4000, 0x3FFF, base, base + 1, end, 0x7FFD, 0xBFFD, 0x5B5C)) % 65536
            regs[hi], regs[lo] = v >> 8, v & 255
    fields = [base, rng.choice((0, 0, 14335, 30000, 69000, rng.randrange(70000))), rng.randrange(2), rng.randrange(3), rng.choice((0, 0, 1)), rng.randrange(65536)]
    if real_rom0:
        # (the IM 2 table / program bytes above may have landed on address 0 of the synthetic ROM)
        if is128:
            img.cells[('r', 0, 0)] = img.cells[('r', 1, 0)] = 0xF3
        else:
            img.cells[0] = 0xF3
    return {'img': img, 'regs': regs, 'fields': fields, 'base': base}


def dry_run_frames(rng, env, case, nframes, conv):
    """Use the independent recorder on a copy of the image to obtain frames that play back without
    error (port values included), as [(fetch, readings)]."""
    img = case['img']
    sim = make_sim(env, 'py-plain', img, case['regs'], case['fields'])
    mem = sim.memory
    frames = []
    r = sim.registers

    class T:
        reads = []

        def read_port(self, registers, port):
            v = rng.choice((0xFF, 0xBF, 0x00, rng.randrange(256)))
            T.reads.append(v)
            return v

        def write_port(self, registers, port, value, offset=None):
            if img.is128 and port & 0x8002 == 0 and T.o7 & 32 == 0:
                mem.out7ffd(value)
                T.o7 = value
    T.o7 = img.o7ffd
    sim.set_tracer(T())
    acc = sim.accept_interrupt
    for k in range(nframes):
        T.reads = []
        n = rng.choice((1, 1, 2, 3, 5, 8, 20, rng.randrange(1, 60)))
        fetch = 0
        pc = r[24]
        for _ in range(n):
            pc = r[24]
            b0, b1 = mem[pc], mem[(pc + 1) % 65536]
            sim.run()
            fetch += rzxrec.m1_count(b0, b1)
        frames.append((fetch, list(T.reads)))
        # keep the dry run going roughly as playback would (exactness is not needed: the real code and the
        # model are compared with each other, not with this run)
        r[25] = 0
        if r[26]:
            if mem[pc] == 0x76:
                r[24] = (r[24] + 1) % 65536
            acc(r, mem, 0)
    return frames


def gen_boundary_case(rng, env):
    """Directed: the first frame ends exactly on HALT / EI / LD A,I / LD A,R / a store that rewrites its own
    opcode / a plain instruction, with every combination of IFF, IM, flags and next fetch counter 1, 2, 3."""
    is128 = rng.random() < 0.25
    img = Img(is128, rng.choice((0, 3)) if is128 else 0)
    base = rng.choice((0x8000, 0x8000, 0xBFFE, 0xC000, 0x7FFF))
    pre = rng.choice(([], [0x00], [0xFB], [0xF3], [0x3E, 0x01], [0xDD], [0xED, 0x5E], [0xFB, 0x00]))
    last = rng.choice(([0x76], [0xFB], [0xFB], [0xED, 0x57], [0xED, 0x5F], [0x00], [0xDD], [0xFD, 0xFB], [0x36, 0xFB], [0x36, 0x76], [0xED, 0x4F]))
    after = rng.choice(([0x00, 0x00, 0x00, 0x00], [0xED, 0x44, 0x00, 0x00], [0xFB, 0x76], [0x76], [0xDD, 0x21, 0x00, 0x00, 0x00], [0xED, 0x57, 0x00, 0x00]))
    code = pre + last + after + [0x00] * 6 + [0xC3, base % 256, base // 256]
    for k, b in enumerate(code):
        img.poke(base + k, b)
    for rom_sel in ((0, 1) if is128 else (0,)):
        for addr, v in ((0, 0xF3), (0x38, 0xFB), (0x39, 0xC9)):
            if is128:
                img.cells[('r', rom_sel, addr)] = v
            else:
                img.cells[addr] = v
    regs = [rng.randrange(256) for _ in range(24)]
    regs[13] = 0
    regs[12] = rng.choice((0xBF00, 0xFFFE, 0x4001, 1, 0))
    regs[14] = 0xBE
    hl = base + len(pre)                       # LD (HL),n as `last` rewrites its own opcode
    regs[6], regs[7] = (hl >> 8) & 255, hl & 255
    img.poke(0xBEFF, 0x00)
    img.poke(0xBF00, 0x90)
    for k, b in enumerate((0xFB, 0xC9)):
        img.poke(0x9000 + k, b)
    fields = [base, rng.choice((0, 20000)), rng.randrange(2), rng.randrange(3), 0, rng.randrange(65536)]

    def m1s(seq):
        n, i = 0, 0
        while i < len(seq):
            b0, b1 = seq[i], seq[i + 1] if i + 1 < len(seq) else 0
            n += rzxrec.m1_count(b0, b1)
            i += (1 if (b0 in (0xDD, 0xFD) and b1 not in rzxrec.INDEXABLE) else
                  {0x3E: 2, 0x36: 2, 0xED: 2, 0xCB: 2}.get(b0, 1))
        return n
    f1 = m1s(pre + last)
    frames = [(f1, [])]
    if rng.random() < 0.3:
        frames.append((0, []))
    k = rng.random()
    if k < 0.85:
        frames.append((rng.choice((1, 2, 2, 3, 4)), []))
    return {'img': img, 'regs': regs, 'fields': fields, 'base': base}, frames


def falsify(rng, frames):
    """Make some recordings wrong on purpose: the error paths and skipped frames must correspond too."""
    k = rng.randrange(8)
    frames = [(fc, list(r)) for fc, r in frames]
    if k == 0 and frames:
        i = rng.randrange(len(frames))
        frames[i] = (frames[i][0], frames[i][1] + [rng.randrange(256)])         # one reading too many
        return 'leftover', frames
    if k == 1 and any(r for _, r in frames):
        i = rng.choice([j for j, (_, r) in enumerate(frames) if r])
        frames[i] = (frames[i][0], frames[i][1][:-1])                            # one too few
        return 'exhausted', frames
    if k == 2 and frames:
        i = rng.randrange(len(frames) + 1)
        frames.insert(i, (0, [rng.randrange(256) for _ in range(rng.randrange(3))]))   # zero-fetch frame (skipped)
        if rng.random() < 0.5:
            frames.insert(i, (0, []))
        return 'zero-fetch', frames
    if k == 3 and frames:
        i = rng.randrange(len(frames))
        frames[i] = (max(1, frames[i][0] + rng.choice((-2, -1, 1, 2, 3))), frames[i][1])   # wrong fetch counter
        return 'wrong-fetch', frames
    return 'faithful', frames


def play_correspondence(chk, env):
    rng = chk.rng
    ops, impl_lines = [], []
    agree_ops = []
    for k in range(chk.scale(160, 2200)):
        if k % 3 == 2:
            case, frames = gen_boundary_case(rng, env)
            tag = 'boundary'
            conv = rng.randrange(4)
        else:
            case = gen_play_case(rng, env)
            conv = rng.randrange(4)
            frames = dry_run_frames(rng, env, case, rng.choice((1, 2, 3, 4, 6)), conv)
            tag, frames = falsify(rng, frames)
        flags = rng.choice((0, 1, 2, 3, 4, 7, conv))
        cnt = rng.choice((0, 0, 3))
        stop = rng.choice((None, None, cnt + 1, cnt + 2, cnt + len(frames), cnt + len(frames) + 2, 0))
        img = case['img']
        fr_words = ' '.join(f"{fc}:{','.join(map(str, r))}" for fc, r in frames)
        results = {}
        for impl in IMPLS:
            res, _ = real_process_block(env, impl, img, case['regs'], case['fields'], frames, flags, stop, cnt)
            results[impl] = res
            lang, sim = impl.split('-')
            stop_w = '-' if not stop else str(stop)
            ops.append(f"play {'py' if lang == 'py' else 'c'} {sim} {flags} {stop_w} {cnt} ; {machine_line(img, case['regs'], case['fields'])} ; {fr_words}")
            impl_lines.append(canon_play(res))
        chk.case(f"play:{tag}:{'128K' if img.is128 else '48K'}", ('play', k, tag, flags, stop),
                 {'frames': frames[:3], 'flags': flags, 'stop': stop, 'result': results['py-plain'][:60]} if k < 4 else None)
        # e2e on the spot (implementation independence): C and Python loops, same outcome
        for a, b in (('py-plain', 'c-plain'), ('py-cmio', 'c-cmio')):
            if canon_play(results[a]) != canon_play(results[b]):
                chk.violation(f'c-vs-python:process_block:{a.split("-")[1]}', f'{a}: {results[a][:160]} / {b}: {results[b][:160]}',
                              {'kind': 'play', 'pair': [a, b], 'is128': img.is128, 'o7ffd': img.o7ffd,
                               'cells': [[list(k) if isinstance(k, tuple) else k, v] for k, v in img.cells.items()],
                               'regs': case['regs'], 'fields': case['fields'], 'frames': frames, 'flags': flags, 'stop': stop, 'cnt': cnt})
    model = chk.run_driver('C20', ops, timeout=2400)
    if model is not None:
        chk.compare('rzxplay.process_block (Python loop / C exec_frame, plain / contended) vs Model/RzxPlay.playBlock over generated step',
                    ops, impl_lines, [canon_play(m) for m in model])


def accept_correspondence(chk, env):
    rng = chk.rng
    ops, impl_lines = [], []
    for k in range(chk.scale(250, 4000)):
        is128 = rng.random() < 0.3
        img = Img(is128, rng.choice((0, 5, 0x11)) if is128 else 0)
        regs = [rng.choice(simcorr.BOUND8 + (rng.randrange(256),) * 3) for _ in range(24)]
        regs[13] = 0
        regs[12] = rng.choice(B16 + (rng.randrange(65536),) * 3 + (2, 0x4002, 0xC001))
        pc = rng.choice(B16 + (rng.randrange(65536),) * 3)
        prev = rng.choice((0, 0, (pc - 1) % 65536, (pc - 1) % 65536, rng.randrange(65536)))
        img.poke(prev, rng.choice((0xFB, 0xDD, 0xFD, 0xF3, 0x00, 0x76, rng.randrange(256))))
        vaddr = 255 + 256 * regs[14]
        for d in (0, 1):
            img.poke((vaddr + d) % 65536, rng.randrange(256))
        im = rng.randrange(3)
        fields = [pc, rng.choice((0, 5, 69887, rng.randrange(200000))), rng.randrange(2), im, rng.randrange(2), rng.randrange(65536)]
        for impl in IMPLS:
            sim = make_sim(env, impl, img, regs, fields)
            before = mem_snapshot(img, sim.memory)
            try:
                sim.accept_interrupt(sim.registers, sim.memory, prev)
                r = list(sim.registers)
                after = mem_snapshot(img, sim.memory)
                o7 = sim.memory.o7ffd if is128 else 0
                res = f"{' '.join(map(str, r[:24]))} ; {' '.join(map(str, r[24:30]))} ; {mem_diff_words(img, before, after)} ; {o7}"
            except Exception as e:
                res = f'exception {type(e).__name__}: {e}'
            ops.append(f"acc {1 if impl.endswith('cmio') else 0} {prev} ; {machine_line(img, regs, fields)}")
            impl_lines.append(simcorr.norm(res))
        chk.case('accept_interrupt', ('acc', k, im, prev == (pc - 1) % 65536), None)
    model = chk.run_driver('C20', ops)
    if model is not None:
        chk.compare('accept_interrupt (4 implementations) vs Model/RzxPlay.acceptInterrupt', ops, impl_lines, [simcorr.norm(m) for m in model])


# ---------------------------------------------------------------------------------------------------
# 4. end-to-end: recorder -> RZX file -> rzxplay.main / rzxinfo.main

def io_chunk(rng, is128):
    code = []
    for _ in range(rng.choice((0, 1, 2, 3))):
        k = rng.randrange(4)
        if k == 0:
            sel = rng.choice((15, 14, 16, 0x1F, 0xFF, 0, rng.randrange(16)))
            code += [0x01, 0xFD, 0xFF, 0x3E, sel, 0xED, 0x79,                       # LD BC,FFFD; LD A,sel; OUT (C),A
                     0x06, 0xBF, 0x3E, rng.choice((0xFF, 0x80, 0x01, rng.randrange(256))), 0xED, 0x79]   # LD B,BF; LD A,v; OUT (C),A
        elif k == 1:
            code += [0x3E, rng.choice((0xFF, 0x18, 0x07, rng.randrange(256))), 0xD3, 0xFE]
        elif k == 2 and is128:
            code += [0x01, 0xFD, 0x7F, 0x3E, rng.choice((0x00, 0x07, 0x10, 0x20, 0x27, 0xC3, rng.randrange(256))), 0xED, 0x79]
        else:
            code += [0x01, 0xFD, 0xFF, 0x3E, rng.choice((15, 0, 7)), 0xED, 0x79, 0xED, 0x78]   # select; IN A,(C)
    return code


def gen_machine(rng, env, is128, soup=False, no_bit_hl=False):
    """A full machine for the e2e: real ROMs (the files embed ordinary snapshots), program at 0x8000."""
    banks = {b: [0] * 16384 for b in (range(8) if is128 else (5, 2, 0))}
    o7 = rng.choice((0, 0, 1, 3, 6, 0x10, 0x13, 0x23, 0x30, 0xC1)) if is128 else 0     # incl. paging locked from the start

    def poke(addr, v):
        q, off = addr // 16384, addr % 16384
        if q == 0:
            return
        b = 5 if q == 1 else (2 if q == 2 else (o7 % 8 if is128 else 0))
        banks[b][off] = v
    img_like = type('P', (), {'poke': staticmethod(poke)})
    base = 0x8000
    if soup:
        for a in range(base, base + 600):
            v = rng.randrange(256)
            if no_bit_hl and a > base and banks[2][(a - 1) % 16384] == 0xCB and (v & 0xC7) == 0x46:
                v = 0x47
            poke(a, v)
    else:
        a = base
        # port traffic whose effect lives in the tracer, executed first: AY register selects (15; 16 and above select no
        # register) followed by data writes, last OUT to 0xFE, 0x7FFD writes (a locked machine must ignore them)
        for b in io_chunk(rng, is128):
            poke(a, b)
            a += 1
        for _ in range(rng.randrange(2, 5)):
            a0 = a
            a = small_program(rng, img_like, a) - 3          # drop the JP: fall through to the next chunk
        poke(a, 0xC3)
        poke(a + 1, base % 256)
        poke(a + 2, base // 256)
        if no_bit_hl:
            for x in range(base, a):
                if banks[2][x - 0x8000] == 0xCB and (banks[2][x + 1 - 0x8000] & 0xC7) == 0x46:
                    banks[2][x + 1 - 0x8000] = 0x47
    # 128K: a paging routine reachable through RST-free CALL, and data in several banks
    if is128:
        for b in range(8):
            for off in (0, 1, 0x100, 0x3FFF):
                banks[b][off] = rng.randrange(256)
        pg = 0x8F00
        v = rng.choice((0, 1, 3, 4, 6, 7, 0x10, 0x11, 0x17))
        for k, b in enumerate((0x01, 0xFD, 0x7F, 0x3E, v, 0xED, 0x79, 0xC9)):
            poke(pg + k, b)
        # make the main program call it sometimes
        if not soup:
            for k, b in enumerate((0xCD, 0x00, 0x8F)):
                poke(a + 3 + k, b)
            poke(a, 0x00); poke(a + 1, 0x00); poke(a + 2, 0x00)
            poke(a + 6, 0xC3); poke(a + 7, base % 256); poke(a + 8, base // 256)
    # IM 2: table at 0xBEFF -> ISR at 0x9000 (reads a port, EI, RET)
    poke(0xBEFF, 0x00)
    poke(0xBF00, 0x90)
    for k, b in enumerate(rng.choice(([0xF5, 0xDB, 0xFE, 0xF1, 0xFB, 0xC9], [0x08, 0xED, 0x78, 0x08, 0xFB, 0xED, 0x4D], [0xFB, 0xC9], [0xC9]))):
        poke(0x9000 + k, b)
    regs = [rng.randrange(256) for _ in range(24)]
    regs[13] = 0
    regs[12] = rng.choice((0xBE00, 0xBDF0, 0xFFF0 if not is128 else 0xBD00, 0xBE00))
    regs[14] = rng.choice((0xBE, 0xBE, 0x3F, rng.randrange(256)))
    regs[10], regs[11] = 0x5C, 0x3A
    m = rzxrec.Machine(is128, banks, regs, base, iff=rng.randrange(2), im=rng.choice((1, 1, 2, 0)), border=rng.randrange(8),
                       out7ffd=o7, outfffd=rng.randrange(16) if is128 else 0,
                       ay=[rng.randrange(256) for _ in range(16)] if is128 else None, outfe=rng.randrange(256),
                       memptr=rng.randrange(65536), plus2=is128 and rng.random() < 0.3)
    return m


def snapshot_bytes(rng, env, m, fmt):
    """Embedded snapshot of a Machine in one of the formats the property names."""
    if fmt == 'szx':
        return rzxrec.szx_snapshot(m, compress=rng.random() < 0.5), 'szx'
    if fmt in ('z80v1', 'z80v2', 'z80v3'):
        v = int(fmt[-1])
        if v == 1 and m.pc == 0:
            v = 3                  # a version 1 header cannot hold PC = 0
        rle = None
        if rng.random() < 0.5:
            z = env.snapshot.Z80()
            rle = (lambda d: list(z._make_z80_ram_block(d, 0))[3:])
        return rzxrec.z80_snapshot(m, v, rle), 'z80'
    # as skoolkit's own tools write them
    ram = [m.banks[i] for i in range(8)] if m.is128 else m.ram48()
    f = m.fields()
    regs = [f'{k}={f[k]}' for k in ('a', 'f', 'bc', 'de', 'hl', 'ix', 'iy', 'sp', 'i', 'r', 'pc')]
    regs += [f'^{k[:-1]}={f[k]}' for k in ('a2', 'f2', 'bc2', 'de2', 'hl2')] + [f'memptr={m.memptr}']
    state = [f'border={m.border}', f'fe={m.outfe}', f'iff={m.iff}', f'im={m.im}', f'tstates={m.t}']
    if m.is128:
        state += [f'ay[{n}]={v}' for n, v in enumerate(m.ay)] + [f'7ffd={m.out7ffd}', f'fffd={m.outfffd}']
    elif m.outfffd or any(m.ay):
        state += [f'ay[{n}]={v}' for n, v in enumerate(m.ay)] + [f'fffd={m.outfffd}']
    ext = 'szx' if fmt == 'sk-szx' else 'z80'
    path = os.path.join(env.scratch, f'emb.{ext}')
    env.snapshot.write_snapshot(path, ram, regs, state, ('+2' if m.plus2 else '128K') if m.is128 else '48K')
    with open(path, 'rb') as fh:
        return fh.read(), ext


def expected_state(m, cmio_memptr):
    f = m.fields()
    exp = dict(f)
    exp['banks'] = {b: list(v) for b, v in m.banks.items()}
    exp['border'] = m.border
    if m.is128:
        exp['out7ffd'] = m.out7ffd
    exp['outfffd'] = m.outfffd
    exp['ay'] = tuple(m.ay)
    exp['tstates'] = m.t
    exp['outfe'] = m.outfe
    if cmio_memptr is not None:
        exp['memptr'] = cmio_memptr
    return exp


def decode_out(path):
    with open(path, 'rb') as fh:
        data = fh.read()
    return snapdec.decode_szx(data) if path.endswith('.szx') else snapdec.decode_z80(data)


def diff_state(exp, got, is_szx, ignore=()):
    """First difference between the expected machine state and a decoded snapshot, or None."""
    keys = ['a', 'f', 'bc', 'de', 'hl', 'ix', 'iy', 'sp', 'i', 'r', 'a2', 'f2', 'bc2', 'de2', 'hl2', 'pc', 'iff1', 'im', 'border']
    if 'out7ffd' in exp:
        keys += ['out7ffd']
    keys += ['tstates']
    # AY state: always stored for 128K; for 48K stored once the AY ports have been used (absent = all zero)
    if 'ay' in got or 'out7ffd' in exp:
        keys += ['outfffd', 'ay']
    elif (exp['outfffd'] or any(exp['ay'])) and 'ay' not in ignore:
        return f"AY state not saved: expected fffd={exp['outfffd']} ay={exp['ay']}"
    if is_szx:
        keys += ['outfe']
        if 'memptr' in exp:
            keys.append('memptr')
    for k in keys:
        if k in ignore:
            continue
        if exp.get(k) != got.get(k):
            return f'{k}: expected {exp.get(k)}, got {got.get(k)}'
    for b, data in exp['banks'].items():
        g = got['banks'].get(b)
        if g is None or list(g) != list(data):
            if g is None:
                return f'bank {b} missing'
            i = next(i for i in range(16384) if g[i] != data[i])
            return f'bank {b} offset {i}: expected {data[i]}, got {g[i]}'
    return None


def make_recorder(env, m, rng, conv, cmio, const=False):
    mods = dict(env.rec_mods)
    if cmio:
        # "a run of the simulator itself": the contended simulator records for --cmio playback
        mods['simulator'] = type('M', (), {'Simulator': env.cmiosimulator.CMIOSimulator})
    if const or rng.random() < 0.4:
        const = rng.choice((0xFF, 0xBF, 0x1F))
        src = lambda port: const          # idle keyboard: equal readings frame after frame (repeat markers)
    else:
        src = lambda port: rng.choice((0xFF, 0xBF, 0x1F, 0x00, rng.randrange(256)))
    rec = rzxrec.Recorder(mods, m, src, conv)
    rec.decide_block = lambda: rng.random() < 0.6
    if cmio:
        base_accept = rec.accept_interrupt

        def accept():
            base_accept()
            rec.sim.registers[29] = rec.sim.registers[24]      # MEMPTR = address jumped to
        rec.accept_interrupt = accept
    return rec


def gen_plan(rng, nframes, long_frames):
    plan = []
    for _ in range(nframes):
        if long_frames and rng.random() < 0.5:
            plan.append(('t',))
        elif rng.random() < 0.45:
            plan.append(('s', rng.choice((3, 8, 20, 60, 200))))
        else:
            plan.append(('n', rng.choice((1, 1, 2, 3, 4, 7, 12, 30, rng.randrange(1, 200)))))
    return plan


class E2ECase:
    """Everything about one recording, regenerated from `seed` alone (for replay)."""

    def __init__(self, env, seed, thorough, canonical=False):
        rng = random.Random(seed)
        self.seed = seed
        self.env = env
        self.canonical = canonical
        self.is128 = rng.random() < 0.4
        self.cmio = rng.random() < 0.4
        self.conv = rng.randrange(4)
        self.fmt = rng.choice(('szx', 'szx', 'z80v3', 'z80v3', 'z80v2', 'z80v1', 'sk-szx', 'sk-z80'))
        if self.is128 and self.fmt == 'z80v1':
            self.fmt = 'z80v3'
        self.soup = rng.random() < 0.25
        z80 = self.fmt in ('z80v1', 'z80v2', 'z80v3', 'sk-z80')
        # .z80 has no MEMPTR field: under --cmio, BIT n,(HL) right after a resume would show it (format limit)
        self.no_bit_hl = self.cmio and z80
        self.directed = (not canonical) and rng.random() < 0.35
        if canonical or self.directed:
            self.soup = False
        m0 = gen_machine(rng, env, self.is128, self.soup, self.no_bit_hl)
        if self.directed:
            # frames ending on LD A,I / LD A,R / EI / HALT with interrupts enabled, results pushed so that they stay visible
            snippets = [[0xFB, 0xED, 0x5F, 0xF5], [0xFB, 0xED, 0x57, 0xF5], [0xFB, 0x76], [0xFB, 0x00, 0x00], [0xF3, 0xED, 0x5F, 0xF5],
                        [0xFB, 0xFB], [0xDD, 0xFB], [0xFB, 0xED, 0x5F, 0xED, 0x57, 0xF5], [0xFB, 0xDB, 0xFE], [0xFB, 0xED, 0x4F, 0xED, 0x5F]]
            code = []
            for _ in range(rng.randrange(6, 14)):
                code += rng.choice(snippets)
            code += [0x31, 0x00, 0xBE, 0xC3, 0x00, 0x80]          # LD SP,0xBE00 ; JP 0x8000
            for k, b in enumerate(code):
                m0.banks[2][k] = b
            m0.pc = 0x8000
            m0.im = rng.choice((1, 2))
            m0.regs[14] = 0xBE
            m0.regs[12] = 0xBE00
        if canonical:
            # the textbook recording: EI / HALT loop, IM 1, the ROM's keyboard scan reads the same ports with the same
            # (idle) values every frame -> whole frames by T-states, equal readings frame after frame, repeat markers
            for k, b in enumerate((0xFB, 0x76, 0x18, 0xFC)):
                m0.banks[2][k] = b
            m0.pc, m0.im, m0.iff = 0x8000, 1, 1
            m0.regs[10], m0.regs[11] = 0x5C, 0x3A
            m0.regs[12] = 0xBF00
        self.t0 = rng.choice((0, 0, 1000, 65535, 65536 + rng.randrange(3000), rng.randrange(69000)))
        m0.t = self.t0
        if z80:
            m0.outfe = 0          # a .z80 snapshot carries neither the last OUT to 0xFE nor MEMPTR
            m0.memptr = 0
        self.initial = m0.copy()
        self.rec = make_recorder(env, m0, rng, self.conv, self.cmio, const=canonical)
        nblocks = rng.choice((1, 1, 1, 2, 3))
        long_frames = rng.random() < (0.5 if thorough else 0.2)
        if canonical:
            nblocks = rng.choice((1, 2))
        self.blocks = []             # ('snap', Machine copy) | ('input', tstates, frames)
        self.blocks.append(('snap', self.initial))
        for b in range(nblocks):
            nfr = rng.choice((1, 2, 3, 4, 5, 7))
            ts = self.t0 if b == 0 else rng.choice((0, 0, 500))
            if canonical:
                plan = [('t',)] * rng.choice((2, 3))
            elif self.directed:
                plan = [(rng.choice('ssl'), rng.choice((2, 4, 9))) for _ in range(nfr + 2)]
            else:
                plan = gen_plan(rng, nfr, long_frames)
            frames = self.rec.record(plan, ts)
            self.blocks.append(('input', ts, frames))
            if b < nblocks - 1 and rng.random() < 0.6:
                self.blocks.append(('snap', self.rec.mach.copy()))
        self.final = self.rec.mach.copy()
        self.stats = dict(self.rec.stats)
        self.stats['instructions'] = self.rec.steps
        self.stats['readings'] = sum(len(f[1]) for b in self.blocks if b[0] == 'input' for f in b[2])
        self.final_memptr = self.rec.sim.registers[29] if self.cmio else None
        self.unsafe = self.rec.unsafe
        self.multi_snap = sum(1 for b in self.blocks if b[0] == 'snap') > 1
        self.use_marker = canonical or rng.random() < 0.4
        self.compress_in = rng.random() < 0.5
        self.compress_sn = rng.random() < 0.5
        self.file_rng = random.Random(seed ^ 0x5A5A)
        self.all_frames = [f for b in self.blocks if b[0] == 'input' for f in b[2]]

    def file_bytes(self):
        rng = self.file_rng
        out = []
        for b in self.blocks:
            if b[0] == 'snap':
                data, ext = snapshot_bytes(rng, self.env, b[1], self.fmt)
                out.append(rzxrec.snapshot_block(data, ext, self.compress_sn))
            else:
                out.append(rzxrec.input_block(b[2], b[1], self.compress_in, self.use_marker))
        return rzxrec.rzx_file(out)

    def tag(self):
        return f"{'128K' if self.is128 else '48K'}:{'cmio' if self.cmio else 'plain'}:{self.fmt}:conv{self.conv}"


def play_args(case, lang, flags, extra=()):
    args = ['--no-screen', '--quiet', '--flags', str(flags)]
    if case.cmio:
        args.append('--cmio')
    if lang == 'py':
        args.append('--python')
    return args + list(extra)


def e2e_one(chk, env, case, stops):
    """Play the recording with the real tools; report property failures as violations."""
    key_base = f"{'cmio' if case.cmio else 'plain'}"
    rid = {'kind': 'e2e', 'seed': case.seed, 'thorough': chk.thorough, 'canonical': case.canonical}
    infile = os.path.join(env.scratch, 'in.rzx')
    with open(infile, 'wb') as f:
        f.write(case.file_bytes())
    exp = expected_state(case.final, case.final_memptr)
    z80_emb = case.fmt in ('z80v1', 'z80v2', 'z80v3', 'sk-z80')
    # format limits of an embedded .z80: no "last OUT to 0xFE" byte, no MEMPTR - they are reset whenever such a
    # snapshot is loaded (intermediate snapshot blocks, resumed files)
    base_ignore = ('outfe', 'memptr') if z80_emb else ()
    if case.fmt == 'z80v1':
        base_ignore += ('ay', 'outfffd')      # a version 1 header has no AY fields either
    play_ignore = base_ignore if case.multi_snap else ()
    finals = {}
    flag_set = [case.conv] + ([case.conv | 4] if case.multi_snap else [])
    # -- uninterrupted playback, C and Python, every matching flag value
    for lang in ('c', 'py'):
        for flags in flag_set:
            ext = 'szx' if (flags + case.seed) % 2 == 0 or case.cmio else 'z80'
            out = os.path.join(env.scratch, f'final_{lang}_{flags}.{ext}')
            _, err = env.run_main(env.rzxplay, play_args(case, lang, flags) + [infile, out])
            if err:
                chk.violation(f'playback-error:{lang}:{key_base}', f'{case.tag()} flags {flags}: rzxplay failed on a self-made recording: {err}',
                              dict(rid, what='play', lang=lang, flags=flags))
                continue
            got = decode_out(out)
            d = diff_state(exp, got, ext == 'szx', play_ignore)
            if d:
                chk.violation(f'final-state:{lang}:{key_base}', f'{case.tag()} flags {flags}: playback does not end in the recorder\'s state: {d}',
                              dict(rid, what='play', lang=lang, flags=flags))
            finals[(lang, flags)] = got if ext == 'szx' else None
            with open(out, 'rb') as fh:
                finals[(lang, flags, 'bytes')] = (ext, fh.read())
    # -- C vs Python: identical output files
    for flags in flag_set:
        a, b = finals.get(('c', flags, 'bytes')), finals.get(('py', flags, 'bytes'))
        if a and b and a != b:
            chk.violation(f'c-vs-python:final-file:{key_base}', f'{case.tag()} flags {flags}: C and Python playback wrote different snapshots',
                          dict(rid, what='cpy', flags=flags))
    # -- rzxinfo reports what was recorded
    out, err = env.run_main(env.rzxinfo, ['--frames', infile])
    want_rows = info_rows_expected(case)
    if err:
        chk.violation('rzxinfo-error', f'{case.tag()}: rzxinfo failed: {err}', dict(rid, what='info'))
    else:
        got_rows = parse_info_rows(out)
        if got_rows != want_rows:
            i = next((i for i, (x, y) in enumerate(zip(got_rows, want_rows)) if x != y), min(len(got_rows), len(want_rows)))
            chk.violation('rzxinfo-report', f'{case.tag()}: rzxinfo frame {i}: reported {got_rows[i:i + 1]}, recorded {want_rows[i:i + 1]}',
                          dict(rid, what='info'))
    # -- stop at frame k, write the rest, play the written file
    total = len(case.all_frames)
    write_ops = []
    for k in stops:
        if not 1 <= k < total:
            continue
        lang = 'c' if k % 2 else 'py'
        flags = flag_set[k % len(flag_set)]
        mid = os.path.join(env.scratch, f'stop_{k}.rzx')
        _, err = env.run_main(env.rzxplay, play_args(case, lang, flags, ['--stop', str(k)]) + [infile, mid])
        if err:
            chk.violation(f'stop-error:{lang}:{key_base}', f'{case.tag()} --stop {k}: {err}', dict(rid, what='stop', k=k))
            continue
        with open(mid, 'rb') as fh:
            mid_bytes = fh.read()
        # the written file holds exactly the frames not yet played (independent reader)
        try:
            blocks = rzxrec.read_rzx(mid_bytes)
            written = [f for b in blocks if b[0] == 'input' for f in b[2]]
        except Exception as e:
            chk.violation('written-rzx-unreadable', f'{case.tag()} --stop {k}: {type(e).__name__}: {e}', dict(rid, what='stop', k=k))
            continue
        if written != case.all_frames[k:]:
            chk.violation('written-rzx-frames', f'{case.tag()} --stop {k}: written file has {len(written)} frames {written[:2]}, expected the last {total - k}: {case.all_frames[k:k + 2]}',
                          dict(rid, what='stop', k=k))
        first_in = next((b for b in blocks if b[0] == 'input'), None)
        if first_in is not None:
            write_ops.append(first_in)
        ext = 'z80' if (case.fmt in ('z80v1', 'z80v2', 'z80v3', 'sk-z80') and not case.cmio) else 'szx'
        out = os.path.join(env.scratch, f'resumed_{k}.{ext}')
        lang2 = 'py' if k % 3 else 'c'
        _, err = env.run_main(env.rzxplay, play_args(case, lang2, flags) + [mid, out])
        if err:
            chk.violation(f'resume-error:{lang2}:{key_base}', f'{case.tag()} resume after --stop {k}: {err}', dict(rid, what='stop', k=k))
            continue
        got = decode_out(out)
        d = diff_state(exp, got, ext == 'szx', base_ignore)
        if d:
            chk.violation(f'resume-final-state:{key_base}:{"z80" if z80_emb else "szx"}',
                          f'{case.tag()} flags {flags}: stop at frame {k} of {total}, play the written file: final state differs from uninterrupted playback: {d}',
                          dict(rid, what='stop', k=k))
        chk.case(f'e2e:resume:{case.fmt}', ('resume', case.seed, k), None)
    return write_ops


def info_rows_expected(case):
    rows = []
    for b in case.blocks:
        if b[0] != 'input':
            continue
        prev = None
        for fc, reads in b[2]:
            marker = case.use_marker and prev is not None and reads == prev or (case.use_marker and prev is None and reads == [])
            shown = ', '.join(map(str, reads[:10])) + ('...' if len(reads) > 10 else '')
            rows.append((fc, 65535 if marker else len(reads), len(reads) if marker else None, shown))
            prev = reads
    return rows


def parse_info_rows(text):
    rows = []
    cur = None
    for line in text.splitlines():
        s = line.strip()
        if re.match(r'Frame \d+:$', s):
            cur = [None, None, None, '']
            rows.append(cur)
        elif cur is not None:
            m = re.match(r'Fetch counter: (\d+)$', s)
            if m:
                cur[0] = int(m.group(1))
            m = re.match(r'IN counter: (\d+)(?: \((\d+)\))?$', s)
            if m:
                cur[1] = int(m.group(1))
                cur[2] = int(m.group(2)) if m.group(2) is not None else None
            m = re.match(r'Port readings: (.*)$', s)
            if m:
                cur[3] = m.group(1)
            if s.startswith(('Input recording', 'Snapshot', 'Creator')):
                cur = None
    return [tuple(r) for r in rows]


def e2e(chk, env):
    rng = chk.rng
    env.scratch = chk.scratch
    n = chk.scale(36, 450)
    discarded = 0
    write_ops, write_impl = [], []
    for i in range(n):
        seed = rng.getrandbits(48)
        try:
            case = E2ECase(env, seed, chk.thorough, canonical=i < chk.scale(2, 12))
        except rzxrec.SimulatorMismatch as e:
            # the recorder counts M1 cycles from the opcode bytes and cross-checks them against R
            chk.violation('simulator:r-increment-vs-m1-cycles', f'recording a run of the simulator: {e}',
                          {'kind': 'e2e-gen', 'seed': seed, 'thorough': chk.thorough, 'canonical': i < chk.scale(2, 12)})
            continue
        if case.unsafe:
            discarded += 1
            chk.case('e2e:discarded', None, None)
            continue
        total = len(case.all_frames)
        if total <= 9 or chk.thorough and total <= 14:
            stops = list(range(1, total))
        else:
            stops = sorted(set([1, 2, total - 1] + [rng.randrange(1, total) for _ in range(4)]))
        chk.case('e2e:' + ('canonical:' if case.canonical else '') + case.tag(), ('e2e', seed),
                 {'case': case.tag(), 'frames': [(fc, len(r)) for fc, r in case.all_frames][:8], 'stops': stops[:8],
                  'blocks': [b[0] for b in case.blocks], 'soup': case.soup} if i < 5 else None)
        for sk, sv in case.stats.items():
            chk.dist['rec:' + sk] += sv
        for b in e2e_one(chk, env, case, stops):
            frames = b[2]
            arg = ' '.join(f"{fc}:{','.join(map(str, r))}" for fc, r in frames)
            # what write_rzx wrote for the first input block (independent reader) must be what the model
            # writer gives for those frames: compare the raw stream of the real file instead
            write_ops.append(('write ' + arg).strip())
            write_impl.append(' '.join(map(str, rzxrec.frames_bytes(frames, False))))
    chk.extra['e2e_discarded_recordings'] = discarded
    return write_ops, write_impl


def written_stream_correspondence(chk, env):
    """write_rzx's io_frames stream (raw bytes of files written by the real rzxplay.main --stop) vs writeFrames."""
    rng = chk.rng
    env.scratch = chk.scratch
    ops, impl = [], []
    for i in range(chk.scale(6, 60)):
        try:
            case = E2ECase(env, rng.getrandbits(48), False)
        except rzxrec.SimulatorMismatch:
            continue
        if case.unsafe or len(case.all_frames) < 2:
            continue
        infile = os.path.join(env.scratch, 'w_in.rzx')
        with open(infile, 'wb') as f:
            f.write(case.file_bytes())
        k = rng.randrange(1, len(case.all_frames))
        mid = os.path.join(env.scratch, 'w_mid.rzx')
        _, err = env.run_main(env.rzxplay, play_args(case, rng.choice(('c', 'py')), case.conv, ['--stop', str(k)]) + [infile, mid])
        if err:
            continue
        with open(mid, 'rb') as fh:
            d = fh.read()
        # locate the first input recording block and take its raw (decompressed) stream
        j = 10
        raw = None
        nf = 0
        while j < len(d):
            ln = int.from_bytes(d[j + 1:j + 5], 'little')
            if d[j] == 0x80:
                nf = int.from_bytes(d[j + 5:j + 9], 'little')
                body = d[j + 18:j + ln]
                if int.from_bytes(d[j + 14:j + 18], 'little') & 2:
                    body = zlib.decompress(body)
                raw = list(body)
                break
            j += ln
        if raw is None:
            continue
        # frames of the block in which the stop happened, from frame k on
        pos = 0
        blk_frames = None
        for b in case.blocks:
            if b[0] == 'input':
                if pos < k <= pos + len(b[2]):        # the block in which frame k - 1 was played
                    blk_frames = b[2][k - pos:]
                    break
                pos += len(b[2])
        if blk_frames is None:
            continue
        arg = ' '.join(f"{fc}:{','.join(map(str, r))}" for fc, r in blk_frames)
        ops.append(('write ' + arg).strip())
        impl.append(' '.join(map(str, raw)))
        chk.case('written-stream', ('ws', case.seed, k), None)
    model = chk.run_driver('C20', ops)
    if model is not None:
        chk.compare('rzxplay.write_rzx frame stream (files written by --stop) vs Model/RzxInput.writeFrames', ops, impl, [m.strip() for m in model])


# ---------------------------------------------------------------------------------------------------
# 5. the recorder itself vs the Lean recorder model (so that `record_then_play` talks about this recorder)

def recorder_correspondence(chk, env):
    rng = chk.rng
    ops, impl = [], []
    for k in range(chk.scale(60, 800)):
        case = gen_play_case(rng, env, real_rom0=True)
        img = case['img']
        conv = rng.randrange(4)
        cmio = rng.random() < 0.3
        # a Machine equivalent to the image is not needed: drive the recorder's loop on the image directly
        sim = make_sim(env, 'py-cmio' if cmio else 'py-plain', img, case['regs'], case['fields'])
        stream = [rng.choice((0xFF, 0xBF, 0, rng.randrange(256))) for _ in range(400)]
        res = record_on_image(rng, env, sim, img, conv, cmio, stream, rng.choice((1, 2, 3, 5)))
        if res is None:
            continue
        frames, counts, srcs, state = res
        claims = [frames[i + 1][0] if i + 1 < len(frames) else -1 for i in range(len(frames))]
        plan = ' '.join(f"{n}/{c}/{','.join(map(str, s))}" for n, c, s in zip(counts, claims, srcs))
        ops.append(f"rec {'cmio' if cmio else 'plain'} {conv} ; {machine_line(img, case['regs'], case['fields'])} ; {plan}")
        impl.append(simcorr.norm(' '.join(f"{fc}:{','.join(map(str, r))}" for fc, r in frames) + ' ; ' + state))
        chk.case(f'recorder:conv{conv}', ('rec', k), None)
    model = chk.run_driver('C20', ops, timeout=2400)
    if model is not None:
        chk.compare('harness recorder (indep/rzxrec.py conventions) vs Model/RzxPlay.recBlock', ops, impl, [simcorr.norm(m) for m in model])


def record_on_image(rng, env, sim, img, conv, cmio, stream, nframes):
    """The recorder's frame loop (rzxrec.Recorder.record / end_frame / accept_interrupt) on an image-based
    simulator with a fixed port stream.  -> frames, instruction counts, per-frame sources, final state line"""
    rec = rzxrec.Recorder.__new__(rzxrec.Recorder)
    rec.sim = sim
    rec.memory = sim.memory
    rec.conv = conv
    rec.frames = []
    rec.notes = []
    rec.steps = 0
    rec.frame_duration = 70908 if img.is128 else 69888
    pos = [0]

    def source(port):
        v = stream[pos[0]]
        pos[0] += 1
        return v
    rec.source = source
    o7 = [img.o7ffd]
    before = mem_snapshot(img, sim.memory)

    class Tr:
        def read_port(self, registers, port):
            v = source(port)
            rec.frame_reads.append(v)
            return v

        def write_port(self, registers, port, value, offset=None):
            if img.is128 and port & 0x8002 == 0 and o7[0] & 0x20 == 0:
                o7[0] = value
                sim.memory.out7ffd(value)
    sim.set_tracer(Tr())
    if cmio:
        base_accept = rec.accept_interrupt

        def accept():
            base_accept()
            sim.registers[29] = sim.registers[24]
        rec.accept_interrupt = accept
    rec.decide_block = lambda: rng.random() < 0.6
    rec.mach = type('M', (), {'is128': img.is128})()
    rec.sync = lambda: None
    counts, srcs, starts = [], [], []
    orig_step = rec.step
    steps_in_frame = [0]

    def step():
        steps_in_frame[0] += 1
        return orig_step()
    rec.step = step
    frames = []
    plan = [('n', rng.choice((1, 1, 2, 3, 4, 6, 10, 25))) for _ in range(nframes)]
    # record frame by frame to learn the instruction counts (the recorder may extend / shorten frames)
    r = sim.registers
    t0 = r[25]
    # run the whole plan in one record() call so that the short/long-frame rules carry over
    marks = []
    orig_end = rec.end_frame

    def end_frame(last, block):
        marks.append((steps_in_frame[0], pos[0]))
        steps_in_frame[0] = 0
        return orig_end(last, block)
    rec.end_frame = end_frame
    try:
        frames = rec.record(plan, t0)
    except rzxrec.SimulatorMismatch:
        return None
    if rec.unsafe:
        return None
    p = 0
    for (n, endpos), (fc, reads) in zip(marks, frames):
        counts.append(n)
        srcs.append(stream[p:p + n + 1])
        p = endpos
    rr = list(r)
    after = mem_snapshot(img, sim.memory)
    state = f"{' '.join(map(str, rr[:24]))} ; {' '.join(map(str, rr[24:30]))} ; {mem_diff_words(img, before, after)} ; {o7[0] if img.is128 else 0}"
    return frames, counts, srcs, state


# ---------------------------------------------------------------------------------------------------
# 6. whole files through rzxplay.main vs Model/RzxPlay.playFile (block loop, snapshot blocks, flag 4)

def synthetic_rom(rng):
    rom = [0] * 16384
    rom[0] = 0xF3
    for k, b in enumerate(rng.choice(([0xFB, 0xC9], [0xF5, 0xDB, 0xFE, 0xF1, 0xFB, 0xC9], [0xC9], [0xFB, 0xED, 0x4D]))):
        rom[0x38 + k] = b
    return rom


class SyntheticRoms:
    """Make from_snapshot / pagingtracer.Memory load a small synthetic ROM (so that whole-file cases stay small
    enough to hand to the model), for the duration of the block."""

    def __init__(self, env, rom):
        self.env, self.rom = env, rom

    def __enter__(self):
        env, rom = self.env, bytes(self.rom)
        self.saved = (env.simutils.read_bin_file, env.pagingtracer.read_bin_file)
        romfiles = {env.skoolkit.ROM48, *env.skoolkit.ROM128, *env.skoolkit.ROM_PLUS2}
        real = self.saved[0]

        def read_bin_file(fname, size=-1):
            if fname in romfiles:
                return rom
            return real(fname, size)
        env.simutils.read_bin_file = read_bin_file
        env.pagingtracer.read_bin_file = read_bin_file
        return self

    def __exit__(self, *a):
        self.env.simutils.read_bin_file, self.env.pagingtracer.read_bin_file = self.saved


def machine_words(m, rom, t):
    """<machine> of the driver protocol for a Machine with the synthetic ROM"""
    cells = []
    if m.is128:
        for i in (0, 1):
            cells += [f'r{i}.{off}:{v}' for off, v in enumerate(rom) if v]
        for b in range(8):
            cells += [f'b{b}.{off}:{v}' for off, v in enumerate(m.banks[b]) if v]
        head = f'm128 70908 {14361 - 23} 58035 {m.out7ffd}'
    else:
        cells += [f'{a}:{v}' for a, v in enumerate(rom) if v]
        cells += [f'{16384 + a}:{v}' for a, v in enumerate(m.ram48()) if v]
        head = f'm48 69888 {14335 - 23} 57245 0'
    fields = [m.pc, t, m.iff, m.im, m.halted, m.memptr]
    return f"{head} ; {' '.join(map(str, m.regs))} ; {' '.join(map(str, fields))} ; {' '.join(cells)}"


def state_from_szx(d, is128):
    """the driver's <full state> (RAM cells only) from a decoded SZX snapshot"""
    regs = [d['a'], d['f'], d['bc'] >> 8, d['bc'] & 255, d['de'] >> 8, d['de'] & 255, d['hl'] >> 8, d['hl'] & 255,
            d['ix'] >> 8, d['ix'] & 255, d['iy'] >> 8, d['iy'] & 255, d['sp'], 0, d['i'], d['r'],
            d['a2'], d['f2'], d['bc2'] >> 8, d['bc2'] & 255, d['de2'] >> 8, d['de2'] & 255, d['hl2'] >> 8, d['hl2'] & 255]
    fields = [d['pc'], d['tstates'], d['iff1'], d['im'], (d.get('flags', 0) >> 1) & 1, d['memptr']]
    cells = []
    if is128:
        for b in range(8):
            cells += [f'b{b}.{off}:{v}' for off, v in enumerate(d['banks'][b]) if v]
    else:
        for base, b in ((16384, 5), (32768, 2), (49152, 0)):
            cells += [f'{base + off}:{v}' for off, v in enumerate(d['banks'][b]) if v]
    return f"{' '.join(map(str, regs))} ; {' '.join(map(str, fields))} ; {' '.join(cells)} ; {d.get('out7ffd', 0) if is128 else 0}"


def canon_file_model(line, is128, frame, stop_run):
    """model output -> what is observable from the files rzxplay writes (no frame count, RAM cells only, T mod frame)"""
    line = simcorr.norm(line)
    if line.startswith(('err', 'missing', 'bad-op')) or line.endswith('nosim'):
        return line
    parts = [p.strip() for p in line.split(';')]
    tag = parts[0].split()[0]
    f = parts[2].split()
    f[1] = str(int(f[1]) % frame)
    cells = [c for c in parts[3].split() if not (c.startswith('r') or (not is128 and int(c.split(':')[0]) < 16384))]
    state = f"{parts[1]} ; {' '.join(f)} ; {' '.join(cells)} ; {parts[4]}"
    if not stop_run:
        return simcorr.norm('fin ; ' + state) if tag == 'fin' else 'unexpected ' + line[:80]
    rem, left = (parts[5], parts[6]) if tag == 'stop' else ('', '0')
    return simcorr.norm(f'stop ; {state} ; {rem} ; {left}')


def file_correspondence(chk, env):
    rng = chk.rng
    env.scratch = chk.scratch
    ops, impl_lines, canon = [], [], []
    for k in range(chk.scale(24, 300)):
        is128 = rng.random() < 0.35
        cmio = rng.random() < 0.35
        conv = rng.randrange(4)
        rom = synthetic_rom(rng)
        with SyntheticRoms(env, rom):
            m0 = gen_machine(rng, env, is128)
            m0.outfe = rng.randrange(256)
            t0 = rng.choice((0, 0, 777))
            m0.t = t0
            mods = dict(env.rec_mods)
            mods['rom48'] = rom
            if cmio:
                mods['simulator'] = type('M', (), {'Simulator': env.cmiosimulator.CMIOSimulator})
            rec = rzxrec.Recorder(mods, m0.copy(), lambda port: rng.choice((0xFF, 0xBF, rng.randrange(256))), conv)
            rec.decide_block = lambda: rng.random() < 0.6
            if cmio:
                base_accept = rec.accept_interrupt

                def accept(rec=rec, base_accept=base_accept):
                    base_accept()
                    rec.sim.registers[29] = rec.sim.registers[24]
                rec.accept_interrupt = accept
            blocks = [('snap', m0.copy(), t0)]
            if rng.random() < 0.07:
                blocks = []                                    # no snapshot at all: 'Missing snapshot'
            nb = rng.choice((1, 2, 2, 3))
            for b in range(nb):
                ts = t0 if b == 0 else rng.choice((0, 300))
                try:
                    frames = rec.record(gen_plan(rng, rng.choice((1, 2, 3, 4)), False), ts)
                except rzxrec.SimulatorMismatch:
                    rec.unsafe = True
                    break
                blocks.append(('input', ts, frames))
                if b < nb - 1 and rng.random() < 0.7:
                    sm = rec.mach.copy()
                    kind = rng.random()
                    if kind < 0.45:
                        sm.regs[0] = (sm.regs[0] + 1) % 256     # an unfaithful snapshot: flag 4 now matters
                    blocks.append(('snap', sm, 0))
            if rec.unsafe:
                continue
            flags = rng.choice((conv, conv | 4, conv, conv | 4, rng.randrange(8)))
            total = sum(len(b[2]) for b in blocks if b[0] == 'input')
            stop = rng.choice((None, None, 1, 2, total, total + 1, rng.randrange(1, total + 1)))
            # the file
            fb = []
            words = []
            for b in blocks:
                if b[0] == 'snap':
                    fb.append(rzxrec.snapshot_block(rzxrec.szx_snapshot(b[1], compress=rng.random() < 0.5), 'szx', rng.random() < 0.5))
                    words.append('S ; ' + machine_words(b[1], rom, b[1].t))
                else:
                    fb.append(rzxrec.input_block(b[2], b[1], rng.random() < 0.5, rng.random() < 0.3))
                    words.append(f"I {b[1]} ; " + ' '.join(f"{fc}:{','.join(map(str, r))}" for fc, r in b[2]))
            infile = os.path.join(env.scratch, 'fc_in.rzx')
            with open(infile, 'wb') as f:
                f.write(rzxrec.rzx_file(fb))
            frame = 70908 if is128 else 69888
            for lang in ('py', 'c'):
                out = os.path.join(env.scratch, 'fc_out.' + ('rzx' if stop else 'szx'))
                args = ['--no-screen', '--quiet', '--flags', str(flags)] + (['--cmio'] if cmio else []) + (['--python'] if lang == 'py' else [])
                if stop:
                    args += ['--stop', str(stop)]
                _, err = env.run_main(env.rzxplay, args + [infile, out])
                if err:
                    res = ('missing' if 'Missing snapshot' in err else 'err exhausted' if 'exhausted' in err
                           else 'err leftover' if 'left for frame' in err else 'exception ' + err)
                elif not stop:
                    res = 'fin ; ' + state_from_szx(decode_out(out), is128)
                else:
                    with open(out, 'rb') as fh:
                        wb = rzxrec.read_rzx(fh.read())
                    wb = [x for x in wb if x[0] != 'other']
                    st = state_from_szx(snapdec.decode_szx(wb[0][2]), is128)
                    rem = ' '.join(f"{fc}:{','.join(map(str, r))}" for fc, r in wb[1][2])
                    res = f'stop ; {st} ; {rem} ; {len(wb) - 2}'
                ops.append(f"file {lang} {'cmio' if cmio else 'plain'} {flags} {stop if stop else '-'} | " + ' | '.join(words))
                impl_lines.append(simcorr.norm(res))
                canon.append((is128, frame, bool(stop)))
        chk.case(f"file:{'128K' if is128 else '48K'}:{'cmio' if cmio else 'plain'}", ('file', k, flags, stop),
                 {'blocks': [b[0] for b in blocks], 'flags': flags, 'stop': stop, 'result': impl_lines[-1][:50]} if k < 3 else None)
    model = chk.run_driver('C20', ops, timeout=2400)
    if model is not None:
        chk.compare('rzxplay.main on whole files (block loop, snapshot blocks, flags 0..7, --stop, written RZX) vs Model/RzxPlay.playFile',
                    ops, impl_lines, [canon_file_model(m, *c) for m, c in zip(model, canon)])


# ---------------------------------------------------------------------------------------------------

def run(chk):
    chk.rule = ('streams: explicit / repeat-marker / marker-with-different-readings / truncated / too many or too few frames / garbage, '
                'compressed or not; fetch decrements: all 1792 dispatch slots x 4 implementations; process_block: generated programs '
                '(HALT, EI/DI, IM 0/1/2, LD A,I/R, IN/INI/INIR, OUT, DD/FD prefixes, 48K and 128K paging, code at region boundaries) with frames '
                'from a dry run, then falsified (reading too many / too few, wrong fetch counter, zero-fetch frames), flags 0..7, stop counts '
                'before / at / after the end; e2e: an independent recorder (plain or contended simulator, conventions 0..3, frames by instruction '
                'count or by T-states, multi-block files with intermediate snapshots) -> RZX files with z80 v1/v2/v3 / szx snapshots, compressed or '
                'not, repeat marker or not -> rzxplay.main C and --python, every stop point of short recordings, rzxinfo.main. '
                'non-trivial = distinct (stream) / (slot, R parity) / (program, frames, flags, stop) / (recording seed, stop point). directed (every '
                'run): IN counters 65533/65534 next to the repeat marker; the C frame loop on every instruction shape across 0xFFFF/0x0000 on 48K '
                'and 128K in a child process; recordings starting with paging locked and all AY registers set; frames ending on HALT / ED xx at '
                '0xFFFF; a frame with 350 port readings (rzxinfo, stop before it, play the written file); 65539 frames through rzxinfo; generated '
                'programs begin with AY selects 15/16+/0xFF + data writes, OUT 0xFE and 0x7FFD writes, machines may start locked')
    chk.trusted += ['translator translate/py2lean.py (validated per slot by C06/C08 each run) and translate/gen_c20.py (theorem generator: output is kernel-checked)',
                    'hand models Model/RzxInput.lean, Model/RzxPlay.lean, Spec/RzxM1.lean tied by correspondence (this file)',
                    'harness recorder indep/rzxrec.py (tied to Model recBlock by correspondence) and snapshot decoders indep/snapdec.py',
                    'zlib; snapshot read/write of skoolkit (C09/C10) for the embedded snapshots']
    chk.assumptions += [
        'resume_rzx takes the snapshot round trip as the hypothesis SnapEq (registers, memory, paging, PC, IFF, IM preserved; HALT, MEMPTR, T not): '
        'that is C09/C10\'s statement; the e2e checks the composed behaviour on the real tools',
        'resume for --cmio (resume_rzx_cmio) is proved up to the clock, i.e. for embedded SZX snapshots (they carry MEMPTR and the HALT flag); '
        '.z80 has no MEMPTR field (BIT n,(HL) reads it under --cmio), so --cmio + embedded .z80 is covered by the e2e only, on recordings generated without BIT n,(HL); '
        'format limits that the e2e does not count as failures: .z80 carries neither the last OUT to 0xFE nor MEMPTR, a version 1 .z80 header no AY state',
        'the block loop playFile (snapshot blocks, flag 4) is a hand model of rzxplay.run + process_block, tied by the whole-file correspondence; '
        'flag4_irrelevant_for_faithful_snapshots assumes each later snapshot describes the state reached (Faithful)',
        'record_then_play_in_range / c_frame_eq_py_frame hold from every in-range state (RInv, C08); the recording hypotheses that remain (PlanOkR) are about '
        'the plan: the last instruction of a frame must still read back as itself (process_block re-reads memory[pc] after execution - KNOWN finding '
        'frame-end:last-instruction-rewrites-own-opcode; the recorder never ends a frame on such an instruction) and the byte at address 0 must not be '
        'EI / DD / FD (accept_interrupt(…, prev_pc=0); it is DI in every Spectrum ROM)',
        'the frame loops are translated from source on every run: CSimulator_exec_frame (translate/cloop2lean.py, both builds), the Python frame loop of process_block '
        '(`while fetch_counter > 0:`) and its end-of-frame code (translate/pyloop2lean.py, loop cores); proved equal to the models cFrame / runFrame / boundary '
        '(c_exec_frame_derived_from_source, python_frame_loop_derived_from_source, python_frame_boundary_derived_from_source) for frames that end without the '
        '"port readings exhausted" exception; validated each run against the real CSimulator.exec_frame and against the loops\' own statements run on the real Python '
        'simulators; the block loop of process_block (RZXTracer.next_frame, frame counting, --stop) and RZXTracer remain hand models tied by correspondence',
        'screen drawing, --map/--trace output and unsupported-block warnings are not part of the property',
    ]
    env = Env(chk)
    gen_ok = simgen.regen(chk)
    gen_ok = regen_c20(chk) and gen_ok
    # the C frame loop (CSimulator_exec_frame) and the C handlers it calls are translated from the tree under test too
    # (translate/cloop2lean.py, c2lean.py): theorems c_exec_frame_derived_from_source, c_exec_frame_pass
    loop_ok = looprun.regen_c_side(chk) if gen_ok else False
    ok = False
    if gen_ok and loop_ok:
        ok = chk.lake_build([PROPS, 'SkoolVerif.Prelude.SimProto', 'SkoolVerif.Model.RzxInput', 'SkoolVerif.Model.RzxPlay',
                             'SkoolVerif.Spec.RzxM1', 'SkoolVerif.Gen.SimHandlers', 'SkoolVerif.Gen.CmioHandlers'] + looprun.LOOP_DRIVER_MODULES)
    chk.audit(PROPS)
    if chk.thorough and ok:
        chk.leanchecker([PROPS])
    if gen_ok and loop_ok:
        # both frame loops, translated from source, against the real code (one driver start)
        batch = []
        looprun.frame_correspondence(chk, env.CS, env.CC, batch=batch)
        looprun.py_frame_correspondence(chk, env.simulator.Simulator, env.cmiosimulator.CMIOSimulator, batch=batch)
        looprun.py_boundary_correspondence(chk, env.simulator.Simulator, env.cmiosimulator.CMIOSimulator, batch=batch)
        looprun.flush(chk, batch)
    stream_correspondence(chk, env)
    if not crash_canary(chk, env):
        return
    fetch_decrements(chk, env)
    accept_correspondence(chk, env)
    play_correspondence(chk, env)
    recorder_correspondence(chk, env)
    written_stream_correspondence(chk, env)
    file_correspondence(chk, env)
    e2e(chk, env)
    directed_probes(chk, env)
    known_limit_probe(chk, env)


class _NoAvoid(rzxrec.Recorder):
    """A recorder that does not steer around instructions that read back differently."""

    def _reads_back_differently(self, pc, b0, b1):
        return False


def _probe_machine(code, iff=0):
    banks = {b: [0] * 16384 for b in (5, 2, 0)}
    for k, b in enumerate(code):
        banks[2][k] = b
    regs = [0] * 24
    regs[12] = 0xBF00
    regs[10], regs[11] = 0x5C, 0x3A
    regs[14] = 0x3F
    return rzxrec.Machine(False, banks, regs, 0x8000, iff=iff, im=1)


def probe_case(env, name):
    """-> (description, failure text or None) for one directed recording on the real tools."""
    sc = env.scratch
    if name == 'z80v1-pc-zero':
        # JP 0 as the only instruction of frame 1: the stop after it has PC = 0, which a version 1 .z80 header cannot hold
        m = _probe_machine((0xC3, 0x00, 0x00))
        rec = rzxrec.Recorder(env.rec_mods, m.copy(), lambda p: 0xFF, 0)
        frames = rec.record([('n', 1), ('n', 5), ('n', 5)], 0)
        data = rzxrec.z80_snapshot(m, 1)
        infile = os.path.join(sc, 'probe_a.rzx')
        with open(infile, 'wb') as f:
            f.write(rzxrec.rzx_file([rzxrec.snapshot_block(data, 'z80', True), rzxrec.input_block(frames, 0, True)]))
        mid, res = os.path.join(sc, 'probe_a_mid.rzx'), os.path.join(sc, 'probe_a_res.z80')
        _, err = env.run_main(env.rzxplay, ['--no-screen', '--quiet', '--stop', '1', infile, mid])
        if err:
            return 'stop 1', err
        _, err = env.run_main(env.rzxplay, ['--no-screen', '--quiet', mid, res])
        if err:
            return 'embedded version 1 .z80 snapshot, stop at a frame boundary where PC = 0, play the written file', err
        d = diff_state(expected_state(rec.mach, None), decode_out(res), False, ('outfe', 'memptr'))
        return 'embedded version 1 .z80 snapshot, stop where PC = 0, play the written file', d
    if name in ('reread-halt', 'reread-ei'):
        if name == 'reread-halt':
            # EI ; LD HL,8004 ; LD (HL),76 : the last instruction of frame 1 overwrites its own opcode with HALT's
            code, flags, plan = (0xFB, 0x21, 0x04, 0x80, 0x36, 0x76, 0, 0, 0, 0), 0, [('n', 3), ('n', 2)]
        else:
            # ... overwrites its own opcode with EI's; the next frame is short: under flag 2 the interrupt is wrongly blocked
            code, flags, plan = (0xFB, 0x21, 0x04, 0x80, 0x36, 0xFB, 0, 0, 0, 0), 2, [('n', 3), ('n', 1), ('n', 3)]
        m = _probe_machine(code)
        rec = _NoAvoid(env.rec_mods, m.copy(), lambda p: 0xFF, flags)
        frames = rec.record(plan, 0)
        infile = os.path.join(sc, 'probe_b.rzx')
        with open(infile, 'wb') as f:
            f.write(rzxrec.rzx_file([rzxrec.snapshot_block(rzxrec.szx_snapshot(m), 'szx', True), rzxrec.input_block(frames, 0, True)]))
        out = os.path.join(sc, 'probe_b.szx')
        _, err = env.run_main(env.rzxplay, ['--no-screen', '--quiet', '--flags', str(flags), infile, out])
        if err:
            return name, err
        return ('the last instruction of a frame overwrites its own opcode (LD (HL),n with HL = its address) so that it reads back as '
                + ('HALT' if name == 'reread-halt' else 'EI')), diff_state(expected_state(rec.mach, None), decode_out(out), True)
    if name in SWEEP_PROBES:
        return sweep_probe(env, name)
    raise ValueError(name)


def _play_and_compare(env, infile, rec, flags, langs=('c', 'py'), cmio=False):
    """Play `infile` with the real rzxplay.main; first difference from the recorder's final state, or None."""
    for lang in langs:
        out = os.path.join(env.scratch, f'sweep_{lang}.szx')
        args = ['--no-screen', '--quiet', '--flags', str(flags)] + (['--cmio'] if cmio else []) + (['--python'] if lang == 'py' else [])
        _, err = env.run_main(env.rzxplay, args + [infile, out])
        if err:
            return f'{lang}: playback failed: {err}'
        d = diff_state(expected_state(rec.mach, None), decode_out(out), True)
        if d:
            return f'{lang}: playback does not end in the recorder\'s state: {d}'
    return None


def sweep_probe(env, name):
    """Directed recordings (deterministic, every run) for corners that random programs reach rarely or never."""
    sc = env.scratch
    infile = os.path.join(sc, 'sweep.rzx')
    if name in ('ed-at-ffff', 'halt-at-ffff'):
        # the last instruction of frame 1 sits at 0xFFFF (its second byte / the next instruction wrap to address 0), interrupts
        # enabled: the end-of-frame rules look at memory[pc], memory[pc + 1] and advance PC past a HALT
        m = _probe_machine((0xFB, 0xC3, 0xFF, 0xFF))
        m.banks[0][0x3FFF] = 0xED if name == 'ed-at-ffff' else 0x76
        flags = 1 if name == 'ed-at-ffff' else 0
        rec = rzxrec.Recorder(env.rec_mods, m.copy(), lambda p: 0xFF, flags)
        frames = rec.record([('n', 3), ('n', 2), ('n', 4)], 0)
        with open(infile, 'wb') as f:
            f.write(rzxrec.rzx_file([rzxrec.snapshot_block(rzxrec.szx_snapshot(m), 'szx', True), rzxrec.input_block(frames, 0, True)]))
        return (f'frame ending on {"ED xx" if name == "ed-at-ffff" else "HALT"} at 0xFFFF with interrupts enabled, --flags {flags}',
                _play_and_compare(env, infile, rec, flags))
    if name == 'locked-128k-start':
        # a 128K recording whose snapshot has paging locked (bank 3 at 0xC000) and every AY register non-zero: the program's
        # write to 0x7FFD must be ignored (its store to 0xC000 lands in bank 3), AY register 15 must survive
        banks = {b: [b] * 16384 for b in range(8)}
        code = (0x01, 0xFD, 0x7F, 0x3E, 0x07, 0xED, 0x79,          # LD BC,7FFD; LD A,7; OUT (C),A
                0x3E, 0x5A, 0x32, 0x00, 0xC0,                      # LD A,5A; LD (C000),A
                0x01, 0xFD, 0xFF, 0x3E, 0x0E, 0xED, 0x79,          # LD BC,FFFD; LD A,14; OUT (C),A
                0x06, 0xBF, 0x3E, 0x77, 0xED, 0x79,                # LD B,BF; LD A,77; OUT (C),A
                0x00, 0x00, 0x18, 0xFC)
        for k, b in enumerate(code):
            banks[2][k] = b
        regs = [0] * 24
        regs[12], regs[14] = 0xBF00, 0x3F
        regs[10], regs[11] = 0x5C, 0x3A
        m = rzxrec.Machine(True, banks, regs, 0x8000, iff=0, im=1, border=4, out7ffd=0x23, outfffd=3, ay=[0x11 + k for k in range(16)], outfe=0x04)
        rec = rzxrec.Recorder(env.rec_mods, m.copy(), lambda p: 0xFF, 0)
        frames = rec.record([('n', 4), ('n', 7), ('n', 4)], 0)
        for emb in ('szx', 'z80'):
            data = rzxrec.szx_snapshot(m) if emb == 'szx' else rzxrec.z80_snapshot(m, 3)
            with open(infile, 'wb') as f:
                f.write(rzxrec.rzx_file([rzxrec.snapshot_block(data, emb, True), rzxrec.input_block(frames, 0, True)]))
            for lang in ('c', 'py'):
                out = os.path.join(sc, f'sweep_{lang}.szx')
                _, err = env.run_main(env.rzxplay, ['--no-screen', '--quiet'] + (['--python'] if lang == 'py' else []) + [infile, out])
                bad = err or diff_state(expected_state(rec.mach, None), decode_out(out), True, ('outfe', 'memptr') if emb == 'z80' else ())
                if bad:
                    return f'128K recording starting with paging locked, embedded .{emb}', f'{lang}: {bad}'
        return '128K recording starting with paging locked', None
    if name == 'long-frame-resume':
        # a frame with several hundred port readings (IN A,(FE) in a tight loop), stop before it, play the written file
        m = _probe_machine((0xDB, 0xFE, 0x18, 0xFC))
        seq = iter(range(1 << 30))
        rec = rzxrec.Recorder(env.rec_mods, m.copy(), lambda p: (next(seq) * 7 + 3) % 256, 0)
        frames = rec.record([('n', 6), ('n', 700), ('n', 5)], 0)
        with open(infile, 'wb') as f:
            f.write(rzxrec.rzx_file([rzxrec.snapshot_block(rzxrec.szx_snapshot(m), 'szx', True), rzxrec.input_block(frames, 0, True)]))
        out, err = env.run_main(env.rzxinfo, ['--frames', infile])
        want = [(fc, len(r), None, ', '.join(map(str, r[:10])) + ('...' if len(r) > 10 else '')) for fc, r in frames]
        if err or parse_info_rows(out) != want:
            return 'rzxinfo on a frame with 350 port readings', err or f'reported {parse_info_rows(out)[:3]}, recorded {want[:3]}'
        mid = os.path.join(sc, 'sweep_mid.rzx')
        for lang in ('c', 'py'):
            _, err = env.run_main(env.rzxplay, ['--no-screen', '--quiet', '--stop', '1'] + (['--python'] if lang == 'py' else []) + [infile, mid])
            if err:
                return 'stop before a frame with 350 port readings', f'{lang}: --stop 1 failed: {err}'
            with open(mid, 'rb') as fh:
                written = [f for b in rzxrec.read_rzx(fh.read()) if b[0] == 'input' for f in b[2]]
            if written != frames[1:]:
                k = next((i for i, (x, y) in enumerate(zip(written, frames[1:])) if x != y), 0)
                return ('stop before a frame with 350 port readings',
                        f'{lang}: the written file holds {[(fc, len(r)) for fc, r in written]}, expected {[(fc, len(r)) for fc, r in frames[1:]]} (first difference in frame {k})')
            bad = _play_and_compare(env, mid, rec, 0, (lang,))
            if bad:
                return 'stop before a frame with 350 port readings, play the written file', bad
        return 'stop before a frame with 350 port readings', None
    if name == 'many-frames':
        # more frames than fit 16 bits: rzxinfo must report every one of them
        n = 65536 + 3
        frames = [(1, [])] * n
        m = _probe_machine((0x00, 0x18, 0xFD))
        with open(infile, 'wb') as f:
            f.write(rzxrec.rzx_file([rzxrec.snapshot_block(rzxrec.szx_snapshot(m), 'szx', True), rzxrec.input_block(frames, 0, True, True)]))
        out, err = env.run_main(env.rzxinfo, ['--frames', infile])
        if err:
            return f'{n} frames', f'rzxinfo failed: {err}'
        mm = re.search(r'Number of frames: (\d+)', out)
        shown = len(re.findall(r'^  Frame \d+:$', out, re.M))
        if not mm or int(mm.group(1)) != n or shown != n:
            return f'recording with {n} frames', f'rzxinfo reports {mm.group(1) if mm else None} frames and lists {shown}'
        return f'{n} frames', None
    raise ValueError(name)


SWEEP_PROBES = {'locked-128k-start': 'start-state:128k-paging-locked', 'ed-at-ffff': 'frame-end:instruction-at-ffff', 'halt-at-ffff': 'frame-end:instruction-at-ffff',
                'long-frame-resume': 'resume:frame-with-many-port-readings',
                'many-frames': 'rzxinfo:more-than-65535-frames'}

PROBES = {'z80v1-pc-zero': 'resume:z80v1-embedded:pc-zero-at-stop',
          'reread-halt': 'frame-end:last-instruction-rewrites-own-opcode',
          'reread-ei': 'frame-end:last-instruction-rewrites-own-opcode'}


def directed_probes(chk, env):
    env.scratch = chk.scratch
    for name, key in list(PROBES.items()) + list(SWEEP_PROBES.items()):
        desc, bad = probe_case(env, name)
        chk.case('probe:' + name, ('probe', name), None)
        if bad:
            chk.violation(key, f'{desc}: {bad}', {'kind': 'probe', 'name': name})


def known_limit_probe(chk, env):
    """Observations that are not raised unless KNOWN_FINDINGS.txt lists their key (format limits)."""
    from framework import load_known
    known = load_known(chk.pid)
    key = 'z80-embedded-snapshot-loses-memptr-under-cmio'
    if key in known:
        chk.violation(key, 'an RZX file written by `rzxplay --cmio --stop` with an embedded .z80 snapshot cannot carry MEMPTR: '
                           'BIT n,(HL) as the first MEMPTR-sensitive instruction after the resume sets F bits 3/5 differently', {'kind': 'note'})


def replay(chk, data):
    env = Env(chk)
    env.scratch = chk.scratch
    kind = data.get('kind')
    n0 = len(chk.violations)
    if kind == 'e2e':
        case = E2ECase(env, data['seed'], data.get('thorough', False), data.get('canonical', False))
        total = len(case.all_frames)
        stops = [data['k']] if data.get('what') == 'stop' else []
        e2e_one(chk, env, case, stops)
        return len(chk.violations) > n0
    if kind == 'probe':
        return bool(probe_case(env, data['name'])[1])
    if kind == 'wrap':
        for img, regs, fields, seq in wrap_cases():
            if 'pc' in data and (fields[0], seq, img.is128) != (data['pc'], data['seq'], data.get('is128', False)):
                continue
            ok, res = _forked(lambda: real_process_block(env, data['impl'], img, regs, fields, [(1, [0xFF] * 2)], 0, None, 0)[0])
            if not ok:
                print(f"{data['impl']}: {res} at PC={fields[0]:#06x} {seq}")
                return True
        return False
    if kind == 'e2e-gen':
        try:
            E2ECase(env, data['seed'], data.get('thorough', False), data.get('canonical', False))
        except rzxrec.SimulatorMismatch:
            return True
        return False
    if kind == 'stream':
        d, n = data['data'], data['n']
        name = 'mem:replay.rzx'
        env.files[name] = rzxrec.rzx_file([rzxrec.input_block([None] * n, compress=False, raw=d)])
        try:
            env.rzxplay.parse_rzx(name)
            okp = True
        except Exception:
            okp = False
        _, err = env.run_main(env.rzxinfo, ['--frames', name])
        return okp != (err is None)
    if kind == 'fetchdec':
        img = Img(False)
        mem = {int(k): v for k, v in data['mem'].items()}
        for a, v in mem.items():
            img.poke(a, v)
        pc = data['fields'][0]
        want = rzxrec.m1_count(mem[pc], mem.get((pc + 1) % 65536, 0))
        _, lines = real_process_block(env, data['impl'], img, data['regs'], data['fields'], [(1, [data['ins'][0]])], 0, None, 0, trace=True)
        return bool(lines) and 1 - int(lines[0]) != want
    if kind == 'play':
        img = Img(data['is128'], data['o7ffd'])
        for k, v in data['cells']:
            img.cells[tuple(k) if isinstance(k, list) else k] = v
        frames = [(fc, list(r)) for fc, r in data['frames']]
        a, b = data['pair']
        ra, _ = real_process_block(env, a, img, data['regs'], data['fields'], frames, data['flags'], data['stop'], data['cnt'])
        rb, _ = real_process_block(env, b, img, data['regs'], data['fields'], frames, data['flags'], data['stop'], data['cnt'])
        return canon_play(ra) != canon_play(rb)
    return False
