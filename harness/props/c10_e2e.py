"""C10 end-to-end part: the property itself on the real `trace.main` (in-process).

A case = (machine, snapshot format, plain/contended, C/Python, program + start state, N).  The
uninterrupted run executes N instructions from the initial snapshot; for each split point n1 the
resumed run executes n1 instructions, writes a snapshot of the same format, and executes N - n1
more from it.  The final snapshots (same format) must be equal field by field: registers, RAM
(all banks), border, 7ffd, fffd, AY registers, IFF, IM, T mod frame (+ MEMPTR, last OUT to 0xFE for
SZX, which the Z80 format cannot hold).  In addition the state the resumed run starts in (captured at
the entry of `Tracer.run`) must be the state the first leg ended in, up to whole frames of T (and for
.z80 MEMPTR / HALT flag / last OUT to 0xFE).  Half of the cases hand the start state to the first leg
through `--reg/--state/--start` instead of through the snapshot reader, so that a value lost by the
reader is not lost consistently in both runs."""
import contextlib
import io
import os

FRAME = {'48K': 69888, '128K': 70908}
REG_FIELDS = ('a', 'f', 'bc', 'de', 'hl', 'a2', 'f2', 'bc2', 'de2', 'hl2', 'ix', 'iy', 'sp', 'i', 'r', 'pc')
HW_FIELDS = ('border', 'iff1', 'im', 'tstates', 'out7ffd', 'outfffd', 'ay')
SZX_ONLY = ('memptr', 'outfe')
BOUND16 = (0x3FFE, 0x3FFF, 0x4000, 0x7FFD, 0x7FFE, 0x7FFF, 0x8000, 0xBFFE, 0xBFFF, 0xC000, 0xFFFD, 0xFFFE, 0xFFFF)


class Image:
    """RAM image under construction (48K: 49152 bytes from 0x4000; 128K: 8 banks); `cells` keeps the
    non-default cells as {(bank, offset): value} (48K: bank 0, offset = address) for the sparse model memory."""

    def __init__(self, machine, o7ffd=0, fill=0):
        self.machine = machine
        self.o7ffd = o7ffd
        self.fill = fill
        self.cells = {}
        if machine == '48K':
            self.ram = [fill] * 49152
        else:
            self.banks = [[fill] * 16384 for _ in range(8)]

    def poke(self, addr, value):
        addr %= 65536
        if addr < 0x4000:
            return
        if self.machine == '48K':
            self.ram[addr - 0x4000] = value
            self.cells[(0, addr)] = value
        else:
            bank = (5, 2, self.o7ffd % 8)[addr // 0x4000 - 1]
            self.banks[bank][addr % 0x4000] = value
            self.cells[(bank, addr % 0x4000)] = value

    def load(self, addr, data):
        for k, b in enumerate(data):
            self.poke(addr + k, b)

    def contents(self):
        return self.ram if self.machine == '48K' else self.banks


class Tools:
    """The real tools, imported from the tree under test; C simulators rebuilt from its C source.
    `trace.Tracer` is replaced by a subclass that records the tracer of the last run (to read the state
    `get_state` does not save) and can capture the state a run starts in without executing anything."""

    def __init__(self, trace, snapshot, scratch, c_classes=None):
        self.trace = trace
        self.snapshot = snapshot
        self.scratch = scratch
        self.calls = 0
        self.last_tracer = None
        self.capture = None
        self.started = None
        self.ended = None
        if c_classes:
            trace.CSimulator, trace.CCMIOSimulator = c_classes
        self.have_c = trace.CSimulator is not None and trace.CCMIOSimulator is not None
        tools = self
        base = trace.Tracer

        class HookTracer(base):
            def __init__(self, *a, **k):
                super().__init__(*a, **k)
                tools.last_tracer = self

            def snap_state(self, start=None):
                sim = self.simulator
                r = [int(v) for v in sim.registers]
                border = self.border if isinstance(self.border, int) else self.border[-1][1] & 7     # --audio: list of (t, value)
                return {'regs': r, 'start': r[24] if start is None else start, 'border': border, 'outfe': self.outfe,
                        'outfffd': self.outfffd, 'ay': list(self.ay), 'out7ffd': self.out7ffd,
                        'o7ffd': getattr(sim.memory, 'o7ffd', 0), 'is128': len(sim.memory) == 0x20000}

            def run(self, start, *a, **k):
                tools.started = self.snap_state(start)
                if tools.capture is not None:
                    tools.capture.update(tools.started)
                    self.operations = 0
                    return
                rv = super().run(start, *a, **k)
                tools.ended = self.snap_state()
                return rv

        trace.Tracer = HookTracer

    def path(self, name):
        return os.path.join(self.scratch, name)

    def run(self, args):
        """trace.main(args); returns (stdout, None) or (stdout, 'ExcType: msg')."""
        self.calls += 1
        out = io.StringIO()
        try:
            with contextlib.redirect_stdout(out), contextlib.redirect_stderr(out):
                self.trace.main([str(a) for a in args])
        except SystemExit as e:
            return out.getvalue(), f'SystemExit: {e.code}'
        except Exception as e:  # noqa
            return out.getvalue(), f'{type(e).__name__}: {e}'
        return out.getvalue(), None

    def start_state(self, args):
        """The state `trace.main(args)` would start executing in (real `Snapshot.get`, `from_snapshot`, `trace.run` start-up)."""
        self.capture = {}
        try:
            out, err = self.run(args)
            cap = self.capture
        finally:
            self.capture = None
        return cap, err

    def write_initial(self, fname, image, regs, state):
        registers = [f'{k}={v}' for k, v in regs.items()]
        st = [f'{k}={v}' for k, v in state.items() if k != 'ay']
        st += [f'ay[{n}]={v}' for n, v in enumerate(state.get('ay', ()))]
        self.snapshot.write_snapshot(fname, image.contents(), registers, st, image.machine)

    def read(self, fname):
        s = self.snapshot.Snapshot.get(fname)
        d = {k: getattr(s, k) for k in REG_FIELDS + HW_FIELDS}
        d['ay'] = list(d['ay'])
        if s.type == 'SZX':
            for k in SZX_ONLY:
                d[k] = getattr(s, k)
        d['machine'] = s.machine
        ram = s.ram(-1)
        d['ram'] = bytes(ram)
        return d


def diff_states(a, b):
    """Names of the fields in which two read-back final states differ."""
    out = []
    for k in a:
        if k == 'ram':
            if a[k] != b[k]:
                n = [i for i in range(len(a[k])) if a[k][i] != b[k][i]]
                out.append(f'ram[{n[0]}..]x{len(n)}')
        elif a[k] != b.get(k):
            out.append(f'{k}:{a[k]}!={b.get(k)}')
    return out


def opts(cmio, py):
    return (['-c'] if cmio else []) + (['--python'] if py else [])


def first_leg_options(regs, state):
    """The start state handed to the first leg on the command line (`--reg`, `--state`, `--start`) instead of
    through the snapshot reader: a lossy restore then shows as a difference between the two runs."""
    o = ['--start', regs['pc']]
    for k, v in regs.items():
        if k != 'pc':
            o += ['--reg', f'{k}={v}']
    for k, v in state.items():
        if k == 'ay':
            for n, x in enumerate(v):
                o += ['--state', f'ay[{n}]={x}']
        else:
            o += ['--state', f'{k}={v}']
    return o


def restore_diff(fmt, machine, ended, started):
    """Fields in which the state the resumed run starts in differs from the state the first leg ended in,
    beyond what the property allows (whole frames of T; for .z80: MEMPTR, HALT flag, last OUT to 0xFE)."""
    fd = FRAME[machine]
    e, s = ended['regs'], started['regs']
    out = []
    for i in range(24):
        if e[i] != s[i]:
            out.append(f'reg{i}:{e[i]}!={s[i]}')
    if e[24] != started['start']:
        out.append(f'pc:{e[24]}!={started["start"]}')
    if e[25] % fd != s[25]:
        out.append(f'tstates:{e[25] % fd}!={s[25]}')
    for i, name in ((26, 'iff'), (27, 'im')):
        if e[i] != s[i]:
            out.append(f'{name}:{e[i]}!={s[i]}')
    if fmt == 'szx':
        for i, name in ((28, 'halted'), (29, 'memptr')):
            if e[i] != s[i]:
                out.append(f'{name}:{e[i]}!={s[i]}')
        if ended['outfe'] != started['outfe']:
            out.append(f'outfe:{ended["outfe"]}!={started["outfe"]}')
    for k in ('border', 'outfffd', 'ay', 'o7ffd'):
        if ended[k] != started[k]:
            out.append(f'{k}:{ended[k]}!={started[k]}')
    if machine == '128K' and ended['out7ffd'] != started['out7ffd']:
        out.append(f'out7ffd:{ended["out7ffd"]}!={started["out7ffd"]}')
    return out


def check_case(tools, cfg, image, regs, state, n_total, splits, by_options=False, extra=()):
    """Runs one case.  Returns [(n1, diffs, kind)] for the split points that are not transparent
    (kind 'final': the final snapshots differ; 'restore': the resumed run does not start in the state the
    first leg ended in), or [('error', [msg], None)]."""
    machine, fmt, cmio, py = cfg
    o = opts(cmio, py) + list(extra)
    init = tools.path(f'init.{fmt}')
    tools.write_initial(init, image, regs, state)
    first = first_leg_options(regs, state) if by_options else []
    full = tools.path(f'full.{fmt}')
    out, err = tools.run(o + first + ['-m', n_total, init, full])
    if err:
        return [('error', ['full run: ' + err], None)]
    ref = tools.read(full)
    bad = []
    for n1 in splits:
        mid = tools.path(f'mid.{fmt}')
        end = tools.path(f'end.{fmt}')
        out1, err = tools.run(o + first + ['-m', n1, init, mid])
        if err:
            bad.append((n1, ['leg 1: ' + err], None))
            continue
        ended = tools.ended
        out2, err = tools.run(o + ['-m', n_total - n1, mid, end])
        if err:
            bad.append((n1, ['leg 2: ' + err], None))
            continue
        got = tools.read(end)
        d = diff_states(ref, got)
        if d:
            bad.append((n1, d, 'final'))
        else:
            rd = restore_diff(fmt, machine, ended, tools.started)
            if rd:
                bad.append((n1, rd, 'restore'))
    return bad


def diagnose(tools, cfg, image, regs, state, n_total, n1, by_options=False, extra=()):
    """Classify a failing split: does handing leg 2 the state the snapshot dropped (HALT flag, MEMPTR, the
    AY state of a 48K machine) on its command line make the difference disappear?"""
    machine, fmt, cmio, py = cfg
    o = opts(cmio, py) + list(extra)
    init = tools.path(f'init.{fmt}')
    tools.write_initial(init, image, regs, state)
    first = first_leg_options(regs, state) if by_options else []
    full = tools.path(f'full.{fmt}')
    tools.run(o + first + ['-m', n_total, init, full])
    ref = tools.read(full)
    mid = tools.path(f'mid.{fmt}')
    mid_szx = tools.path('midx.szx')
    tools.run(o + first + ['-m', n1, init, mid, mid_szx])
    tr = tools.last_tracer
    end = tools.path(f'end.{fmt}')
    causes = []
    ay_args = ['--state', f'fffd={tr.outfffd}']
    for n, v in enumerate(tr.ay):
        ay_args += ['--state', f'ay[{n}]={v}']
    probes = {
        'halt-flag': ['--state', 'halted=1'],
        'memptr': ['--reg', f'memptr={tools.read(mid_szx)["memptr"]}'],
        'ay48': ay_args,
    }
    for name, extra in probes.items():
        if name == 'ay48' and machine != '48K':
            continue
        _, err = tools.run(o + extra + ['-m', n_total - n1, mid, end])
        if not err and not diff_states(ref, tools.read(end)):
            causes.append(name)
    return causes


def violation_key(cfg, causes, diffs, kind='final'):
    """Stable key of a failing split: the dropped piece of state that explains it, else the differing fields."""
    machine, fmt, cmio, py = cfg
    if kind == 'restore':
        fields = sorted({d.split(':')[0].rstrip('0123456789') for d in diffs})
        return f'restore-differs:{fmt}:{machine}:{"+".join(fields)[:60]}'
    if 'halt-flag' in causes and cmio:
        return f'cmio-resume-inside-halt-at-contention-boundary:{fmt}'
    if 'memptr' in causes and cmio and fmt == 'z80':
        return 'cmio-z80-memptr-lost-changes-bit-hl-flags'
    if 'ay48' in causes and machine == '48K':
        return '48k-ay-state-not-saved'
    fields = sorted({d.split(':')[0].split('[')[0] for d in diffs})
    return f'resume-differs:{fmt}:{machine}:{"cmio" if cmio else "plain"}:{"+".join(fields)[:60]}'


# ---------------------------------------------------------------------------------------------
# generators

def b8(r):
    return r.choice((0, 1, 2, 5, 0x0F, 0x10, 0x7F, 0x80, 0xBF, 0xFE, 0xFF, r.randrange(256), r.randrange(256)))


def a16(r):
    return r.choice(BOUND16 + (0x5800, 0x5AFF, 0x6000, 0x9000, 0xE000, r.randrange(0x4000, 65536), r.randrange(65536)))


def lohi(v):
    return [v % 256, (v // 256) % 256]


def instr(r, kind=None):
    """One instruction (bytes) from a pool biased towards state that must survive a snapshot."""
    k = kind or r.choice(POOL)
    return k, INSTR[k](r)


INSTR = {
    'nop': lambda r: [0x00],
    'ld_r_n': lambda r: [r.choice((0x06, 0x0E, 0x16, 0x1E, 0x26, 0x2E, 0x3E)), b8(r)],
    'ld_rr_nn': lambda r: [r.choice((0x01, 0x11, 0x21))] + lohi(a16(r)),
    'ld_xy_nn': lambda r: [r.choice((0xDD, 0xFD)), 0x21] + lohi(a16(r)),
    'alu_r': lambda r: [r.choice((0x3C, 0x3D, 0x04, 0x05, 0x80, 0x88, 0x90, 0x98, 0xA0, 0xA8, 0xB0, 0xB8, 0x27, 0x2F, 0x37, 0x3F, 0x07, 0x0F, 0x17, 0x1F))],
    'alu_n': lambda r: [r.choice((0xC6, 0xCE, 0xD6, 0xDE, 0xE6, 0xEE, 0xF6, 0xFE)), b8(r)],
    'alu_hl': lambda r: [r.choice((0x86, 0x8E, 0x96, 0xBE, 0x34, 0x35, 0x7E, 0x77, 0x70))],
    'alu16': lambda r: r.choice(([0x09], [0x19], [0x29], [0x39], [0xED, 0x4A], [0xED, 0x52], [0xED, 0x5A], [0x03], [0x0B], [0x23], [0x2B], [0x13], [0x33], [0x3B])),
    'ei': lambda r: [0xFB],
    'di': lambda r: [0xF3],
    'halt': lambda r: [0x76],
    'im': lambda r: [0xED, r.choice((0x46, 0x56, 0x5E, 0x4E, 0x66, 0x6E, 0x76, 0x7E))],
    'ld_ir': lambda r: [0xED, r.choice((0x47, 0x4F, 0x57, 0x5F, 0x57, 0x5F))],
    'out_n': lambda r: [0xD3, r.choice((0xFE, 0xFD, 0xFD, 0xFF, 0x00, r.randrange(256)))],
    'out_c': lambda r: [0xED, r.choice((0x41, 0x49, 0x51, 0x59, 0x61, 0x69, 0x71, 0x79))],
    'in_n': lambda r: [0xDB, r.choice((0xFE, 0xFD, 0xFD, 0xFF, r.randrange(256)))],
    'in_c': lambda r: [0xED, r.choice((0x40, 0x48, 0x50, 0x58, 0x60, 0x68, 0x70, 0x78))],
    'port_bc': lambda r: [0x01] + lohi(r.choice((0x7FFD, 0x7FFD, 0xFFFD, 0xFFFD, 0xBFFD, 0xBFFD, 0x00FE, 0xFEFE, 0x1FFD, 0x7FFC, 0x3FFD, r.randrange(65536)))),
    'port_a': lambda r: [0x3E, r.choice((0x7F, 0x7F, 0xFF, 0xBF, 0xBF, 0x00, r.randrange(256)))],
    'block': lambda r: [0xED, r.choice((0xB0, 0xB8, 0xB0, 0xA0, 0xA8, 0xB1, 0xB9, 0xA1, 0xB2, 0xBA, 0xA2, 0xB3, 0xBB, 0xA3, 0xAB))],
    'small_bc': lambda r: [0x01] + lohi(r.choice((1, 2, 3, 4, 5, 0x0100, 0x0200))),
    'djnz_self': lambda r: [0x10, 0xFE],
    'small_b': lambda r: [0x06, r.choice((1, 2, 3, 4))],
    'bit_hl': lambda r: [0xCB, 0x46 + 8 * r.randrange(8)],
    'cb_r': lambda r: [0xCB, r.randrange(256)],
    'cb_xy': lambda r: [r.choice((0xDD, 0xFD)), 0xCB, b8(r), r.randrange(256)],
    'xy_op': lambda r: [r.choice((0xDD, 0xFD)), r.choice((0x34, 0x35, 0x7E, 0x77, 0x86, 0xBE, 0x46, 0x70)), b8(r)],
    'xy_chain': lambda r: [r.choice((0xDD, 0xFD)) for _ in range(r.randrange(1, 5))] + r.choice(([0x00], [0x21, b8(r), b8(r)], [0x23], [0xFB], [0x76], [0xE5], [0x7C])),
    'stack': lambda r: [r.choice((0xF5, 0xC5, 0xD5, 0xE5, 0xF1, 0xC1, 0xD1, 0xE1, 0xE3, 0xD9, 0x08, 0xEB))],
    'xy_stack': lambda r: [r.choice((0xDD, 0xFD)), r.choice((0xE5, 0xE1, 0xE3, 0xF9))],
    'ld_sp': lambda r: [0x31] + lohi(a16(r)),
    'mem_nn': lambda r: [r.choice((0x32, 0x3A, 0x22, 0x2A))] + lohi(a16(r)),
    'mem_nn_ed': lambda r: [0xED, r.choice((0x43, 0x4B, 0x53, 0x5B, 0x73, 0x7B))] + lohi(a16(r)),
    'ld_hl_n': lambda r: [0x36, b8(r)],
    'jr0': lambda r: [r.choice((0x18, 0x20, 0x28, 0x30, 0x38)), 0],
    'rst': lambda r: [r.choice((0xC7, 0xCF, 0xD7, 0xDF, 0xE7, 0xEF, 0xF7, 0xFF))],
    'ret': lambda r: [r.choice((0xC9, 0xC0, 0xC8, 0xED, 0xD8))] if r.random() < 0.8 else [0xED, r.choice((0x45, 0x4D))],
    'misc_ed': lambda r: [0xED, r.choice((0x44, 0x67, 0x6F, 0x00, 0xFF, 0x77))],
    'rand': lambda r: [r.randrange(256) for _ in range(r.randrange(1, 4))],
}
POOL = tuple(INSTR)
# weights: things whose state lives only in the simulator/tracer get more mass
MIX_POOL = POOL + ('ei', 'ei', 'halt', 'out_n', 'out_c', 'in_n', 'in_c', 'port_bc', 'port_a', 'block', 'small_bc',
                   'xy_chain', 'xy_chain', 'bit_hl', 'ld_ir', 'im', 'stack', 'alu_r', 'ld_r_n', 'ld_rr_nn')

ISR_BODIES = (
    [0xFB, 0xC9],                                        # EI; RET
    [0xF5, 0xED, 0x5F, 0xD3, 0xFE, 0xF1, 0xFB, 0xED, 0x4D],  # PUSH AF; LD A,R; OUT (FE),A; POP AF; EI; RETI
    [0xFB, 0xFB, 0x76],                                  # EI; EI; HALT (nested wait)
    [0x34, 0xC9],                                        # INC (HL); RET (interrupts stay off)
    [0xE1, 0xFB, 0xE9],                                  # POP HL; EI; JP (HL)
    [0xDD, 0xFD, 0xFB, 0xED, 0x45],                      # DD FD EI; RETN
)


def rand_regs(r, sp=None):
    regs = {k: r.randrange(256) for k in ('a', 'f', 'i', 'r', '^a', '^f')}
    for k in ('bc', 'de', 'hl', 'ix', 'iy', '^bc', '^de', '^hl'):
        regs[k] = a16(r)
    regs['sp'] = sp if sp is not None else r.choice((0x5C00, 0x8000, 0xFF00, 0x4001, 0x4000, 0x0000, 0x0001, 0xFFFF, r.randrange(0x4002, 65536)))
    return regs


def rand_hw(r, machine, cmio):
    fd = FRAME[machine]
    ia = 32 if machine == '48K' else 36
    c0 = 14335 if machine == '48K' else 14361
    t = r.choice((
        fd - r.randrange(1, 60), fd - r.randrange(1, 400), r.randrange(0, ia + 8), ia - r.randrange(1, 8),
        c0 + r.randrange(-30, 400), c0 + 224 * r.randrange(192) + r.randrange(0, 140), r.randrange(fd),
        fd - r.randrange(1, 60), r.randrange(c0 - 30, 58100) if cmio else r.randrange(fd)))
    st = {'iff': r.choice((1, 1, 1, 0)), 'im': r.choice((0, 1, 2, 2)), 'tstates': t % fd, 'border': r.randrange(8),
          'fe': r.randrange(256)}
    if machine == '128K':
        st['7ffd'] = r.choice((0, 1, 3, 4, 7, 0x10, 0x11, 0x17, 0x0F, 0x20, 0x21, 0x37, r.randrange(64)))
        st['fffd'] = r.choice((0, 1, 7, 14, 15, 16, 200, r.randrange(256)))
        st['ay'] = [r.randrange(256) for _ in range(16)]
    return st


def gen_mix(r, machine, cmio, sparse=False):
    """Straight-line mixture of pool instructions starting at a boundary-biased address, IM 2 vector
    and a short interrupt routine in RAM."""
    st = rand_hw(r, machine, cmio)
    img = Image(machine, st.get('7ffd', 0), fill=0 if sparse else r.choice((0, 0, 0xFF, 0x76, 0xFB)))
    if not sparse and r.random() < 0.3:
        # random RAM
        for a in range(0x4000, 0x10000, 1):
            img.poke(a, r.randrange(256))
    start = r.choice((0x7FF0, 0x7FFA, 0x7FFE, 0xBFF4, 0xBFFE, 0xFFF0, 0xFFFB, 0x4000, 0x5B00, 0x8000, 0xC000, r.randrange(0x4000, 0xFFFF)))
    tags = []
    code = []
    n = r.randrange(6, 28)
    for _ in range(n):
        k, bs = instr(r, r.choice(MIX_POOL))
        tags.append(k)
        code += bs
    img.load(start, code)
    regs = rand_regs(r)
    regs['pc'] = start
    # IM 2 plumbing: vector at I*256+255 -> ISR
    ihi = r.choice((0x5B, 0x7F, 0x80, 0xBF, 0xFE, 0xFF, 0x3F, 0x40))
    isr = r.choice((0x5CCC, 0x7FFD, 0x8181, 0xBFFF, 0xFDFD, 0xC000))
    regs['i'] = ihi
    img.load(ihi * 256 + 255, lohi(isr))
    img.load(isr, r.choice(ISR_BODIES))
    n_total = r.randrange(4, 30)
    return img, regs, st, n_total, ['mix'] + sorted(set(tags))


def gen_halt(r, machine, cmio, sparse=False):
    """EI; HALT waiting for the frame interrupt, HALT placed so that PC and PC+1 lie in
    differently contended memory; then an interrupt routine and code after the HALT."""
    st = rand_hw(r, machine, cmio)
    fd = FRAME[machine]
    wait = r.randrange(0, 14)            # HALT repetitions before the interrupt
    st['tstates'] = (fd - 4 * wait - r.randrange(1, 9)) % fd if r.random() < 0.6 else st['tstates']
    st['iff'] = r.choice((0, 1))
    st['im'] = r.choice((1, 2, 2))
    img = Image(machine, st.get('7ffd', 0))
    halt_at = r.choice((0x7FFF, 0x7FFF, 0x3FFF + 0x4000, 0xBFFF, 0xFFFF, 0x4000, 0x8000, 0xC000, 0x5000, r.randrange(0x4001, 0xFFFF)))
    pre = r.choice(([0xFB], [0xFB], [0xF3, 0xFB], [0x00, 0xFB], [0xFB, 0x00], []))
    start = (halt_at - len(pre)) % 65536
    if start < 0x4000:
        start, pre = halt_at, []
    post = []
    for _ in range(6):
        post += instr(r, r.choice(('alu_r', 'ld_r_n', 'ei', 'halt', 'out_n', 'stack', 'nop', 'ld_ir')))[1]
    img.load(start, pre + [0x76] + post)
    regs = rand_regs(r, sp=r.choice((0x5C00, 0x8000, 0x4002, 0xFFFE, 0x0000)))
    regs['pc'] = start
    ihi = r.choice((0x5B, 0x80, 0xFE))
    isr = r.choice((0x5CCC, 0x8181, 0xFDFD, 0x7FFE))
    regs['i'] = ihi
    img.load(ihi * 256 + 255, lohi(isr))
    img.load(isr, r.choice(ISR_BODIES))
    n_total = len(pre) + wait + r.randrange(2, 12)
    return img, regs, st, n_total, ['halt', f'halt@{halt_at:04X}' if halt_at in (0x7FFF, 0xBFFF, 0xFFFF, 0x4000, 0x8000, 0xC000) else 'halt@other']


def gen_block(r, machine, cmio, sparse=False):
    """Repeating block instructions (LDIR/LDDR/CPIR/INIR/OTIR) cut in mid-repeat, across region
    boundaries and across the frame interrupt; the block may overwrite its own opcode."""
    st = rand_hw(r, machine, cmio)
    img = Image(machine, st.get('7ffd', 0), fill=0 if sparse else r.choice((0, 0x55)))
    start = r.choice((0x8000, 0x7FFE, 0xBFFE, 0xFFFE, 0x6000, 0xC000))
    op = r.choice((0xB0, 0xB8, 0xB1, 0xB9, 0xB2, 0xBA, 0xB3, 0xBB))
    code = [0xED, op] + instr(r, 'alu_r')[1] + instr(r, 'out_n')[1] + [0xED, op, 0x00, 0x00]
    img.load(start, code)
    regs = rand_regs(r, sp=0x5C00)
    regs['pc'] = start
    regs['bc'] = r.choice((3, 5, 9, 0x0203, 0x0105, 0xFFFD % 65536))
    regs['hl'] = r.choice((0x7FFD, 0xBFFE, 0xFFFE, 0x3FFE, 0x5000, start - 3, a16(r)))
    regs['de'] = r.choice((0x7FFE, 0xBFFD, 0xFFFD, 0x3FFE, 0x6000, start - 1, start + 1, a16(r)))
    ihi = 0x5B
    regs['i'] = ihi
    img.load(ihi * 256 + 255, lohi(0x5CCC))
    img.load(0x5CCC, r.choice(ISR_BODIES))
    return img, regs, st, r.randrange(4, 16), ['block', f'ED{op:02X}']


def gen_ports(r, machine, cmio, sparse=False):
    """Port traffic whose effect lives in the tracer / paging hardware: border, 0x7FFD (incl. the
    lock bit and ROM/bank switches under the running code), AY register select/write/read."""
    st = rand_hw(r, machine, cmio)
    img = Image(machine, st.get('7ffd', 0))
    start = r.choice((0x8000, 0x6000, 0xBFF0))
    code = []
    tags = set()
    for _ in range(r.randrange(3, 9)):
        kind = r.choice(('border', 'page', 'aysel', 'aywr', 'ayrd', 'in', 'page_a'))
        tags.add(kind)
        if kind == 'border':
            code += [0x3E, b8(r), 0xD3, 0xFE]
        elif kind == 'page':
            code += [0x01, 0xFD, 0x7F, 0x3E, r.choice((0, 1, 3, 7, 0x10, 0x17, 0x20, 0x27, r.randrange(256))), 0xED, 0x79]
        elif kind == 'page_a':
            code += [0x3E, 0x7F, 0xD3, 0xFD]          # OUT (0x7FFD),0x7F: locks paging, ROM 1, bank 7
        elif kind == 'aysel':
            code += [0x01, 0xFD, 0xFF, 0x3E, r.choice((0, 5, 14, 15, 16, 255, r.randrange(256))), 0xED, 0x79]
        elif kind == 'aywr':
            code += [0x01, 0xFD, 0xBF, 0x3E, b8(r), 0xED, 0x79]
        elif kind == 'ayrd':
            code += [0x01, 0xFD, 0xFF, 0xED, r.choice((0x78, 0x50, 0x70))]
        else:
            code += [0x3E, b8(r), 0xDB, r.choice((0xFE, 0xFD, 0xFF))]
    code += [0x00] * 4
    img.load(start, code)
    # the same code in every bank that may get paged in at 0xC000 is not needed: code is below 0xC000
    regs = rand_regs(r, sp=0x5C00)
    regs['pc'] = start
    st['iff'] = r.choice((0, 0, 1))
    n_total = r.randrange(4, max(5, len(code) // 3))
    return img, regs, st, n_total, ['ports'] + sorted(tags)


def gen_rand(r, machine, cmio, sparse=False):
    """Random bytes (execution wanders into ROM routines as well); sparse: a 96-byte window of them."""
    st = rand_hw(r, machine, cmio)
    img = Image(machine, st.get('7ffd', 0))
    regs = rand_regs(r)
    regs['pc'] = a16(r)
    if sparse:
        for a in range(regs['pc'] - 8, regs['pc'] + 88):
            img.poke(a, r.randrange(256))
    else:
        rb = r.randbytes(65536)
        for a in range(0x4000, 0x10000):
            img.poke(a, rb[a])
    return img, regs, st, r.randrange(4, 24), ['rand']


def gen_pulse(r, machine, cmio, sparse=False):
    """EI/DI/prefix sequences executed while the INT pulse is active (it lasts 32/36 T-states): whether and
    where the interrupt is accepted depends on the instruction just executed and on the clock alone."""
    st = rand_hw(r, machine, cmio)
    fd = FRAME[machine]
    st['tstates'] = (fd - r.choice((0, 1, 3, 4, 5, 8, 9, 12, 16, 20, 30))) % fd if r.random() < 0.8 else r.randrange(0, 40)
    st['iff'] = r.choice((0, 1, 1))
    st['im'] = r.choice((1, 2, 2))
    img = Image(machine, st.get('7ffd', 0))
    start = r.choice((0x8000, 0x7FF8, 0xBFFA, 0x6000))
    code = []
    for _ in range(r.randrange(8, 16)):
        code += r.choice(([0xFB], [0xFB], [0xFB, 0xFB], [0xF3], [0x00], [0x00], [0xDD], [0xFD], [0xDD, 0xFB], [0x3C], [0x76], [0xFD, 0x00],
                          [0xED, 0x57], [0xED, 0x5F], [0xDD, 0x23], [0xFB, 0x76]))
    img.load(start, code + [0x00] * 6)
    regs = rand_regs(r, sp=r.choice((0x5C00, 0x8100, 0xFFFE)))
    regs['pc'] = start
    ihi = r.choice((0x5B, 0x81, 0xFE))
    isr = r.choice((0x5CCC, 0x9191, 0xFDFD))
    regs['i'] = ihi
    img.load(ihi * 256 + 255, lohi(isr))
    img.load(isr, r.choice(ISR_BODIES))
    return img, regs, st, r.randrange(6, 18), ['pulse']


GENERATORS = (('mix', gen_mix, 5), ('pulse', gen_pulse, 3), ('halt', gen_halt, 3), ('block', gen_block, 2), ('ports', gen_ports, 2), ('rand', gen_rand, 1))


# ---------------------------------------------------------------------------------------------
# helpers shared with c10.py

def norm(line):
    return ' '.join(line.split())


def regs24(regs):
    """The 24 general register slots of `simulator.registers` for a register dict of the generators."""
    def hl(v):
        return [(v // 256) % 256, v % 256]
    return ([regs['a'], regs['f']] + hl(regs['bc']) + hl(regs['de']) + hl(regs['hl']) + hl(regs['ix']) + hl(regs['iy'])
            + [regs['sp'], 0, regs['i'], regs['r'], regs['^a'], regs['^f']] + hl(regs['^bc']) + hl(regs['^de']) + hl(regs['^hl']))


def plain_regs(pc, sp=0x5C00):
    regs = {k: 0 for k in ('a', 'f', 'i', 'r', '^a', '^f', 'bc', 'de', 'hl', 'ix', 'iy', '^bc', '^de', '^hl')}
    regs['sp'] = sp
    regs['pc'] = pc
    regs['i'] = 63
    return regs


def _w_halt():
    # EI; HALT at 0x7FFE/0x7FFF: PC is contended, PC+1 = 0x8000 is not; T = 20000 is inside the display
    img = Image('48K')
    img.load(0x7FFE, [0xFB, 0x76])
    hw = {'iff': 0, 'im': 1, 'tstates': 20000, 'border': 7, 'fe': 0}
    return img, plain_regs(0x7FFE), hw, 40, [2, 3, 14, 39]


def _w_bit():
    # LD HL,0x9000; LD A,(0x28FF) [MEMPTR = 0x2900]; BIT 0,(HL) [F bits 5,3 from MEMPTR's high byte]; NOP
    img = Image('48K')
    img.load(0x8000, [0x21, 0x00, 0x90, 0x3A, 0xFF, 0x28, 0xCB, 0x46, 0x00])
    hw = {'iff': 0, 'im': 1, 'tstates': 100, 'border': 7, 'fe': 0}
    return img, plain_regs(0x8000), hw, 4, [1, 2, 3]


def _w_ay():
    # select AY register 5, write 0x42, read it back (48K machine)
    img = Image('48K')
    img.load(0x8000, [0x01, 0xFD, 0xFF, 0x3E, 5, 0xED, 0x79, 0x06, 0xBF, 0x3E, 0x42, 0xED, 0x79, 0x06, 0xFF, 0xED, 0x78, 0x00])
    hw = {'iff': 0, 'im': 1, 'tstates': 100, 'border': 7, 'fe': 0}
    return img, plain_regs(0x8000), hw, 9, [3, 6, 7]


WITNESSES = {
    'halt-wait-at-7fff': {'machine': '48K', 'cmio': True, 'formats': ('szx', 'z80'), 'build': _w_halt},
    'bit-hl-after-memptr': {'machine': '48K', 'cmio': True, 'formats': ('szx', 'z80'), 'build': _w_bit},
    'ay-on-48k': {'machine': '48K', 'cmio': False, 'formats': ('szx', 'z80'), 'build': _w_ay},
}


# ---------------------------------------------------------------------------------------------
# directed state sweep (deterministic, every run): every bit of every piece of state the property names is
# set by the program itself between two split points, so that a field narrowed, dropped or mixed up on the
# way register file -> get_state -> snapshot file -> reader -> from_snapshot -> register file shows as a
# concrete failing split (the random generators reach e.g. AY registers 14/15 of a 48K machine, bit 7 of
# the low byte of an alternate pair, or bits 6-7 of the last 0x7FFD value only now and then)

def _d_regs(machine='48K'):
    img = Image(machine)
    code = [0x3E, 0xFF,              # LD A,0xFF
            0x01, 0xFF, 0xFF,        # LD BC,0xFFFF
            0x11, 0xFF, 0xFF,        # LD DE,0xFFFF
            0x21, 0xFF, 0xFF,        # LD HL,0xFFFF
            0xA7, 0x3D,              # AND A; DEC A          (F = 0xAA: S,5,3,N)
            0x08, 0xD9,              # EX AF,AF'; EXX
            0x3E, 0x80,              # LD A,0x80
            0x01, 0x80, 0x81,        # LD BC,0x8180
            0x11, 0x82, 0x7F,        # LD DE,0x7F82
            0x21, 0xFE, 0x01,        # LD HL,0x01FE
            0x37,                    # SCF
            0xDD, 0x21, 0xFF, 0xFE,  # LD IX,0xFEFF
            0xFD, 0x21, 0x80, 0x81,  # LD IY,0x8180
            0x31, 0xFF, 0xFF,        # LD SP,0xFFFF
            0xED, 0x47,              # LD I,A
            0xED, 0x4F,              # LD R,A                (R bit 7 set)
            0x08, 0xD9,              # EX AF,AF'; EXX
            0x00, 0x00]
    img.load(0x8000, code)
    hw = {'iff': 0, 'im': 2, 'tstates': 100, 'border': 5, 'fe': 0x15}
    if machine == '128K':
        hw.update({'7ffd': 0, 'fffd': 0, 'ay': [0] * 16})
    return img, plain_regs(0x8000), hw, 21, [7, 8, 13, 15, 16, 17, 18, 20]


def _d_hw128():
    img = Image('128K')
    code = []
    for port_hi, v in ((0x7F, 0xC7),             # 0x7FFD: bank 7, bits 6-7 set, not locked
                       (0xFF, 0x0F), (0xBF, 0xFF),   # AY register 15 = 0xFF
                       (0xFF, 0x0E), (0xBF, 0xEE),   # AY register 14 = 0xEE
                       (0xFF, 0x00), (0xBF, 0x80),   # AY register 0 = 0x80
                       (0xFF, 0xFF),                 # selected AY register 0xFF (no register)
                       (0x7F, 0xF0)):            # 0x7FFD: ROM 1, bank 0, locked, bits 6-7 set
        code += [0x01, 0xFD, port_hi, 0x3E, v, 0xED, 0x79]      # LD BC,port; LD A,v; OUT (C),A
    code += [0x3E, 0xFF, 0xD3, 0xFE,             # LD A,0xFF; OUT (0xFE),A  (border 7, last OUT 0xFF)
             0x01, 0xFD, 0x7F, 0x3E, 0x07, 0xED, 0x79,   # a write the lock must refuse
             0xED, 0x5E, 0x00, 0x00]             # IM 2
    img.load(0x8000, code)
    hw = {'iff': 0, 'im': 0, 'tstates': 70000, 'border': 0, 'fe': 0, '7ffd': 0, 'fffd': 0, 'ay': [0] * 16}
    n = 3 * 9 + 2 + 3 + 2
    return img, plain_regs(0x8000), hw, n, [3, 6, 9, 12, 15, 18, 21, 24, 27, 29, 32, 33]


def _d_ay48(only):
    def build():
        img = Image('48K')
        if only == 'fffd':
            # a register is selected, every AY register is still 0
            code = [0x01, 0xFD, 0xFF, 0x3E, 0x0E, 0xED, 0x79, 0xED, 0x78, 0x00, 0x00]
            n, splits = 6, [3, 4, 5]
        else:
            # registers 15 and 14 written, then register 0 selected again (fffd = 0)
            code = []
            for port_hi, v in ((0xFF, 0x0F), (0xBF, 0xFF), (0xFF, 0x0E), (0xBF, 0xEE), (0xFF, 0x00)):
                code += [0x01, 0xFD, port_hi, 0x3E, v, 0xED, 0x79]
            code += [0x3E, 0x0F, 0xED, 0x79, 0x06, 0xFF, 0xED, 0x78, 0x00, 0x00]   # select 15 again; IN A,(C)
            n, splits = 20, [6, 12, 15, 17, 18, 19]
        img.load(0x8000, code)
        hw = {'iff': 0, 'im': 1, 'tstates': 100, 'border': 7, 'fe': 0}
        return img, plain_regs(0x8000), hw, n, splits
    return build


def _d_border():
    # border / last OUT to 0xFE changed several times; run with --audio, where the tracer keeps the border as a list
    img = Image('48K')
    code = []
    for v in (0x01, 0x12, 0xFD, 0x06):
        code += [0x3E, v, 0xD3, 0xFE]
    code += [0x00, 0x00]
    img.load(0x8000, code)
    hw = {'iff': 0, 'im': 1, 'tstates': 69000, 'border': 3, 'fe': 3}
    return img, plain_regs(0x8000), hw, 9, [1, 2, 4, 6, 8]


def _d_halt_im(machine):
    def build():
        # IM 0 / IM 2, HALT waits with IFF off (never leaves) and on, saved inside the wait
        img = Image(machine)
        img.load(0x8000, [0xED, 0x46, 0xF3, 0x76])          # IM 0; DI; HALT (forever)
        hw = {'iff': 1, 'im': 2, 'tstates': FRAME[machine] - 30, 'border': 2, 'fe': 2}
        if machine == '128K':
            hw.update({'7ffd': 0x10, 'fffd': 7, 'ay': list(range(0xF0, 0x100))})
        return img, plain_regs(0x8000), hw, 12, [1, 2, 3, 4, 8, 11]
    return build


DIRECTED = {
    'regs-all-bits': {'machine': '48K', 'cmio': False, 'formats': ('szx', 'z80'), 'build': _d_regs, 'pythons': (False, True)},
    'regs-all-bits-cmio-128k': {'machine': '128K', 'cmio': True, 'formats': ('szx', 'z80'), 'build': lambda: _d_regs('128K'), 'pythons': (False,)},
    'hw-128k-all-bits': {'machine': '128K', 'cmio': False, 'formats': ('szx', 'z80'), 'build': _d_hw128, 'pythons': (False, True)},
    'ay-48k-regs-14-15': {'machine': '48K', 'cmio': False, 'formats': ('szx', 'z80'), 'build': _d_ay48('ay'), 'pythons': (False,)},
    'ay-48k-fffd-only': {'machine': '48K', 'cmio': False, 'formats': ('szx', 'z80'), 'build': _d_ay48('fffd'), 'pythons': (True,)},
    'border-list-audio': {'machine': '48K', 'cmio': False, 'formats': ('szx', 'z80'), 'build': _d_border, 'pythons': (False, True), 'extra': ('--audio',)},
    'halt-di-im0-48k': {'machine': '48K', 'cmio': False, 'formats': ('szx', 'z80'), 'build': _d_halt_im('48K'), 'pythons': (False,)},
    'halt-di-im0-128k': {'machine': '128K', 'cmio': True, 'formats': ('szx',), 'build': _d_halt_im('128K'), 'pythons': (True,)},
}


def tstate_sweep(machine):
    """Start clocks on every boundary of the two snapshot encodings of the frame position (quarter frames of
    the .z80 header, the 16/24-bit cuts of the SZX dword, frame end) and in the INT window; two NOPs, split
    between them; the start state is handed to the first leg on the command line."""
    fd = FRAME[machine]
    q = fd // 4
    ts = [0, 1, q - 1, q, 2 * q - 1, 2 * q, 3 * q - 1, 3 * q, 65532, 65536, fd - 5, fd - 4, fd - 1]
    out = []
    for t in ts:
        img = Image(machine)
        img.load(0x8000, [0x00, 0x00, 0x00])
        hw = {'iff': 0, 'im': 1, 'tstates': t, 'border': 1, 'fe': 1}
        if machine == '128K':
            hw.update({'7ffd': 0, 'fffd': 0, 'ay': [0] * 16})
        out.append((t, img, plain_regs(0x8000), hw, 2, [1]))
    return out


def long_run_case():
    """EI; HALT; JR -4 with an `EI; RET` interrupt routine (IM 2) for more than 2^24 T-states (4.2 million
    instructions, ~240 frames), then a little more than one frame after resuming: where the next interrupt
    falls depends on the frame position carried by the snapshot."""
    img = Image('48K')
    img.load(0x8000, [0xFB, 0x76, 0x18, 0xFC])
    img.load(0x80FF, [0x00, 0x90])
    img.load(0x9000, [0xFB, 0xC9])
    hw = {'iff': 1, 'im': 2, 'tstates': 69000, 'border': 1, 'fe': 0}
    regs = plain_regs(0x8000)
    regs['i'] = 0x80
    n1 = (1 << 22) + 5000
    return img, regs, hw, n1 + 19000, [n1]


def replay_data(cfg, img, regs, hw, n, n1, by_options=False, extra=()):
    return {'kind': 'split', 'by_options': by_options, 'extra': list(extra), 'cfg': list(cfg), 'machine': img.machine, 'o7ffd': img.o7ffd, 'fill': img.fill,
            'cells': [[b, a, v] for (b, a), v in sorted(img.cells.items())], 'regs': regs, 'hw': hw, 'n': n, 'n1': n1,
            'cmd': (f'trace.py {" ".join(opts(cfg[2], cfg[3]) + list(extra))} -m {n} init.{cfg[1]} full.{cfg[1]}  vs  -m {n1} init.{cfg[1]} mid.{cfg[1]} ; '
                    f'-m {n - n1} mid.{cfg[1]} end.{cfg[1]}')}


def from_replay(data):
    img = Image(data['machine'], data['o7ffd'], data.get('fill', 0))
    for b, a, v in data['cells']:
        if img.machine == '48K':
            img.ram[a - 0x4000] = v
        else:
            img.banks[b][a] = v
        img.cells[(b, a)] = v
    m, f, c, p = data['cfg']
    return (m, f, bool(c), bool(p)), img, data['regs'], data['hw'], data['n'], data['n1'], bool(data.get('by_options'))
