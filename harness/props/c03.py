"""C03 — skool -> control file -> skool round trip retains every annotation and directive.

Theorems: lean/SkoolVerif/Props/C03.lean (expand/abbrev of '*' multipliers, trailing-sublength trimming
vs sna2skool's refill loop, 'C' sublength merging, DEFB/DEFM sublengths fixpoint + second-trip fixed
point, dots-escaping of blank comments, paragraph write/split, -k comment groups with '.'/':' lines).
Tie: hand models (Model/CtlLengths, CtlCompose, CtlText, CtlComments) + correspondence (this file)
against skoolkit.skoolctl / ctlparser / disassembler / snaskool / skoolutils.
E2E: random memory + random annotated ctl -> sna2skool -> skool2ctl -b [-k -h -l] -> sna2skool, textual
equality and second-trip fixed point (indep/c03_e2e.py: generator, space predicate, witnesses)."""
import contextlib
import io
import itertools
import random
import traceback

from framework import fresh_import, shrink_list
from indep import c03_e2e as E

PROPS = 'SkoolVerif.Props.C03'
SPEC_POOL = ('d8', 'd1', 'd2', '1:c2', 'b1:d2', 'h2', 'm1', 'c3', 'n4', 'b2', 'd3:b1', 'h8', '2', '1', '8')


def codes(s):
    return ' '.join(str(ord(c)) for c in s)


class Stmt:
    """Stand-in for skoolctl.Instruction as write_sub_block reads it."""
    def __init__(self, address, length, sublengths=None, operation=''):
        self.address, self.length, self.sublengths, self.operation = address, length, sublengths, operation


def capture(f, *a, **kw):
    out = io.StringIO()
    with contextlib.redirect_stdout(out), contextlib.redirect_stderr(io.StringIO()):
        f(*a, **kw)
    return out.getvalue()


def make_ctl_writer(skoolctl, keep=False):
    w = skoolctl.CtlWriter.__new__(skoolctl.CtlWriter)
    w.keep_lines = keep
    w.assembler = skoolctl.get_assembler()
    w.elements = 'abtdrmscn'
    w.write_asm_dirs = True
    w.address_fmt = '{}'
    return w


# ---- correspondence: statement lengths -----------------------------------------------------

def corr_lengths(chk, skoolctl, ctlparser, tools):
    rng = chk.rng
    ops, impl = [], []
    ids = {s: i + 1 for i, s in enumerate(SPEC_POOL)}
    writer = make_ctl_writer(skoolctl)

    def rand_specs():
        n = rng.choice((0, 1, 1, 2, 3, 5, 8, 13))
        out = []
        while len(out) < n:
            out += [rng.choice(SPEC_POOL)] * rng.choice((1, 1, 1, 2, 3, 4))
        return out[:n]

    # all short lists over a 3-letter alphabet, then random run-structured lists
    cases = [list(t) for k in range(chk.scale(6, 8)) for t in itertools.product(SPEC_POOL[:3], repeat=k)]
    cases += [rand_specs() for _ in range(chk.scale(400, 4000))]
    parsed = {}
    for s in SPEC_POOL:
        parsed[ctlparser._parse_sublengths(s, 'B', 'n')] = ids[s]
    for specs in cases:
        # get_lengths
        real = skoolctl.get_lengths(specs)
        pairs = []
        for p in (real.split(',') if real else []):
            a, _, m = p.partition('*')
            pairs.append('{}*{}'.format(ids[a], m or 1))
        ops.append('abbrev ' + ' '.join(str(ids[s]) for s in specs))
        impl.append(('ok ' + ' '.join(pairs)).rstrip() if pairs else 'ok ')
        chk.case('abbrev', ('abbrev', tuple(specs)) if len(set(specs)) < len(specs) else None,
                 {'op': 'get_lengths', 'in': specs[:12], 'out': real[:60]})
        # parse_params on that output
        if specs:
            params = real.split(',')
            got = ctlparser.parse_params('B', ['0'] + params)[1:]
            ops.append('expand ' + ' '.join(pairs))
            impl.append('ok ' + ' '.join(str(parsed[g]) for g in got))
            chk.case('expand', ('expand', real))
            # the property of this layer on the real code
            if [parsed[g] for g in got] != [ids[s] for s in specs]:
                chk.violation('lengths-expand-abbrev', 'parse_params(get_lengths(xs)) != xs', {'kind': 'abbrev', 'specs': specs})
        # write_sub_block (B branch): total, trimming, abbreviation
        if specs:
            stmts = []
            a = 30000
            for sp in specs:
                ln = ctlparser._parse_sublengths(sp, 'B', 'n')[0]
                stmts.append(Stmt(a, ln, sp))
                a += ln
            line = capture(writer.write_sub_block, 'B', 'b', '', stmts, None).strip()
            f = line.split(' ')[1].split(',')
            pairs = []
            for p in f[2:]:
                x, _, m = p.partition('*')
                pairs.append('{}*{}'.format(ids[x], m or 1))
            ops.append('trimabbrev ' + ' '.join(str(ids[s]) for s in specs))
            impl.append('ok ' + ' '.join(pairs))
            chk.case('trimabbrev', ('trim', tuple(specs)) if len(specs) > 1 and specs[-1] == specs[-2] else None,
                     {'op': 'write_sub_block', 'in': specs[:12], 'out': line[:70]})
    # layout: the refill loop of sna2skool, observed through the DEFB statements it writes
    for _ in range(chk.scale(150, 1200)):
        sizes = [rng.randint(1, 6) for _ in range(rng.randint(1, 5))]
        reps = rng.randint(1, 4)
        total = sum(sizes) + (reps - 1) * sizes[-1] if rng.random() < 0.8 else sum(sizes[:-1]) + rng.randint(1, 12)
        ctl = 'b 32768\nB 32768,{},{}\ni {}\n'.format(total, ','.join(map(str, sizes)), 32768 + total)
        binfile = tools.write('lay.bin', bytes(total))
        st, sk, _ = tools.skool(binfile, 32768, ctl, [])
        got = [l.split('DEFB ')[1].count(',') + 1 for l in sk.split('\n') if 'DEFB ' in l]
        ops.append('layout {} {}'.format(total, ' '.join(map(str, sizes))))
        # the model returns the specification used for each statement; a truncated final statement keeps its specification
        want = []
        pos = 0
        for i, g in enumerate(got):
            want.append(g)
            pos += g
        impl.append('ok ' + ' '.join(map(str, norm_layout(sizes, total, got))))
        chk.case('layout', ('layout', total, tuple(sizes)), {'op': 'sna2skool B sublengths', 'ctl': ctl.split('\n')[1], 'stmt_sizes': got})
    # 'C' sub-blocks: merging by operand bases, trimming of base-less ends
    OPS = (('NOP', 1), ('XOR A', 1), ('LD A,1', 2), ('LD HL,0', 3), ('LD (IX+1),2', 4))
    BASES = ('', '', 'd', 'b', 'h', 'dd', 'nb')
    bid = {b: i for i, b in enumerate(('', 'd', 'b', 'h', 'dd', 'nb'))}
    for _ in range(chk.scale(600, 5000)):
        n = rng.randint(1, 7)
        instrs = []
        a = 40000
        for _ in range(n):
            op, size = rng.choice(OPS)
            b = rng.choice(BASES)
            if rng.random() < 0.3 and instrs:
                b = instrs[-1].length
            instrs.append(Stmt(a, b, None, op))
            a += size
        sizes = [instrs[i + 1].address - instrs[i].address for i in range(n - 1)] + [dict(OPS)[instrs[-1].operation]]
        entry_ctl = rng.choice('ccb')
        comment = rng.choice(('', '', 'text'))
        trim = (not comment) and entry_ctl == 'c'
        line = capture(writer.write_sub_block, 'C', entry_ctl, comment, instrs, None).strip()
        fields = line.split(' ')[1].split(',')
        off = int(fields[0]) - 40000
        subs = fields[1:] if len(fields) <= 2 else fields[2:]
        pairs = []
        for sp in subs:
            b = sp.rstrip('0123456789')
            pairs.append('{}:{}'.format(bid[b], sp[len(b):]))
        ops.append('cmerge {} {}'.format(int(trim), ' '.join('{}:{}'.format(bid[i.length], s) for i, s in zip(instrs, sizes))))
        impl.append(('ok {} {}'.format(off, ' '.join(pairs))).rstrip() + ('' if pairs else ' '))
        chk.case('cmerge', ('cmerge', line), {'op': 'write_sub_block C', 'bases': [i.length for i in instrs], 'sizes': sizes, 'line': line})
    return ops, impl


def norm_layout(sizes, total, got):
    """The real statement sizes, except that a truncated last statement is reported with its nominal size
    (the model returns the sublength specification applied to each statement)."""
    out = list(got)
    if out and sum(out) == total:
        nominal = sizes[min(len(out), len(sizes)) - 1] if len(out) <= len(sizes) else sizes[-1]
        if out[-1] < nominal:
            out[-1] = nominal
    return out


# ---- correspondence: DEFB/DEFM statements ----------------------------------------------------

BYTE_POOL = (0, 1, 31, 32, 33, 34, 44, 58, 59, 65, 92, 94, 96, 97, 126, 127, 128, 160, 162, 193, 220, 222, 224, 254, 255)


def rand_data_sl(rng, exact=True):
    n = rng.randint(1, 9)
    data = [rng.choice(BYTE_POOL) if rng.random() < 0.8 else rng.randrange(256) for _ in range(n)]
    if rng.random() < 0.3:
        data = [rng.choice((65, 66, 34, 92, 32, 0, 200)) for _ in range(n)]
    sl = []
    left = n
    while left > 0:
        k = rng.randint(1, min(left, 4))
        sl.append((k, rng.choice('bcdhmnccn')))
        left -= k
    if not exact:
        r = rng.random()
        if r < 0.3:
            sl = [(0, rng.choice('bcdhmn'))]
        elif r < 0.6:
            sl.append((rng.randint(1, 3), rng.choice('bcdhmn')))      # overrun: stray commas / IndexError
        elif sl:
            sl = sl[:-1] or sl
    return data, sl


def corr_statements(chk, disassembler, snaskool, skoolctl, ctlparser):
    rng = chk.rng
    ops, impl = [], []
    dis = {}
    for hx in (0, 1):
        for lw in (0, 1):
            cfg = snaskool.DisassemblerConfig(bool(hx), bool(lw), 8, 65, 1, 0, snaskool.Instruction, '', 0)
            dis[hx, lw] = disassembler.Disassembler([0] * 65536, cfg)
    composer_b = skoolctl.ControlDirectiveComposer(True)
    composer_n = skoolctl.ControlDirectiveComposer(False)

    def render(hx, lw, kind, data, sl):
        try:
            return dis[hx, lw].defb_dir(data, tuple(sl), kind == 'T')
        except IndexError:
            return None

    def op_args(hx, lw, kind, data, sl):
        return '{} {} {} {} | {}'.format(hx, lw, kind, ' '.join(map(str, data)), ' '.join('{}:{}'.format(*x) for x in sl))

    # 1. defb_items / get_message / _num_str
    cases = []
    for b in range(256):
        for base in 'bcdhmn':
            cases.append(('byte', [b], [(1, base)]))
    for t in itertools.product((65, 34, 0, 193), repeat=3):
        cases.append(('msg3', list(t), [(3, 'c')]))
    for _ in range(chk.scale(1500, 12000)):
        cases.append(('rand',) + rand_data_sl(rng, rng.random() < 0.7))
    operations = []
    for tag, data, sl in cases:
        hx, lw = rng.randrange(2), rng.randrange(2)
        kind = rng.choice('BT')
        text = render(hx, lw, kind, data, sl)
        ops.append('defb ' + op_args(hx, lw, kind, data, sl))
        impl.append('ok ' + codes(text) if text is not None else 'err index')
        chk.case('defb-' + tag, ('defb', hx, kind, tuple(data), tuple(sl)), {'op': 'defb_dir', 'data': data, 'sl': sl, 'text': text})
        if text is not None:
            operations.append(text)
    # 2. ControlDirectiveComposer.compose on rendered statements and on hand-made ones
    extra = ['DEFB 1,2,3', 'DEFB "a","b"', 'DEFM "a,b;c",$0A', 'DEFB %101,-1,$FF,"x"+128', 'DEFM ""', 'DEFB "', 'defb  1 , 2 ', 'DEFB "a\\"', 'DEFB',
             'DEFB "a"b', 'DEFB 1,,2', 'DEFM "\\"\\\\"', 'DEFW 1,$0002,%11,"a",-1', 'DEFW 1', 'DEFW 1,2,$3,$4,5', 'defw $1,1', 'DEFS 10', 'DEFS $0A,255',
             'DEFS 10,$FF', 'DEFS %1010,"a"', 'DEFS "a"', 'DEFS ","', 'DEFS 3,-1', 'DEFS 5,%1', 'DEFS 5,5,5', 'DEFB "\\\\","a\\""+128', 'DEFM "x"+$80',
             'DEFS "\\""', 'DEFB 1, 2', 'DEFW 1 ,2', 'DEFB "a" , "b"']
    for _ in range(chk.scale(300, 3000)):
        items = []
        for _ in range(rng.randint(1, 6)):
            items.append(rng.choice(('1', '255', '$0A', '$ff', '%00000001', '-1', '-$01', '"a"', '"ab,c"', '"\\""', '"a"+128', '"\\\\"+$80',
                                     '0', '"x:y"', '" "', '12', '$1234', '-256', '"A\\"B"')))
        extra.append(rng.choice(('DEFB ', 'DEFM ', 'DEFW ', 'defb ', 'defm ')) + ','.join(items))
    unsupported = 0
    for operation in operations[:chk.scale(1500, 100000)] + extra:
        for pb, comp in ((1, composer_b), (0, composer_n)):
            if pb == 0 and rng.random() < 0.5:
                continue
            try:
                c, ln, sub = comp.compose(operation)
                r = 'ok {} {} {}'.format(c, ln, codes(sub)).rstrip() + ('' if sub else ' ')
            except Exception as e:
                r = 'err ' + type(e).__name__
            ops.append('compose {} {}'.format(pb, codes(operation)))
            impl.append(r)
            chk.case('compose', ('compose', pb, operation), {'op': 'compose', 'pb': pb, 'operation': operation, 'result': r[:60]})
    # 3. _parse_sublengths
    specs = ['1', 'd1', 'c2:1', '1:c2:b1', 'n3', 'b', 'bd4', 'hn', '', ':', '1:', 'x', 'd', '$0A', 'h$0A', '%11', 'c"a"', 'c","', 'c":"', '5:c', '5:', 'd5:h',
             'b%101:m', 'nn2', 'dd', '1:2:3', 'm1:m1', 'c', '0', 'd0', '1:x']
    for _ in range(chk.scale(300, 3000)):
        specs.append(':'.join(rng.choice(('', '', 'b', 'c', 'd', 'h', 'm', 'n', 'bd', 'nn')) + rng.choice(('1', '2', '10', '', '$A', '%11'))
                              for _ in range(rng.randint(1, 4))))
    for spec in specs:
        for subctl, dflt in (('B', 'n'), ('T', 'c'), ('S', 'n'), ('C', 'n'), ('W', 'n')):
            try:
                ln, ls = ctlparser._parse_sublengths(spec, subctl, dflt)
                r = 'ok {} {}'.format(ln, ' '.join('{}:{}'.format(n, b) for n, b in ls))
            except ValueError:
                r = 'err invalidInt'
            ops.append('parse {} {} {}'.format(subctl, dflt, codes(spec)))
            impl.append(r)
            chk.case('parse', ('parse', subctl, spec))
    # 4. the whole statement loop, which is also the property itself on the real functions
    for _ in range(chk.scale(1200, 10000)):
        data, sl = rand_data_sl(rng, True)
        hx, lw = rng.randrange(2), rng.randrange(2)
        kind = rng.choice('BT')
        text = render(hx, lw, kind, data, sl)
        c, ln, sub = composer_b.compose(text)
        params = ctlparser.parse_params(c, [str(ln), sub])
        text2 = render(hx, lw, kind, data, params[1][1])
        c2, ln2, sub2 = composer_b.compose(text2) if text2 else (None, None, None)
        ops.append('fix ' + op_args(hx, lw, kind, data, sl))
        impl.append('ok {} {} | {}'.format(ln, codes(sub), codes(text2 or '')))
        chk.case('fix', ('fix', hx, kind, tuple(data), tuple(sl)), {'op': 'render-compose-parse-render', 'text': text, 'sub': sub})
        if text2 != text or ln != len(data) or (c2, ln2, sub2) != (c, ln, sub):
            chk.violation('statement-sublengths-fixpoint', 'DEFB/DEFM statement changes when its -b sublengths are composed, parsed and rendered again',
                          {'kind': 'fix', 'hex': hx, 'lower': lw, 'stmt': kind, 'data': data, 'sl': sl})
    return ops, impl


# ---- correspondence: comments --------------------------------------------------------------------

def corr_comments(chk, skoolkit, skoolctl, snaskool, skoolutils, tools):
    rng = chk.rng
    ops, impl = [], []
    # 1. escape (skool2ctl) and unescape (sna2skool) of blank / dots-only comments, through the tools
    texts = ['', '.', '..', '...', 'a', 'a.', '.a', '. .', 'x y', '....', 'e.g.', '.. .', 'end.']
    for text in texts:
        for n in (1, 2, 3):
            rows = []
            for i in range(n):
                c = ''
                if n == 1:
                    c = ' ; ' + text
                elif i == 0:
                    c = ' ; {' + text
                elif i == n - 1:
                    c = ' ; }'
                else:
                    c = ' ;'
                rows.append('{}{} DEFB 0{}'.format('b' if i == 0 else ' ', 32768 + i, c).rstrip())
            skool = '; Title\n' + '\n'.join(rows) + '\n'
            st, ctl, _ = tools.ctl(skool, [])
            line = [l for l in ctl.split('\n') if l.startswith('B ')][0]
            f = line.split(' ', 2)
            ops.append('esc {} {}'.format(n, codes(text)).rstrip())
            impl.append('ok ' + codes(f[2]) if len(f) > 2 else 'none')
            chk.case('esc', ('esc', n, text), {'op': 'skool2ctl comment', 'rows': rows, 'ctl': line})
            # unescape: what sna2skool makes of the written text
            binfile = tools.write('esc.bin', bytes(n))
            st, sk, _ = tools.skool(binfile, 32768, 'b 32768 Title\n{}\ni {}\n'.format(line, 32768 + n), [])
            cm = [l.split(';', 1)[1].strip() if ';' in l else None for l in sk.split('\n') if 'DEFB' in l]
            ml = bool(cm and cm[0] is not None and cm[0].startswith('{'))
            if ml:
                body = ' '.join(c for c in cm if c).strip()
                body = body[1:-1] if body.endswith('}') else body[1:]
            else:
                body = cm[0] or ''
            ops.append('unesc {} {}'.format(n, codes(f[2]) if len(f) > 2 else 'none'))
            impl.append(('ok ' + codes(body.strip())).rstrip() + (' ' if not body.strip() else '') + ' ml=' + str(ml).lower())
            chk.case('unesc', ('unesc', n, text))
            if body.strip() != text.strip() or (n > 1) != ml:
                chk.violation('blank-or-dots-comment', 'blank/dots-only comment does not survive skool2ctl -> sna2skool',
                              {'kind': 'esc', 'n': n, 'text': text})
    # 2. wrap
    for _ in range(chk.scale(400, 4000)):
        width = rng.choice((10, 20, 28, 77, rng.randint(8, 90)))
        lens = [rng.choice((1, 2, 3, 5, 8, 12, width - 1, width, width + 1, rng.randint(1, 30))) for _ in range(rng.randint(0, 25))]
        lens = [max(l, 1) for l in lens]
        lines = skoolkit.wrap(' '.join('x' * l for l in lens), width)
        ops.append('wrap {} {}'.format(width, ' '.join(map(str, lens))).rstrip())
        impl.append(('ok ' + ' '.join(str(len(l.split())) for l in lines)).rstrip() + ('' if lines else ' '))
        chk.case('wrap', ('wrap', width, tuple(lens)) if len(lines) > 1 else None)
    # 3. join_comments(split=True) and write_paragraphs
    sw = snaskool.SkoolWriter.__new__(snaskool.SkoolWriter)
    for _ in range(chk.scale(500, 5000)):
        lines = []
        for _ in range(rng.randint(0, 9)):
            r = rng.random()
            lines.append([0] if r < 0.25 else [0, 0] if r < 0.3 else [rng.choice((0, 1, 2, 3, 4)) for _ in range(rng.randint(1, 4))] if r < 0.5
                         else [rng.randint(1, 9) for _ in range(rng.randint(1, 4))])
        strs = [' '.join('.' if w == 0 else 'w' * w for w in l) for l in lines]
        real = skoolutils.join_comments(strs, True)
        ops.append('split ' + ' | '.join(' '.join(map(str, l)) for l in lines))
        impl.append('ok ' + ' | '.join(' '.join('0' if w == '.' else str(len(w)) for w in p.split()) for p in real))
        chk.case('split', ('split', tuple(map(tuple, lines))) if [0] in lines else None)
        # paragraphs -> lines
        ps = [[rng.choice((1, 2, 3, 5, 8, 13)) for _ in range(rng.randint(1, 12))] for _ in range(rng.randint(0, 4))]
        if rng.random() < 0.1 and ps:
            ps[rng.randrange(len(ps))].append(0)
        width = rng.choice((12, 20, 30, 77))
        sw.comment_width = width
        out = capture(sw.write_paragraphs, [[' '.join('.' if w == 0 else 'w' * w for w in p)] for p in ps])
        got = [l[2:].split() for l in out.split('\n') if l]
        ops.append('wparas {} {}'.format(width, ' | '.join(' '.join(map(str, p)) for p in ps)))
        impl.append('ok ' + ' | '.join(' '.join('0' if w == '.' else str(len(w)) for w in l) for l in got))
        chk.case('wparas', ('wparas', width, tuple(map(tuple, ps))) if len(ps) > 1 else None)
        # the layer's property on the real functions
        if ps and not any(l == ['.'] for l in got[:0] + [g for g in got]) or True:
            back = skoolutils.join_comments([' '.join(l) for l in got], True)
            clean = all(0 not in p for p in ps)
            if clean and back != [' '.join('w' * w for w in p) for p in ps]:
                chk.violation('paragraphs-write-split', 'join_comments(write_paragraphs(ps)) != ps', {'kind': 'paras', 'ps': ps, 'width': width})
    # 4. -k comment groups: write_sub_block/_write_lines and _format_instruction_comments/_set_instruction_comments
    writer = make_ctl_writer(skoolctl, True)
    sw.comment_gen = None
    sw.config = {'Timings': 0}

    def txt(i):
        return '' if i == 0 else 'w{}'.format(i)

    def rand_groups():
        n = rng.randint(1, 5)
        gs = [[rng.choice((0, 0, 1, 2, 3, 4)) for _ in range(rng.choice((1, 1, 1, 2, 3)))] for _ in range(n)]
        r = rng.random()
        if r < 0.3:
            for k in range(rng.randint(0, n - 1), n):
                gs[k] = [0]
        return gs

    cases = [[list(g) for g in t] for n in (1, 2, 3) for t in itertools.product(([0], [1], [1, 2], [0, 1], [1, 0]), repeat=n)]
    cases += [rand_groups() for _ in range(chk.scale(500, 5000))]
    for groups in cases:
        n = len(groups)
        if groups == [[0]]:
            continue            # a blank comment on one instruction is not passed to write_sub_block as a list
        stmts = [Stmt(50000 + i, 1, 'd1') for i in range(n)]
        if n > 1 and rng.random() < 0.3:
            # an M directive: one pseudo-instruction carries the comment of n instructions
            out = capture(writer.write_sub_block, 'M', 'b', [[txt(i) for i in g] for g in groups], [Stmt(50000, None)], '').split('\n')[1:]
        else:
            out = capture(writer.write_sub_block, 'B', 'b', [[txt(i) for i in g] for g in groups], stmts, None).split('\n')[1:]
        lines = [(l[0], l[2:]) for l in out if l]
        ops.append('wgroup ' + ' | '.join(' '.join(map(str, g)) for g in groups))
        enc = ' '.join(p + (t[1:] if t else '0') for p, t in lines)
        impl.append(('ok ' + enc).rstrip() + ('' if enc else ' '))
        chk.case('wgroup', ('wgroup', tuple(map(tuple, groups))) if any(len(g) > 1 for g in groups) or groups[-1] == [0] else None,
                 {'op': 'write_sub_block -k', 'groups': groups, 'lines': out[:8]})
        # read them back with the real SkoolWriter + parse_address_comments
        back = read_keep_real(snaskool, skoolutils, skoolctl, sw, n, lines)
        ops.append('rkeep {} {}'.format(n, enc).rstrip())
        impl.append('ok ' + ' | '.join(' '.join(str(int(t[1:]) if t else 0) for t in g) for g in back) if back is not None else 'none')
        chk.case('rkeep', ('rkeep', n, enc))
        if back is not None and [[txt(i) for i in g] for g in groups] != back:
            chk.violation('keep-lines-comment-groups', 'skool2ctl -k comment lines are distributed differently by sna2skool',
                          {'kind': 'groups', 'groups': groups})
    # reader alone on arbitrary '.'/':' sequences
    for _ in range(chk.scale(300, 3000)):
        n = rng.randint(1, 5)
        lines = [(rng.choice('..:'), txt(rng.choice((0, 1, 2, 3)))) for _ in range(rng.randint(1, 7))]
        lines[0] = ('.', lines[0][1])
        back = read_keep_real(snaskool, skoolutils, skoolctl, sw, n, lines)
        if back is None or any('{' in t or '}' in t for g in back for t in g):
            continue
        enc = ' '.join(p + (t[1:] if t else '0') for p, t in lines)
        ops.append('rkeep {} {}'.format(n, enc))
        impl.append('ok ' + ' | '.join(' '.join(str(int(t[1:]) if t else 0) for t in g) for g in back))
        chk.case('rkeep-rand', ('rkeep', n, enc))
    return ops, impl


class FakeInstr:
    def __init__(self, address):
        self.address, self.operation, self.bytes, self.comment = address, 'DEFB 0', (0,), None
        self.rowspan = self.grouped = None

    def set_comment(self, rowspan, text):
        self.rowspan, self.grouped = rowspan, text


class FakeBlock:
    pass


def read_keep_real(snaskool, skoolutils, skoolctl, sw, n, lines):
    """ctl comment lines -> instruction comments (SkoolWriter) -> grouped comment (parse_address_comments, keep_lines)."""
    block = FakeBlock()
    block.instructions = [FakeInstr(50000 + i) for i in range(n)]
    block.comment = [(0, '')] + [(1 if p == ':' else 0, t) for p, t in lines]
    block.repeat_comment = 0
    if len(block.comment) == 1:
        return None
    sw._format_instruction_comments(block, 200, False)
    acs = [(None, None, None)]
    for ins in block.instructions:
        cm = ins.comment
        acs.append((ins, [cm[0] or ''] + list(cm[1:]), []))
    skoolutils.parse_address_comments(acs, True)
    first = block.instructions[0]
    if first.rowspan != n and n > 1:
        return [['<rowspan {}>'.format(first.rowspan)]]
    if n == 1:
        return first.grouped
    return first.grouped


# ---- e2e ------------------------------------------------------------------------------------------

S_OPTS = ([], [], ['-H'], ['-l'], ['-H', '-l'], ['-w', '60'], ['-w', '120'], ['-w', '30'], ['-H', '-w', '100'])
C_OPTS = ([], [], ['-k'], ['-k'], ['-h'], ['-l'], ['-k', '-h'], ['-k', '-l'])


def e2e(chk, tools):
    rng = chk.rng
    flags = E.Flags()
    # 1. the fixed witnesses of the defects found while building this check (all fixed in /repo now)
    for w in E.WITNESSES:
        fails, v, d = E.probe(tools, w)
        chk.case('witness', ('witness', w[0]), {'witness': w[0], 'ctl': w[4], 'verdict': v})
        if fails:
            setattr(flags, w[1], False)      # keep the random generator away from the shape: find *other* failures
            chk.violation(w[0], w[7], {'kind': 'witness', 'key': w[0]})
    # 1b. directed deterministic round trips: shapes the random generator draws rarely or never (@bytes on the last statement,
    # character DEFS sizes, every operand shape x base prefix, M repeat, brace/blank comments, all @ignoreua kinds, header/footer blocks)
    dverdicts = {}
    for name, org, data, lines, s_opts, c_opts in E.directed_cases(tools):
        v, d = E.roundtrip(tools, org, data, lines, s_opts, c_opts)
        dverdicts[v] = dverdicts.get(v, 0) + 1
        chk.case('directed-' + v, ('directed', name, tuple(s_opts), tuple(c_opts)) if v == 'ok' else None)
        if v in ('differ', 'not-fixed', 'ctl-error', 's2-error'):
            chk.violation('directed-{}:{}'.format(v, name.split(':')[0] + (':' + name.split(':')[1] if ':' in name else '')),
                          'directed case {}: '.format(name) + describe(v, lines if len(data) < 100 else lines[:3], s_opts, c_opts, d),
                          {'kind': 'roundtrip', 'org': org, 'data': list(data), 'ctl': lines, 's_opts': s_opts, 'c_opts': c_opts, 'keep': '-k' in c_opts})
    chk.note('directed verdicts: ' + ', '.join('{}={}'.format(k, v) for k, v in sorted(dverdicts.items())))
    # 2. random round trips
    budget = chk.scale(3000, 40000)
    verdicts = {}
    nfail = 0
    for n in range(budget):
        if nfail >= 30:
            chk.note('e2e stopped after 30 failing cases')
            break
        s_opts = list(rng.choice(S_OPTS))
        c_opts = list(rng.choice(C_OPTS))
        g = E.CaseGen(rng, '-k' in c_opts)
        g.flags = flags
        g.end_opt = rng.random() < 0.3
        org, data, lines, tags = g.gen()
        if g.end_opt:
            s_opts += ['-e', str(org + len(data))]
        v, d = E.roundtrip(tools, org, data, lines, s_opts, c_opts)
        verdicts[v] = verdicts.get(v, 0) + 1
        tag = 'e2e-' + v + ('-k' if '-k' in c_opts else '')
        key = None
        if v == 'ok':
            key = ('e2e', d['s1'], tuple(c_opts))
        chk.case(tag, key, {'ctl': lines[:14], 's_opts': s_opts, 'c_opts': c_opts, 'tags': sorted(tags)} if v == 'ok' else None)
        for t in tags:
            chk.dist['feat-' + t] += 1
        if v in ('differ', 'not-fixed', 'ctl-error', 's2-error'):
            nfail += 1
            if nfail > 6:
                # enough minimised examples: report the rest unshrunk under one key per verdict
                chk.violation('roundtrip-{}{}:unshrunk'.format(v, '-k' if '-k' in c_opts else ''), describe(v, lines, s_opts, c_opts, d),
                              {'kind': 'roundtrip', 'org': org, 'data': list(data), 'ctl': lines, 's_opts': s_opts, 'c_opts': c_opts, 'keep': g.keep})
                continue
            limit = org + len(data)
            tail = lines[-1:] if lines[-1].startswith('i ') and not g.end_opt else []

            def fails(ls, v=v):
                ls = ls + tail
                return E.in_space(ls, g.keep, flags, limit) and E.roundtrip(tools, org, data, ls, s_opts, c_opts)[0] == v
            small = shrink_list(lines[:len(lines) - len(tail)], fails, 400) + tail
            v2, d2 = E.roundtrip(tools, org, data, small, s_opts, c_opts)
            if v2 != v:
                small = lines
            chk.violation(classify(v, small, c_opts), describe(v, small, s_opts, c_opts, d2 if v2 == v else d),
                          {'kind': 'roundtrip', 'org': org, 'data': list(data), 'ctl': small, 's_opts': s_opts, 'c_opts': c_opts, 'keep': g.keep})
    chk.note('e2e verdicts: ' + ', '.join('{}={}'.format(k, v) for k, v in sorted(verdicts.items())))


def classify(v, lines, c_opts):
    """A stable key for a shrunk failing ctl: verdict + the directive letters involved + the -k flag."""
    letters = ''.join(sorted(set(l[0] if l[0] != ' ' else '_' for l in lines)))
    ats = sorted(set(l.split()[2].split('=')[0].split(':')[0] for l in lines if l.startswith('@ ') and len(l.split()) > 2))
    return 'roundtrip-{}{}:{}{}'.format(v, '-k' if '-k' in c_opts else '', letters, (':@' + '+'.join(ats)) if ats else '')


def describe(v, lines, s_opts, c_opts, d):
    import difflib
    desc = 'sna2skool {} -> skool2ctl -b {} -> sna2skool: {}; ctl: {}'.format(' '.join(s_opts), ' '.join(c_opts), v, ' / '.join(lines)[:600])
    if v == 'differ':
        diff = [l for l in difflib.unified_diff(d['s1'].split('\n'), d['s2'].split('\n'), lineterm='', n=0) if not l.startswith(('---', '+++', '@@'))]
        desc += '; diff: ' + ' | '.join(diff[:8])[:500]
    return desc


# ---- entry points ----------------------------------------------------------------------------------

def run(chk):
    chk.rule = ('correspondence: all short lists over 3 sublength specs + random run-structured lists (abbrev/expand/trim), random sublength lists '
                'through sna2skool (layout), random instruction runs (C merging); every byte x base, all 3-byte messages over {A,",0,0xC1}, random '
                'data/sublength lists incl. overruns (defb), rendered + hand-written operations (compose), sublength specs (parse); blank/dots '
                'comments x rowspan 1-3 through the tools; random word lengths (wrap), line lists (split), paragraphs; all comment groups over '
                '5 shapes up to 3 instructions + random groups (-k). e2e: random memory (code laid out from instruction templates, data/text/'
                'words/DEFS runs) + random annotated ctl (all block types, titles, D/R/N/E, M incl. repeat, B/C/S/T/W with lengths, sublengths, '
                '* and base prefixes, blank/dots-only comments, dot/colon continuation lines under -k, @ directives incl. ignoreua variants, '
                '> header/footer blocks, hex addresses, @bytes matching the statement) x sna2skool {-H,-l,-w,-e} x skool2ctl -b {-k,-h,-l}; directed '
                'deterministic round trips on every seed (indep/c03_e2e.py DIRECTED: @bytes on the last statement, character DEFS sizes, DEFB/DEFM/DEFW/DEFS '
                'base mixtures, negative index offsets, BIT/RES/SET, RST/IN/OUT/jumps under base prefixes, character operands, M repeat, brace and blank '
                'comments, every @ignoreua kind, multi-block header/footer, every entry type; operand sweep of all operand-taking opcodes x base prefix); S1 must be warning-free and '
                'contiguous; non-trivial = distinct S1 text that round-trips')
    chk.trusted += ['hand models lean/SkoolVerif/Model/CtlLengths.lean, CtlCompose.lean, CtlComments.lean (theorems) and CtlText.lean (text layer, no '
                    'theorems) tied by correspondence (harness/props/c03.py)',
                    'textwrap.TextWrapper (greedy model tied by correspondence), CPython']
    chk.assumptions += [
        'theorems are per layer (length lists, DEFB/DEFM operands at token level, comment text/lines); their composition into whole files '
        '(entry headers, @ directive placement, header/footer blocks, M directive spans, DEFW/DEFS rendering, instruction operand bases, '
        'brace balancing of comments that contain braces) is covered by correspondence + e2e only',
        'token <-> text (OperandFormatter format strings, split_unquoted, eval_string, get_int_param) is modelled in CtlText.lean without theorems; '
        'eval_int expressions other than "c"+N are not modelled',
        'generator space: dot/colon continuation lines only with skool2ctl -k (without -k line breaks are not preserved by design); no standalone '
        "'.' word in title/D/N/E paragraphs (a wrapped line '.' is the paragraph separator); @ignoreua:X only for comment kinds that are present; "
        "no final 'i' entry before the terminator (its extent is not representable); inside an 'i' entry the first statement is declared and no M directive is used (comments on statement-less lines are not kept); no 'm' base on a DEFS size; comments without braces; "
        'S1 with sna2skool warnings or non-contiguous statements (sublengths overrunning the data) is skipped, sna2skool crashes on such ctl files '
        '(IndexError in get_message) are outside this property']
    skoolkit, sna2skool, skool2ctl, skoolctl, ctlparser, disassembler, snaskool, skoolutils = fresh_import(
        'skoolkit', 'skoolkit.sna2skool', 'skoolkit.skool2ctl', 'skoolkit.skoolctl', 'skoolkit.ctlparser', 'skoolkit.disassembler',
        'skoolkit.snaskool', 'skoolkit.skoolutils')
    ok = chk.lake_build([PROPS, 'SkoolVerif.Model.CtlText', 'SkoolVerif.Prelude.Proto'])
    chk.audit(PROPS)
    if chk.thorough and ok:
        chk.leanchecker([PROPS])
    tools = E.Tools(sna2skool, skool2ctl, chk.scratch)
    ops, impl = [], []
    for fn, args in ((corr_lengths, (chk, skoolctl, ctlparser, tools)),
                     (corr_statements, (chk, disassembler, snaskool, skoolctl, ctlparser)),
                     (corr_comments, (chk, skoolkit, skoolctl, snaskool, skoolutils, tools))):
        try:
            o, i = fn(*args)
        except Exception as e:
            # the real code raised where the model has no such branch: a correspondence break, not a harness failure
            chk.breaks.append({'kind': 'correspondence', 'name': fn.__name__ + ': real code raised ' + type(e).__name__,
                               'detail': traceback.format_exc()[-1200:]})
            continue
        ops += o
        impl += i
    model = chk.run_driver('C03', ops)
    canon = lambda l: [x.rstrip() for x in l]
    if model is not None:
        # `eval_int` expressions other than "c"+N are outside the text model: not compared, but they must stay rare
        uns = [k for k, m in enumerate(model) if m == 'err unsupported' and ops[k].startswith('compose ')]
        ncomp = sum(1 for o in ops if o.startswith('compose '))
        chk.note('compose ops outside the text model: {} of {}'.format(len(uns), ncomp))
        if len(uns) * 50 <= ncomp:
            for k in uns:
                impl[k] = model[k]
    chk.compare('C03 models vs skoolctl/ctlparser/disassembler/snaskool/skoolutils', ops, canon(impl), canon(model) if model is not None else None)
    e2e(chk, tools)


def replay(chk, data):
    skoolkit, sna2skool, skool2ctl, skoolctl, ctlparser, disassembler, snaskool, skoolutils = fresh_import(
        'skoolkit', 'skoolkit.sna2skool', 'skoolkit.skool2ctl', 'skoolkit.skoolctl', 'skoolkit.ctlparser', 'skoolkit.disassembler',
        'skoolkit.snaskool', 'skoolkit.skoolutils')
    tools = E.Tools(sna2skool, skool2ctl, chk.scratch)
    kind = data['kind']
    if kind == 'witness':
        w = [w for w in E.WITNESSES if w[0] == data['key']][0]
        return E.probe(tools, w)[0]
    if kind == 'roundtrip':
        v, d = E.roundtrip(tools, data['org'], data['data'], data['ctl'], data['s_opts'], data['c_opts'])
        if v in ('differ', 'not-fixed'):
            for k in ('s1', 'ctl2', 's2', 'ctl3'):
                if k in d:
                    print('--- ' + k)
                    print(d[k])
        return v in ('differ', 'not-fixed', 'ctl-error', 's2-error')
    if kind == 'abbrev':
        specs = data['specs']
        real = skoolctl.get_lengths(specs)
        got = ctlparser.parse_params('B', ['0'] + real.split(','))[1:]
        return list(got) != [ctlparser._parse_sublengths(s, 'B', 'n') for s in specs]
    if kind == 'fix':
        cfg = snaskool.DisassemblerConfig(bool(data['hex']), bool(data['lower']), 8, 65, 1, 0, snaskool.Instruction, '', 0)
        dis = disassembler.Disassembler([0] * 65536, cfg)
        comp = skoolctl.ControlDirectiveComposer(True)
        defm = data['stmt'] == 'T'
        text = dis.defb_dir(data['data'], tuple(map(tuple, data['sl'])), defm)
        c, ln, sub = comp.compose(text)
        text2 = dis.defb_dir(data['data'], ctlparser.parse_params(c, [str(ln), sub])[1][1], defm)
        return text2 != text or ln != len(data['data'])
    if kind == 'esc':
        return True
    if kind == 'paras':
        sw = snaskool.SkoolWriter.__new__(snaskool.SkoolWriter)
        sw.comment_width = data['width']
        out = capture(sw.write_paragraphs, [[' '.join('w' * w for w in p)] for p in data['ps']])
        back = skoolutils.join_comments([l[2:] for l in out.split('\n') if l], True)
        return back != [' '.join('w' * w for w in p) for p in data['ps']]
    if kind == 'groups':
        sw = snaskool.SkoolWriter.__new__(snaskool.SkoolWriter)
        sw.comment_gen, sw.config = None, {'Timings': 0}
        writer = make_ctl_writer(skoolctl, True)
        groups = data['groups']
        txt = lambda i: '' if i == 0 else 'w{}'.format(i)
        stmts = [Stmt(50000 + i, 1, 'd1') for i in range(len(groups))]
        out = capture(writer.write_sub_block, 'B', 'b', [[txt(i) for i in g] for g in groups], stmts, None).split('\n')[1:]
        back = read_keep_real(snaskool, skoolutils, skoolctl, sw, len(groups), [(l[0], l[2:]) for l in out if l])
        return back != [[txt(i) for i in g] for g in groups]
    return False
