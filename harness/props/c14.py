"""C14 — sna2ctl always emits a complete, ordered, non-overlapping control file.

Theorems: lean/SkoolVerif/Props/C14.lean over the hand model lean/SkoolVerif/Model/SnaCtl.lean
(both generators of skoolkit/snactl.py over an ABSTRACT decode stream).
Tie: correspondence (this file): the model's executable definitions (lean/Drivers/C14.lean) and the
real functions `_generate_ctls_without_code_map`, `_generate_ctls_with_code_map`,
`_find_terminal_instruction`, `read_map`, `_get_text_blocks` on the same generated inputs, with the
decode tables taken from the real `opcodes.decode` / `Disassembler`.
E2E (props/c14_e2e.py): real sna2ctl.main -> independent ctl parser -> real sna2skool.main ->
real skool2bin.main on generated images / ranges / code maps in all formats / options.
"""
import os
import random
import re

from framework import fresh_import
from props import c14_e2e as E

PROPS = 'SkoolVerif.Props.C14'
MODS = ('sna2ctl', 'sna2skool', 'skool2bin', 'simulator', 'trace', 'snactl', 'opcodes', 'snaskool', 'components',
        'skoolutils', 'snapshot')

# Known findings (KNOWN_FINDINGS.txt): one deterministic witness each, evaluated in every run.
WITNESS_F = {'kind': 'witness-F', 'org': 32768, 'data': [0x24, 0x25] * 5 + [0x24, 0x21, 0xDD, 0x21, 0xC9, 0xC9] + [7] * 10,
             'start': None, 'end': None, 'opts': [], 'ini': {}}
WITNESS_J = {'kind': 'witness-J', 'org': 32768, 'data': [0x18, 0x00, 0x00, 0x01, 0xC9, 0xC9, 0xC9], 'start': None, 'end': None,
             'opts': [], 'ini': {}, 'map': [32768, 32772], 'map_fmt': 'rzxplay', 'map_kind': 'witness', 'map_seed': 0}
WITNESS_M = {'kind': 'witness-M', 'org': 32768, 'data': [0xFB, 0x18, 0xFC, 0xEB, 0xC3, 7, 7, 7, 7, 7], 'start': None, 'end': None,
             'opts': [], 'ini': {}, 'map': [32768, 32770], 'map_fmt': 'rzxplay', 'map_kind': 'witness', 'map_seed': 0}
# Inputs of defects that were repaired in /repo (fix: commits fd589c9, 474e06a, bf92f8d, ead324b, fe72192, e886f07, ae2db51):
# re-evaluated in every run so that a regression is found deterministically.
REGRESSIONS = [
    {'kind': 'reg-F1', 'org': 32768, 'data': [0] * 10 + [0xC3, 0, 0x80] + [1] * 20, 'start': None, 'end': 32779, 'opts': [], 'ini': {}},
    {'kind': 'reg-A', 'org': 32768, 'data': [0xC3, 3, 0x80] + [0] * 6 + [0xC3, 0, 0x80] + [1] * 20, 'start': None, 'end': 32778,
     'opts': [], 'ini': {}, 'map': [32768]},
    {'kind': 'reg-B1', 'org': 32768, 'data': [0] * 9 + [1, 0, 0x80] + [1] * 20, 'start': None, 'end': 32778, 'opts': [], 'ini': {}, 'map': [32768]},
    {'kind': 'reg-B2', 'org': 32768, 'data': [0] * 9 + [0xC3, 0, 0x80] + [1] * 20, 'start': None, 'end': 32778, 'opts': [], 'ini': {}, 'map': [32768]},
    {'kind': 'reg-C', 'org': 32768, 'data': [0] * 9 + [0xC3, 0, 0x80] + [1] * 20, 'start': None, 'end': 32778, 'opts': [], 'ini': {}, 'map': [32777]},
    {'kind': 'reg-D', 'org': 32768, 'data': [0xC3, 3, 0x80, 0, 0, 0xC3, 0x3E, 0, 0x3C, 0x3C, 0xC9] + [1] * 20, 'start': None, 'end': 32790,
     'opts': [], 'ini': {}, 'map': [32768, 32774, 32776, 32777, 32778]},
    {'kind': 'reg-E', 'org': 32768, 'data': [0xDD, 0xED, 0x4B, 0xC9, 1, 0xC9] + [7] * 10, 'start': None, 'end': None, 'opts': [], 'ini': {}},
    {'kind': 'reg-G', 'org': 32768, 'data': [0, 0, 0, 1, 0, 0xC9] + [0] * 10, 'start': None, 'end': None, 'opts': [], 'ini': {}, 'map': [32768, 32772]},
    {'kind': 'reg-H', 'org': 65535, 'data': [0xCB], 'start': None, 'end': None, 'opts': ['-C'], 'ini': {}, 'map': [65535]},
    {'kind': 'reg-I', 'org': 32768, 'data': [0xDD, 0, 0xC9], 'start': None, 'end': None, 'opts': ['-C'], 'ini': {}},
    {'kind': 'reg-K', 'org': 32768, 'data': [0, 0xCF, 0xC9], 'start': None, 'end': 32770, 'opts': ['-r'], 'ini': {}, 'map': [32768, 32769]},
    {'kind': 'reg-L', 'org': 32768, 'data': [0, 1, 0, 0x3E, 1, 1, 0, 0, 0], 'start': None, 'end': 32774, 'opts': [], 'ini': {},
     'map': [32768, 32770, 32771]},
]
for _c in REGRESSIONS:
    if 'map' in _c:
        _c.update(map_fmt='rzxplay', map_kind='witness', map_seed=0)

# Directed deterministic cases (mutation sweep): boundary situations the random stream reaches too rarely.
#  - an RST 8 whose argument byte is the last byte before END (-r): the 'B' sub-block must be written, otherwise
#    sna2skool decodes the argument as code that straddles END;
#  - a step-(5) join (JR/JP into the adjacent block) whose second block ends at END / is one byte long;
#  - text detected inside a code block that runs up to the end of the block (END, or a following block);
#  - code maps in every text format holding the addresses 0 and 65535.
DIRECTED = [
    {'kind': 'dir-rst-arg-at-end', 'org': 32768, 'data': [0, 0xCF, 0x21, 0xC9, 0, 0, 0], 'start': None, 'end': 32771, 'opts': ['-r'], 'ini': {},
     'map': [32768, 32769]},
    {'kind': 'dir-rst-arg-at-end', 'org': 32768, 'data': [0, 0xCF, 0x3E], 'start': None, 'end': None, 'opts': ['-r', '-C'], 'ini': {},
     'map': [32768, 32769]},
    {'kind': 'dir-rst-arg-at-end', 'org': 32768, 'data': [0xCF, 0xC3, 0xC9, 0xCF, 0x01, 0x02, 0x03], 'start': None, 'end': 32773, 'opts': ['-r'], 'ini': {},
     'map': [32768, 32770, 32771]},
    {'kind': 'dir-rst-arg-before-block', 'org': 32768, 'data': [0xCF, 0x21, 0xC9, 0xCF, 0x21, 0x3C, 0xC9, 7, 7, 7], 'start': None, 'end': None,
     'opts': ['-r'], 'ini': {}, 'map': [32768, 32770, 32771, 32773, 32774]},
    {'kind': 'dir-join-at-end', 'org': 32768, 'data': [0x18, 0x00, 0xC9, 1, 2, 3], 'start': None, 'end': 32771, 'opts': [], 'ini': {},
     'map': [32768, 32770]},
    {'kind': 'dir-join-at-end', 'org': 32768, 'data': [0x18, 0x00, 0xC9, 0xC9, 1, 2, 3], 'start': None, 'end': None, 'opts': [], 'ini': {},
     'map': [32768, 32770, 32771]},
    {'kind': 'dir-join-at-end', 'org': 65533, 'data': [0x18, 0x00, 0xC9], 'start': None, 'end': None, 'opts': [], 'ini': {}, 'map': [65533, 65535]},
    {'kind': 'dir-text-at-code-end', 'org': 32768, 'data': [0x3E, 0x41, 0xC3, 0x41, 0x42, 7, 7], 'start': None, 'end': 32773, 'opts': [],
     'ini': {'TextMinLengthCode': 2}},
    {'kind': 'dir-text-at-code-end', 'org': 32768, 'data': [0x3E, 0x41, 0xC3, 0x41, 0x42, 0, 0, 0, 0x3C, 0xC9], 'start': None, 'end': None, 'opts': [],
     'ini': {'TextMinLengthCode': 2}},
    {'kind': 'dir-text-at-code-end', 'org': 65531, 'data': [0x3E, 0x41, 0xC3, 0x41, 0x42], 'start': None, 'end': None, 'opts': [],
     'ini': {'TextMinLengthCode': 1}},
    {'kind': 'dir-text-at-data-end', 'org': 32768, 'data': [1, 0x48, 0x49, 0x21, 0xC9, 0x48, 0x49, 0x21], 'start': None, 'end': None, 'opts': [],
     'ini': {'TextMinLengthData': 3}, 'map': [32772]},
]
for _c in DIRECTED:
    if 'map' in _c:
        _c.update(map_fmt='rzxplay', map_kind='witness', map_seed=0)
for _fmt in E.MAP_FORMATS:
    DIRECTED.append({'kind': 'dir-map-address-0', 'org': 0, 'data': [0, 0x3C, 0xC9, 7, 7], 'start': None, 'end': None, 'opts': [], 'ini': {},
                     'map': [0, 1, 2], 'map_fmt': _fmt, 'map_kind': 'witness', 'map_seed': 0})
    DIRECTED.append({'kind': 'dir-map-address-65535', 'org': 65531, 'data': [7, 7, 0, 0x3C, 0xC9], 'start': None, 'end': None, 'opts': [], 'ini': {},
                     'map': [65533, 65534, 65535], 'map_fmt': _fmt, 'map_kind': 'witness', 'map_seed': 0})


# ---------------------------------------------------------------- tables from the real decoders

class Tables:
    """Per-address facts about one image, all obtained from the real code."""

    def __init__(self, mods, mem, start, end, handle_rst):
        self.mods, self.mem, self.start, self.end = mods, mem, start, end
        self.rst = mods['components'].get_rst_handler() if handle_rst else None
        decode = mods['opcodes'].decode
        dec = []
        for a in range(start, end):
            _, size, mc, op_id = next(decode(mem, a, a + 1, self.rst))[:4]
            dec += [size, mc, op_id]
        self.dec = dec
        self._dis = None

    def dis(self):
        if self._dis is None:
            sk = self.mods['snaskool']
            comp = self.mods['components']
            dconfig = sk.DisassemblerConfig(False, False, 8, 65, 1, 0, sk.Instruction, '', 0)
            d = comp.get_component('Disassembler', self.mem, dconfig)
            regexes = comp.get_value('SnapshotReferenceOperations')
            if regexes and not regexes[0].isalpha():
                ops = regexes[1:].split(regexes[0])
            else:
                ops = regexes.split(',')
            get_address = self.mods['skoolutils'].get_address
            out = []
            for a in range(self.start, self.end):
                ins = d.disassemble(a, a + 1, 'n')[0]
                op = ins.operation
                ref = -1
                if any(re.match(p, op.upper()) for p in ops):
                    s = get_address(op)
                    if s:
                        ref = int(s)
                jump = -1
                if op[:2] in ('JR', 'JP') and op[-5:].isdigit() and op[-5] != '0':
                    jump = int(op[-5:])
                out += [len(ins.bytes), ref, jump]
            self._dis = out
        return self._dis


def nums(l):
    return ' '.join(map(str, l))


def cfg_sections(cfg):
    tc = sorted(set(ord(c) for c in cfg.text_chars))
    words = ' , '.join(nums(w.encode('latin-1')) for w in sorted(cfg.words))
    return f'{nums(tc)} | {words}'


def show_dict(ctls):
    return ' '.join(f'{k}:{ctls[k]}' for k in sorted(ctls))


def gen_cfg(rng, mods, handle_rst):
    tc = rng.choice((E.TEXT_DEFAULT, E.TEXT_DEFAULT, 'ABCDEFGHIJKLMNOPQRSTUVWXYZ', '$%,-<=459', 'Helo', 'abcÀÉé '))
    words = rng.choice(((), (), (), ('hello',), ('score', 'game'), ('$%',), ('é',), ('zz',)))
    return mods['sna2ctl'].Config(handle_rst, tc, rng.choice((12, 12, 1, 2, 5, 13)), rng.choice((3, 3, 1, 2, 9)), set(words))


def gen_region(rng, nmax):
    n = rng.choice((1, 2, 3, 5, 8, 13, 21, 34, 55, nmax))
    r = rng.randrange(8)
    if r == 0:
        org = 65536 - n
    elif r == 1:
        org = 9990
    elif r < 5:
        org = rng.choice(E.ORGS)
    else:
        org = rng.randrange(0, 65536 - n)
    org = min(org, 65536 - n)
    kind = rng.choice(E.IMAGE_KINDS)
    data = E.gen_image(rng, kind, n, org, org, org + n)
    mem = [0] * 65536
    tail = rng.choice((0, 0, 1, 3))           # bytes after END (decoded when an instruction straddles END)
    mem[org:org + n] = data
    for i in range(tail):
        if org + n + i < 65536:
            mem[org + n + i] = rng.randrange(256)
    start = org
    end = org + n
    if n > 2 and rng.randrange(3) == 0:
        start = org + rng.randrange(0, n // 2)
    if rng.randrange(3) == 0:
        end = rng.randrange(start + 1, org + n + 1)
    return kind, mem, start, end


def gen_addresses(rng, mods, mem, start, end):
    k = rng.randrange(10)
    if k < 5:
        pcs = [start] + [rng.randrange(start, end) for _ in range(rng.choice((0, 0, 1, 2)))]
        addrs = E.trace_addresses(mods['simulator'], mem, pcs, rng.choice((1, 4, 20, 80)))
    elif k < 9:
        addrs = [rng.randrange(start, end) for _ in range(rng.choice((0, 1, 2, 4, 9, max(1, (end - start) // 3))))]
    else:
        a = rng.randrange(start, end)
        addrs = list(range(a, min(end, a + rng.choice((1, 3, 20)))))
    return sorted(set(a for a in addrs if start <= a < end))


def exc_name(e):
    return 'exc ' + type(e).__name__


def correspondence(chk, mods):
    rng = chk.rng
    snactl = mods['snactl']
    ops, impl = [], []
    mapf = os.path.join(chk.scratch, 'corr.map')

    def add(op, res, tag, key, sample=None):
        ops.append(op)
        impl.append(res)
        chk.case(tag, key, sample)

    # the inputs of the repaired defects and of the known findings first (deterministic), then generated regions
    fixed = []
    for c in [WITNESS_F, WITNESS_J, WITNESS_M] + REGRESSIONS + [d for d in DIRECTED if d.get('map_fmt', 'rzxplay') == 'rzxplay']:
        mem = [0] * 65536
        mem[c['org']:c['org'] + len(c['data'])] = c['data']
        st, en = E.effective_range(c)
        fixed.append((c['kind'], mem, st, en, sorted(set(a for a in c.get('map', ()) if st <= a < en)), '-r' in c['opts']))
    ncases = chk.scale(900, 9000)
    for n in range(len(fixed) + ncases):
        if n < len(fixed):
            kind, mem, start, end, fixed_addrs, handle_rst = fixed[n]
        else:
            kind, mem, start, end = gen_region(rng, chk.scale(89, 233))
            fixed_addrs = None
        if fixed_addrs is None:
            handle_rst = rng.randrange(4) == 0
        cfg = gen_cfg(rng, mods, handle_rst) if fixed_addrs is None else mods['sna2ctl'].Config(handle_rst, E.TEXT_DEFAULT, 12, 3, set())
        tb = Tables(mods, mem, start, end, handle_rst)
        head = f'{start} {end} {cfg.text_min_length_code} {cfg.text_min_length_data} | {cfg_sections(cfg)} | {nums(mem[start:end])} | {nums(tb.dec)}'
        # -- generator without a code map
        try:
            res = 'ok ' + show_dict(snactl._generate_ctls_without_code_map(list(mem), start, end, cfg, tb.rst))
        except Exception as e:       # noqa
            res = exc_name(e)
        add('nomap ' + head, res, 'corr-nomap/' + kind, ('nomap', res), {'op': 'nomap', 'range': [start, end], 'impl': res[:120]})
        # -- generator with a code map
        addrs = gen_addresses(rng, mods, mem, start, end) if fixed_addrs is None else fixed_addrs
        E.write_map(mapf, rng.choice(('rzxplay', 'z80-map', 'specemu-map')) if addrs else 'z80-map', addrs, random.Random(n))
        try:
            with E.quiet():
                res = 'ok ' + show_dict(snactl._generate_ctls_with_code_map(list(mem), start, end, cfg, tb.rst, mapf))
        except Exception as e:       # noqa
            res = exc_name(e)
        # read_map decodes without the RST handler
        tb0 = tb if not handle_rst else Tables(mods, mem, start, end, False)
        head0 = f'{start} {end} {cfg.text_min_length_code} {cfg.text_min_length_data} | {cfg_sections(cfg)} | {nums(mem[start:end])} | {nums(tb0.dec)}'
        add(f'map {head0} | {nums(tb.dec)} | {nums(tb.dis())} | {nums(addrs)}', res, 'corr-map/' + kind, ('map', res),
            {'op': 'map', 'range': [start, end], 'addresses': addrs[:20], 'impl': res[:120]})
        # -- read_map's code blocks
        try:
            with E.quiet():
                blocks = snactl.read_map(mapf, list(mem), start, end)
            res = 'ok ' + ' '.join(f'{a}:{l}' for a, l in blocks)
        except Exception as e:       # noqa
            res = exc_name(e)
        add(f'cb {start} {end} | {nums(tb0.dec)} | {nums(addrs)}', res, 'corr-codeblocks', ('cb', res))
        # -- _find_terminal_instruction on random directive sets
        for _ in range(2):
            keys = sorted(set([start, end] + [rng.randrange(start, end + 1) for _ in range(rng.choice((0, 1, 3, 6)))]))
            ctls = {k: rng.choice('cU') for k in keys}
            if rng.randrange(4):
                ctls[end] = 'i'
            ctl = rng.choice((None, None, 'c', 'U'))
            frm = rng.choice(keys[:-1] + [rng.randrange(start, end)])
            f_end = rng.choice((end, end, end, rng.choice([k for k in keys if k > frm]), rng.randrange(frm, end + 1), rng.randrange(start, end + 1)))
            before = show_dict(ctls)
            try:
                a = snactl._find_terminal_instruction(list(mem), ctls, frm, f_end, tb.rst, ctl)
                res = f'ok {a} | {show_dict(ctls)}'
            except Exception as e:       # noqa
                res = exc_name(e)
            # the table must cover every address the walk can decode: [frm, f_end) within [start, end)
            add(f'ft {start} {f_end} {ctl or "-"} {frm} | {before} | {nums(tb.dec)}', res, 'corr-findterminal', ('ft', res),
                {'op': 'ft', 'from': frm, 'end': f_end, 'ctl': ctl, 'before': before, 'impl': res[:120]})
        # -- _get_text_blocks
        ml = rng.choice((cfg.text_min_length_code, cfg.text_min_length_data))
        c2 = cfg._replace(text_min_length_data=ml)
        try:
            res = 'ok ' + ' '.join(f'{a}:{b}' for a, b in snactl._get_text_blocks(list(mem), start, end, c2))
        except Exception as e:       # noqa
            res = exc_name(e)
        add(f'text {start} {end} {ml} | {cfg_sections(cfg)} | {nums(mem[start:end])}', res, 'corr-text', ('text', res))
    model = chk.run_driver('C14', ops)
    norm = lambda l: [s.rstrip() for s in l]
    chk.compare('SnaCtl model vs skoolkit.snactl', ops, norm(impl), norm(model) if model is not None else None)


# ---------------------------------------------------------------- e2e

OUT_OF_SCOPE_FOR_ARBITRARY_MAPS = ('map:overlap-warning:other', 'map:overlap-warning:inside-block',
                                   'map:map-address-not-in-code-block', 'map:two-instructions-warning',
                                   # an arbitrary address set may name a byte inside the END-straddling last
                                   # instruction: the directive there comes from the map, not from sna2ctl
                                   'map:overlap-warning:end-straddling-instruction-over-directive')


def overlap_cause(mods, case, info, x, y):
    """Narrow classification of an interior overlap warning (see KNOWN_FINDINGS.txt)."""
    import bisect
    blocks = info['blocks']
    addrs = [a for a, _ in blocks]
    if y not in addrs:
        return 'inside-block'
    bi = bisect.bisect_right(addrs, x) - 1
    mem = [0] * 65536
    mem[case['org']:case['org'] + len(case['data'])] = case['data']
    if info['path'] == 'nomap':
        # F: the offending c block starts at the end of a t block, and that address is not an
        # instruction boundary of the stream decoded linearly from START
        if blocks[bi][1] == 'c' and bi > 0 and blocks[bi - 1][1] == 't':
            rst = mods['components'].get_rst_handler() if '-r' in case['opts'] else None
            bounds = set(t[0] for t in mods['opcodes'].decode(mem, info['start'], info['end'], rst))
            if addrs[bi] not in bounds:
                return 'code-after-text'
        return 'other'
    # L: the instruction at X itself runs past END (the image's last instruction straddles END) but a
    # directive was left inside it
    rst = mods['components'].get_rst_handler() if '-r' in case['opts'] else None
    if blocks[bi][1] == 'c' and x + next(mods['opcodes'].decode(mem, x, x + 1, rst))[1] > info['end']:
        return 'end-straddling-instruction-over-directive'
    mapped = set(E.accepted_map_addresses(case))
    # M: the c block containing X starts strictly inside one of read_map's code blocks (the step-(2)
    # walk entered that mapped block mid-instruction) and Y is that code block's end
    if blocks[bi][1] == 'c' and x not in mapped:
        cblocks = []
        for a in sorted(mapped):       # read_map's merging, sizes from the real decoder without RST handler
            size = next(mods['opcodes'].decode(mem, a, a + 1))[1]
            if cblocks and a <= sum(cblocks[-1]):
                if a == sum(cblocks[-1]):
                    cblocks[-1][1] += size
            else:
                cblocks.append([a, size])
        if any(a < addrs[bi] < a + l and y == a + l for a, l in cblocks):
            return 'mapped-block-entered-mid-instruction'
    # J: an unexecuted instruction X of a c block runs into the mapped (executed) address Y that
    # starts the next c block
    if blocks[bi][1] == 'c' and y in mapped and x not in mapped and dict(blocks).get(y) == 'c':
        return 'code-block-end-mid-instruction'
    return 'other'


def evaluate(chk, mods, case, tag=None):
    fails, info = E.run_case(mods, case, chk.scratch, cause=lambda x, y, i: overlap_cause(mods, case, i, x, y))
    t = tag or E.case_tag(case, info)
    if info.get('rejected'):
        t += '/rejected'
    blocks = info.get('blocks') or ()
    nontrivial = (t, len(blocks), ''.join(l for _, l in blocks)[:40], info['start'], info['end']) if len(blocks) > 2 else None
    chk.case(t, nontrivial, E.case_summary(case, info))
    if info.get('end_overlap'):
        chk.dist['(last instruction straddles END: overlap warning at END not counted)'] += 1
    for key, desc in fails:
        if case.get('map_kind') in ('arbitrary', 'dense') and key in OUT_OF_SCOPE_FOR_ARBITRARY_MAPS:
            # the property claims only termination and tiling for arbitrary address sets
            chk.dist['(arbitrary address set, not claimed) ' + key] += 1
            continue
        chk.violation(key, desc, {'case': case})
    return fails


def e2e(chk, mods):
    evaluate(chk, mods, WITNESS_F)
    evaluate(chk, mods, WITNESS_J)
    evaluate(chk, mods, WITNESS_M)
    for c in REGRESSIONS:
        evaluate(chk, mods, c)
    for fmt in E.MAP_FORMATS:
        evaluate(chk, mods, dict(REGRESSIONS[5], kind='fmt-' + fmt, map_fmt=fmt))
    for c in DIRECTED:
        evaluate(chk, mods, c)
    for c in E.sweep_cases(16 if not chk.thorough else 4):
        evaluate(chk, mods, c)
    if chk.thorough:
        for c in E.snapshot_cases(chk.rng, mods, chk.scratch):
            evaluate(chk, mods, c)
    for n in range(chk.scale(1100, 22000)):
        evaluate(chk, mods, E.gen_case(chk.rng, mods))
    for n in range(chk.scale(2, 12)):
        evaluate(chk, mods, E.trace_tool_case(chk.rng, mods, chk.scratch))


def run(chk):
    chk.rule = ('images: random / code-like (RET,JP,JR,CALL,RST structure, targets inside the range) / text-rich / zero runs / '
                'prefix-heavy (DD,FD,ED,CB) / code-like text / mixed, 1..500 bytes at boundary-biased origins (0, 9980, 16384, '
                '65536-len, ...); ranges -s/-e inside the file with END biased to fall inside a multi-byte instruction; code maps '
                'in all 8 accepted encodings built from real skoolkit.simulator traces (and trace.py --map), arbitrary address sets '
                'and dense runs; options -C, -r, -h/-l, TextChars, TextMinLengthCode/Data, Dictionary. non-trivial = more than two '
                'block directives (distinct by directive string + range). Directed deterministic groups: repaired-defect inputs, '
                'opcode sweep, boundary cases (RST 8 argument as the last byte before END / before a block, step-(5) join ending at '
                'END, text running to the end of a code block, maps in all 8 formats holding addresses 0 and 65535). '
                'Correspondence: same images, tables from the real decoders.')
    chk.trusted += ['hand model lean/SkoolVerif/Model/SnaCtl.lean tied by correspondence (harness/props/c14.py) to '
                    '_generate_ctls_without_code_map, _generate_ctls_with_code_map, _find_terminal_instruction, read_map, _get_text_blocks',
                    'opcodes.decode and the Disassembler are abstract in the model (tables fed from the real decoders); '
                    'their agreement on instruction lengths is C07',
                    'independent ctl/skool line parsers in harness/props/c14_e2e.py']
    chk.assumptions += [
        'proved (Props/C14.lean, all decode streams with sizes >= 1, all images/configs/ranges): output of both generators is '
        'well formed (strictly increasing, first = start, terminator i at end, all inside [start,end], no interior i) and tiles the '
        'range; dict(ctls) loses nothing; block boundaries are instruction boundaries before the text pass; every mutation primitive '
        'and _find_terminal_instruction preserve well-formedness and never return past their end argument; the code-map generator '
        'terminates (measures for steps (2), (3), (5), walk progress for (4)) and leaves no U directive',
        'modelled, not proved: "every executed address ends in a c block" (checked by correspondence of the whole generator and by '
        'the e2e oracle); alignment after the text pass is FALSE (negation proved: known finding code-after-text)',
        'not modelled (explored end-to-end only): the map reader\'s file parsing (_get_addresses: five text formats, two binary), '
        'write_ctl/_generate_subctls (comments, RST sub-blocks, hex formats), argument handling, sna2skool and skool2bin legs; '
        'opcodes.decode and the Disassembler are abstract tables in the model (their agreement on lengths is C07)',
        'step (3)/(5) use snaskool.Disassembly; the model assumes its entry cache is transparent and takes per-address facts '
        '(length, referenced address, 5-digit JR/JP target) from the real Disassembler (checked by correspondence)',
        'interpretation: when the image\'s own last instruction straddles END, the overlap warning AT END from sna2skool (and the '
        'resulting skool2bin relocation) is inherent to the image and not counted - unless, under -r, X is the argument byte of an '
        'RST 8 at X-1 in the same block (sna2ctl must then have written the B sub-block; violation key '
        'overlap-warning:rst-argument-at-end-decoded-as-code); an empty range (start >= end) and inputs rejected with '
        'SkoolKitError claim nothing, and so does a CodeMapError for an EMPTY map file, but a CodeMapError for a non-empty '
        'well-formed map written by this harness is a violation (valid-code-map-rejected); for code maps that are arbitrary address sets (not traces) only '
        'termination, tiling and the classified known overlap classes are reported: unclassified overlap warnings and "executed '
        'address not in a code block" there are counted in the distribution, not as violations',
        'known findings (heuristic limits, KNOWN_FINDINGS.txt): nomap:overlap-warning:code-after-text, '
        'map:overlap-warning:code-block-end-mid-instruction, map:overlap-warning:mapped-block-entered-mid-instruction '
        '(one deterministic witness of each is evaluated in every run)',
    ]
    mods = dict(zip(MODS, fresh_import(*['skoolkit.' + m for m in MODS])))
    ok = chk.lake_build([PROPS, 'SkoolVerif.Prelude.Proto'])
    chk.audit(PROPS)
    if chk.thorough and ok:
        chk.leanchecker([PROPS])
    correspondence(chk, mods)
    e2e(chk, mods)


def replay(chk, data):
    mods = dict(zip(MODS, fresh_import(*['skoolkit.' + m for m in MODS])))
    case = data['case']
    fails, info = E.run_case(mods, case, chk.scratch, cause=lambda x, y, i: overlap_cause(mods, case, i, x, y))
    if case.get('map_kind') in ('arbitrary', 'dense'):
        fails = [(k, d) for k, d in fails if k not in OUT_OF_SCOPE_FOR_ARBITRARY_MAPS]   # same scope rule as evaluate()
    for k, d in fails:
        print(f'  {k}: {d}')
    print('  sna2ctl ' + ' '.join(info['args']))
    return bool(fails)
