"""C13 correspondence: the real LOAD machinery (Python `LoadTracer.run` / `_read_port` / `dec_a`,
C `CSimulator.load` / `read_port` / `advance_tape` / `dec_a`) vs the Lean models, one loop iteration
at a time, plus the static accelerator walk vs the loops actually executed by the real simulators."""
import array
import contextlib
import io
import os
import pickle
import re

import simcorr

REGS_BCDEHL = (2, 3, 4, 5, 6, 7)
STOP_MSG = (('PC at start address', '0'), ('end of tape', '1'), ('PC in RAM', '2'), ('tape ended 1 second ago', '3'),
            ('timed out', '4'))
PROGRESS = re.compile(r'\[[ \d.]+%\]\x08+')


# ---------------------------------------------------------------------------------------------
# tables
# ---------------------------------------------------------------------------------------------

def tables(chk, loadtracer, loadsample):
    ops = ['dec 0', 'dec 1', 'dec0', 'inc0']
    impl = [' '.join(f'{a}:{f}' for a, f in t) for t in (loadtracer.DEC[0], loadtracer.DEC[1], loadtracer.DEC0, loadtracer.INC0)]
    for o in ops:
        chk.case('table', ('table', o), {'table': o} if o == 'inc0' else None)
    names = list(loadsample.ACCELERATORS)
    ops.append('names')
    impl.append(' '.join(names))
    for n in names:
        a = loadsample.Accelerator(*loadsample.ACCELERATORS[n])
        ops.append(f'acc {n}')
        code = ' '.join(str(b) if isinstance(b, int) else '?' for b in a.code)
        impl.append(f'{code} ; {a.c0} {a.c1} {a.counter} {a.inc} {a.loop_time} {a.loop_r_inc} {a.ear} {a.ear_mask} {a.polarity}')
        chk.case('acc-entry', ('acc', n))
    model = chk.run_driver('C13', ops)
    chk.compare('loadtracer DEC/DEC0/INC0 (all entries) and the ACCELERATORS dump vs Lean', ops, impl, model)


# ---------------------------------------------------------------------------------------------
# static walk vs the loop as the real simulators execute it
# ---------------------------------------------------------------------------------------------

def fill_signature(acc, base, rng, timeout_addr=0x7000):
    """Concrete bytes for a signature placed at `base` (wildcards filled so that the loop runs)."""
    code = list(acc.code)
    out = []
    for i, b in enumerate(code):
        if isinstance(b, int):
            out.append(b)
            continue
        prev = code[i - 1] if i else None
        prev2 = code[i - 2] if i > 1 else None
        if prev == 0x3E:
            out.append(rng.choice((0x7F, 0xFE, 0x00, rng.randrange(256))))
        elif isinstance(prev, int) and prev in (0xCA, 0xD2):
            out.append(timeout_addr % 256)
        elif not isinstance(prev, int) and isinstance(prev2, int) and prev2 in (0xCA, 0xD2):
            out.append(timeout_addr // 256)
        else:
            out.append(0x00)
    last_is_jp = isinstance(code[-1], int) and code[-1] in (0xCA, 0xC2, 0xF2, 0xFA) and not (len(code) > 1 and code[-2] in (0x20, 0x28, 0x30, 0x3E, 0xE6, 0xD6, 0xDB))
    if last_is_jp:
        out += [base % 256, base // 256]
    return out


class ConstTracer:
    def __init__(self, value):
        self.value = value

    def read_port(self, registers, port):
        return self.value


def dynamic_walk(sim, memory, acc, base, rng):
    """Run the real simulator from the IN back to the IN with a constant port value; returns
    (dT, dR mod 128, counter delta mod 256, instructions) for the first (port value, EAR register)
    combination with which the loop goes round, else None."""
    code = fill_signature(acc, base, rng)
    for k, b in enumerate(code):
        memory[(base + k) % 65536] = b
    pc0 = base + acc.c0
    for value in (191, 255):
        for earv in ((0, acc.ear_mask, 0xFF ^ acc.ear_mask) if acc.ear_mask else (0x40, 0)):
            regs = sim.registers
            for i in range(24):
                regs[i] = 0
            regs[12] = 0xFF00
            regs[acc.counter] = 100
            if acc.ear_mask:
                regs[acc.ear] = earv
            else:
                regs[2] = regs[6] = earv          # audiogenic: B is the mask; gremlin2: H
                if acc.counter in (2, 6):
                    regs[acc.counter] = 100
            if acc.name == 'activision':
                regs[3] = 0xFE
            regs[15] = 5
            regs[24], regs[25], regs[26], regs[27], regs[28] = pc0, 1000, 0, 1, 0
            sim.set_tracer(ConstTracer(value), True, False)
            pc = pc0
            ok = False
            for n in range(1, 25):
                sim.run(pc)
                pc = regs[24]
                if pc == pc0:
                    ok = True
                    break
                if not base <= pc < base + len(code):
                    break
            if ok:
                return regs[25] - 1000, (regs[15] - 5) % 128, (regs[acc.counter] - 100) % 256, n
    return None


def follows_oracle(sim, memory, acc, base, rng):
    """The fast-forward condition of `_read_port` / C `read_port` against the loop itself: with the tape level of
    edge-index parity p on the port (bit 6: 0 for even, 1 for odd indexes) and the EAR register holding `earv`,
    the real simulator goes round the loop back to its IN exactly when the table entry (ear, ear_mask, polarity)
    says the accelerator may skip iterations.  Returns [(p, earv, loops_back, table_says)] where they differ."""
    code = fill_signature(acc, base, rng)
    for k, b in enumerate(code):
        memory[(base + k) % 65536] = b
    pc0 = base + acc.c0
    bad = []
    for p, value in ((0, 191), (1, 255)):
        for earv in ((0, acc.ear_mask) if acc.ear_mask else (0,)):
            regs = sim.registers
            for i in range(24):
                regs[i] = 0
            regs[12] = 0xFF00
            regs[acc.counter] = 100
            if acc.ear_mask:
                if acc.ear == acc.counter:
                    regs[acc.counter] = (100 & ~acc.ear_mask & 0xFF) | earv
                else:
                    regs[acc.ear] = earv
            else:
                regs[2] = regs[6] = 0x40          # audiogenic: B is the mask; gremlin2: H
                regs[acc.counter] = 100
            if acc.name == 'activision':
                regs[3] = 0xFE
            regs[15] = 5
            regs[24], regs[25], regs[26], regs[27], regs[28] = pc0, 1000, 0, 1, 0
            sim.set_tracer(ConstTracer(value), True, False)
            pc = pc0
            back = False
            for _ in range(25):
                sim.run(pc)
                pc = regs[24]
                if pc == pc0:
                    back = True
                    break
                if not base <= pc < base + len(code):
                    break
            if acc.ear_mask:
                says = (earv & acc.ear_mask) == ((p - acc.polarity) % 2) * acc.ear_mask
            else:
                says = bool((p - acc.polarity) % 2)
            if back != says:
                bad.append((p, earv, back, says))
    return bad


def walks(chk, loadsample, classes, use_driver=True):
    """`walk <name>` (static, through the generated dispatch tables) vs the real simulators."""
    rng = chk.rng
    ops, impl = [], []
    sims = []
    for name, cls in classes:
        if 'cmio' in name:
            continue
        if name.startswith('py'):
            mem = [0] * 65536
            sims.append((name, cls(mem), mem))
        else:
            s = cls([0] * 65536)
            sims.append((name, s, s.memory))
    for n, args in loadsample.ACCELERATORS.items():
        acc = loadsample.Accelerator(*args)
        for sname, sim, mem in sims:
            base = rng.choice((0x8000, 0xC000, 0xFF00 - 64, rng.randrange(0x8000, 0xFF00)))
            r = dynamic_walk(sim, mem, acc, base, rng)
            chk.case('walk', ('walk', n, sname), {'accelerator': n, 'impl': sname, 'measured': r} if n == 'rom' else None)
            if r is None:
                chk.breaks.append({'kind': 'correspondence', 'name': f'dynamic walk of {n} on {sname}',
                                   'detail': 'the signature loop does not return to its IN on the real simulator'})
                continue
            dt, dr, dc, steps = r
            ops.append(f'walk {n}')
            ldr = any(isinstance(b, int) and b == 0xED and i + 1 < len(acc.code) and acc.code[i + 1] == 0x4F for i, b in enumerate(acc.code))
            op = f'{acc.counter}:{1 if dc == 1 else 0 if dc == 255 else "?"}'
            impl.append(f't={dt} m1={"*" if ldr else dr} ops={op} setsR={1 if ldr else 0} inputs=1 steps={steps} ok=1')
            # the property's own oracle on the table: what the real simulator does per iteration is what the entry claims
            if dt != acc.loop_time or (not ldr and dr != acc.loop_r_inc % 128) or dc != (1 if acc.inc else 255):
                chk.violation(f'accelerator-entry-wrong:{n}',
                              f'ACCELERATORS[{n!r}] claims loop_time={acc.loop_time} loop_r_inc={acc.loop_r_inc} inc={acc.inc}; '
                              f'{sname} executes one iteration in {dt} T-states, R += {dr}, counter {dc - 256 if dc > 127 else dc:+d}',
                              {'kind': 'walk', 'name': n})
            # ... and the loop goes on sampling exactly while the entry's (ear, ear_mask, polarity) say no edge was seen
            fb = follows_oracle(sim, mem, acc, base, rng)
            chk.case('walk:ear-polarity', ('walk-ear', n, sname))
            if fb:
                p, earv, back, says = fb[0]
                chk.violation(f'accelerator-entry-ear-wrong:{n}',
                              f'ACCELERATORS[{n!r}] claims ear={acc.ear} ear_mask={acc.ear_mask:#x} polarity={acc.polarity}: with the tape level of an '
                              f'{"odd" if p else "even"} edge index on port 0xFE and the EAR register = {earv:#x}, {sname} '
                              f'{"goes round the loop again" if back else "leaves the loop"} but the accelerator would '
                              f'{"fast-forward" if says else "not fast-forward"} ({len(fb)} of the 4 level/register combinations disagree)',
                              {'kind': 'walk', 'name': n})
    if not use_driver:
        return
    model = chk.run_driver('C13', ops)
    if model is not None:
        model = [re.sub(r'm1=\d+ (ops=\S+) setsR=1', r'm1=* \1 setsR=1', m) for m in model]
    chk.compare('static walk of each signature (Lean, generated dispatch tables) vs one loop iteration on the real simulators', ops, impl, model)


# ---------------------------------------------------------------------------------------------
# one iteration of the load loop
# ---------------------------------------------------------------------------------------------

class Timings:
    pass


class LoadRig:
    """One real simulator + one real LoadTracer, re-armed for every case."""

    def __init__(self, name, sim_cls, loadtracer, tape, is_c):
        self.name = name
        self.is_c = is_c
        self.loadtracer = loadtracer
        self.tape = tape
        if is_c:
            self.sim = sim_cls([0] * 65536)
            self.memory = self.sim.memory
        else:
            self.memory = simcorr.LogMem([0] * 65536)
            self.sim = sim_cls(self.memory)
            self.orig_3d = self.sim.opcodes[0x3D]
        self.dirty = set()
        self.prev_misses = 0

    def step(self, case):
        """Run exactly one iteration (timeout = 0) and return the canonical output line."""
        lt_mod = self.loadtracer
        sim = self.sim
        memory = self.memory
        for a in self.dirty:
            if self.is_c:
                memory[a] = 0
            else:
                list.__setitem__(memory, a, 0)
        for a, v in case['mem'].items():
            if self.is_c:
                memory[a] = v
            else:
                list.__setitem__(memory, a, v)
        self.dirty = set(case['mem'])
        before = bytes(memory) if self.is_c else None
        if not self.is_c:
            memory.log = []
        for i, v in enumerate(case['regs']):
            sim.registers[i] = v
        for i, v in enumerate(case['fields']):
            sim.registers[24 + i] = v
        accs = [lt_mod_acc for lt_mod_acc in case['acc_objs']]
        for a in accs:
            a.hits = 0
        lt = object.__new__(lt_mod.LoadTracer)
        lt.tsl_misses = 0
        lt.dec_a_jr_hits = lt.dec_a_jp_hits = lt.dec_a_misses = 0
        lt.simulator = sim
        lt.frame_duration = case['fd']
        lt.edges = list(case['edges'])
        lt.blocks = [self.tape.DataBlock(bytes(b[2]), b[0], b[1], ['ENTER'] if b[4] else None, bool(b[3])) for b in case['blocks']]
        lt.keys = ['X'] if case['ts'][12] else None
        lt.pause = case['pause']
        lt.in_min_addr = case['in_min_addr']
        lt.accelerators = set(accs) if self.is_c else OrderedSet(accs)
        lt.accel_dec_a = case['accel_dec_a']
        lt.list_accelerators = 1
        lt.block_index = case['ts'][10]
        lt.block_data_index = case['ts'][11]
        lt.max_index = len(lt.edges) - 1
        lt.stop = case['stop']
        lt.flash_load = case['fast_load']
        lt.finish_tape = case['finish_tape']
        lt.timeout = case['timeout']
        lt.tracefile = lt.trace_line = lt.prefix = lt.byte_fmt = lt.word_fmt = None
        lt.draw = None
        lt.text = None
        lt.state = list(case['ts'][:10])
        if self.is_c:
            lt.edges = array.array('Q', lt.edges)
            lt.state = array.array('Q', lt.state)
        else:
            sim.opcodes[0x3D] = lt.dec_a(case['accel_dec_a'] & 1, case['accel_dec_a'] & 2) if case['accel_dec_a'] else self.orig_3d
        lt.read_port = lt._read_port()
        sim.set_tracer(lt, bool(case['in_r_c']), False)
        buf = io.StringIO()
        err = None
        try:
            with contextlib.redirect_stdout(buf):
                lt.run(7, case['out7ffd'], case['outfffd'], [0] * 16, 0)
        except IndexError:
            err = 'err index'
        except Exception as e:      # anything else is reported verbatim (and will show up as a diff)
            err = f'exception {type(e).__name__}: {e}'
        if self.is_c:
            after = bytes(memory)
            writes = [(a, after[a]) for a in range(65536) if after[a] != before[a]] if after != before else []
        else:
            final = {}
            for a, v in memory.log:
                final[a] = v
            writes = sorted((a, v) for a, v in final.items() if case['mem'].get(a, 0) != v)
        self.dirty.update(a for a, _ in writes)
        if err:
            return err
        out = PROGRESS.sub('', buf.getvalue())
        lines = [l for l in out.split('\n') if l]
        sc = '?'
        msgs = []
        for l in lines:
            if l.startswith('Simulation stopped'):
                for k, v in STOP_MSG:
                    if k in l:
                        sc = v
            elif l == 'Tape paused':
                sc = '5'
            else:
                msgs.append(l)
        r = list(sim.registers)
        ts = list(lt.state) + [lt.block_index, lt.block_data_index, 1 if lt.keys is not None else 0]
        hit = [a.name for a in accs if a.hits]
        tag = None
        if case['mem'].get(case['fields'][0]) == 0x3D and case['accel_dec_a']:
            if lt.dec_a_jr_hits:
                tag = 'deca-jr'
            elif lt.dec_a_jp_hits:
                tag = 'deca-jp'
            elif lt.dec_a_misses:
                tag = 'deca-miss'
            else:
                tag = 'deca-plain' if (not self.is_c or accs) else 'deca-?'
        self.last_hit = hit
        if self.is_c:
            # CSimulator keeps tsl_misses across load() calls and reports it only for runs that had accelerators
            if accs:
                self.last_miss = lt.tsl_misses - self.prev_misses
                self.prev_misses = lt.tsl_misses
            else:
                self.last_miss = 0
        else:
            self.last_miss = lt.tsl_misses
        self.last_tag = tag
        return (f"{' '.join(map(str, r[:24]))} ; {' '.join(map(str, r[24:29]))} ; {' '.join(map(str, ts))} ; {'|'.join(msgs)} ; {sc} ; "
                + ' '.join(f'{a}:{v}' for a, v in writes))


def forked(fn):
    """Run fn() in a forked child; returns (True, result) or (False, 'signal N')."""
    r, w = os.pipe()
    pid = os.fork()
    if pid == 0:
        code = 0
        try:
            os.close(r)
            res = fn()
            with os.fdopen(w, 'wb') as f:
                pickle.dump(res, f)
        except BaseException:
            code = 1
        os._exit(code)
    os.close(w)
    with os.fdopen(r, 'rb') as f:
        blob = f.read()
    _, status = os.waitpid(pid, 0)
    if os.WIFSIGNALED(status):
        return False, f'signal {os.WTERMSIG(status)}'
    try:
        return True, pickle.loads(blob)
    except Exception:
        return False, 'no result'


def run_cases(rig, cases, accs):
    """[(output line, (deca tag, hits, misses, has_accs) or None)] for a list of cases."""
    res = []
    for case in cases:
        case['acc_objs'] = [accs[n] for n in case['acc_names']]
        out = rig.step(case)
        res.append((out, (rig.last_tag, list(rig.last_hit), rig.last_miss, bool(case['acc_names'])) if not out.startswith(('err', 'exception')) else None))
        case.pop('acc_objs')
    return res


def run_cases_isolated(rig, cases, accs, chunk=250):
    """The same for the C extension, in forked children, so that a crash of the real code is a result
    (localised to the case) instead of the end of the check."""
    res = []
    for i in range(0, len(cases), chunk):
        part = cases[i:i + chunk]
        ok, r = forked(lambda: run_cases(rig, part, accs))
        if ok:
            res += r
            continue
        for case in part:
            ok, r = forked(lambda: run_cases(rig, [case], accs))
            res += r if ok else [(f'CRASH {r}', None)]
    return res


class OrderedSet(list):
    """`list(self.accelerators)` in `_read_port` fixes the search order: give Python a known one."""
    def clear(self):
        del self[:]


def op_line(impl, case):
    blocks = ' '.join(f'{b[0]}:{b[1]}:{len(b[2])}:{1 if b[3] else 0}:{1 if b[4] else 0}' for b in case['blocks'])
    return (f"lstep {impl} ; {case['accel_dec_a']} {case['fast_load']} {case['finish_tape']} {case['timeout']} "
            f"{-1 if case['stop'] is None else case['stop']} {case['in_r_c']} ; "
            f"{1 if case['pause'] else 0} {case['in_min_addr']} {case['fd']} {case['ia']} {case['out7ffd_eff']} {case['outfffd']} ; "
            f"{' '.join(map(str, case['ts']))} ; {' '.join(map(str, case['regs']))} ; {' '.join(map(str, case['fields'][:6]))} ; "
            f"{' '.join(map(str, case['edges']))} ; {blocks} ; {' '.join(case['acc_names'])} ; "
            + ' '.join(f'{a}:{v}' for a, v in sorted(case['mem'].items())))


def norm_model(line, is_c, observed_tag, init_mem=None):
    """Model output -> the fields observable on the real code: `regs ; pc t iff im halt ; ts ; msgs ; sc ; writes`
    + (hit, miss, deca kind) returned separately."""
    parts = [p.strip() for p in line.split(';')]
    if len(parts) != 7:
        return line.strip(), None
    regs, f, ts, msgs, sc, tag, writes = parts
    final = {}
    for w in writes.split():
        a, v = w.split(':')
        final[int(a)] = int(v)
    if init_mem is not None:
        # the real side reports cells that CHANGED: a write of the value already there is not observable
        final = {a: v for a, v in final.items() if init_mem.get(a, 0) != v}
    return f"{regs} ; {f} ; {ts} ; {msgs} ; {sc} ; " + ' '.join(f'{a}:{v}' for a, v in sorted(final.items())), tag


def gen_tape(rng, e_next=None):
    """A small edge list with blocks; returns (edges, blocks)."""
    n = rng.choice((2, 3, 5, 8, 12))
    t = rng.choice((0, 1, 500, rng.randrange(100000)))
    edges = [t]
    for _ in range(n - 1):
        t += rng.choice((0, 1, 30, 59, 60, 100, 855, 2168, 5000, 80000, rng.randrange(1, 4000)))
        edges.append(t)
    if edges[-1] < 1000:
        # the progress indicator divides by edges[-1] // 1000 (ZeroDivisionError in Python, SIGFPE in C for a
        # tape shorter than 1000 T-states): not part of the model, kept out of the generator
        edges[-1] += 1000
    nb = rng.choice((1, 1, 2, 3))
    cuts = sorted(rng.sample(range(0, n), min(nb, n)))
    blocks = []
    for k, end in enumerate(cuts):
        if k == len(cuts) - 1 and rng.random() < 0.7:
            end = n - 1
        start = rng.randrange(0, end + 1)
        data = [rng.randrange(256) for _ in range(rng.choice((0, 1, 2, 19)))]
        blocks.append((start, end, data, rng.random() < 0.8, rng.random() < 0.2))
    return edges, blocks


def gen_case(rng, accs_by_name, is_c, kind):
    """One load-loop iteration. `kind`: tsl | deca | plain | port."""
    names = list(accs_by_name)
    edges, blocks = gen_tape(rng)
    n = len(edges)
    max_index = n - 1
    bi = rng.randrange(len(blocks))
    block_end = blocks[bi][1]
    index = rng.choice((0, max(block_end - 2, 0), max(block_end - 1, 0), block_end, min(block_end + 1, max_index), max_index, rng.randrange(n)))
    if kind == 'tsl' and rng.random() < 0.75 and n >= 4:
        # make the accelerating branch reachable: index < blockEnd - 1
        block_end = rng.randrange(min(2, max_index), n)
        blocks[bi] = (blocks[bi][0], block_end, blocks[bi][2], blocks[bi][3], blocks[bi][4])
        index = rng.randrange(0, max(block_end - 1, 1))
    if is_c and block_end == 0:
        block_end = 1 if max_index >= 1 else 0
        blocks[bi] = (min(blocks[bi][0], block_end), block_end, blocks[bi][2], blocks[bi][3], blocks[bi][4])
    next_edge = edges[min(index + 1, max_index)] if rng.random() < 0.85 else rng.choice((0, edges[index], edges[-1] + 10))
    acc_names = []
    a = None
    regs = [rng.choice(simcorr.BOUND8 + (rng.randrange(256),) * 3) for _ in range(24)]
    regs[12] = rng.choice((0xFF00, 0x8000, rng.randrange(0x4002, 0xFFFE)))
    regs[13] = 0
    mem = {}
    pc = rng.choice((0x8000, 0xBFFF, 0xC000, 0xFF00, rng.randrange(0x4100, 0xFF80)))
    in_min_addr = rng.choice((0x8000, 0x8000, 0x4000, 0x10000))
    t = None
    good = False
    accel_dec_a = rng.choice((0, 0, 3)) if kind != 'deca' else rng.randrange(4)
    in_r_c = 0
    out7ffd = rng.choice((0, 0x10))
    if kind == 'tsl':
        a = accs_by_name[rng.choice(names)]
        extra = rng.sample(names, rng.choice((0, 0, 2, 5, len(names))))
        acc_names = list(dict.fromkeys(extra + [a.name])) if rng.random() < 0.9 else [x for x in extra if x != a.name]
        rng.shuffle(acc_names)
        base = rng.choice((0x8000, 0x4000, 0xFFFF - len(a.code) - 1, 0x10000 - len(a.code), rng.randrange(0x4000, 0xFF00), 0x05E7 - a.c0))
        code = fill_signature(a, base, rng)
        if rng.random() < 0.12:
            k = rng.randrange(len(code))
            code[k] ^= rng.choice((1, 0x80, 0xFF))       # near miss
        for k, b in enumerate(code):
            mem[(base + k) % 65536] = b
        pc = (base + a.c0) % 65536
        if a.name == 'activision':
            in_r_c = 1 if rng.random() < 0.85 else 0
            regs[3] = 0xFE if rng.random() < 0.9 else 0xFD
        ctr = rng.choice((0, 1, 2, 3, 127, 128, 253, 254, 255, rng.randrange(256)))
        regs[a.counter] = ctr
        level = (index - a.polarity) % 2
        if a.ear_mask:
            if a.ear != a.counter:
                want = level * a.ear_mask if rng.random() < 0.8 else (1 - level) * a.ear_mask
                regs[a.ear] = (rng.randrange(256) & ~a.ear_mask & 0xFF) | want
        L = a.loop_time
        room = (255 - ctr) if a.inc else (ctr - 1)
        d = rng.choice((-L, -1, 0, 1, L - 1, L, L + 1, 2 * L, 5 * L - 1, 5 * L, 5 * L + 1, max(room, 0) * L - 1, max(room, 0) * L, max(room, 0) * L + 1,
                        (max(room, 0) + 1) * L, 300 * L, rng.randrange(1, 20000)))
        t = max(next_edge - d, 0)
        good = rng.random() < 0.8
        if good and index + 1 <= max_index:
            # a state in which the accelerator can act: tape running inside a block, pulse long enough, loader address accepted
            gap = rng.choice((1, 2, 5, 20, 60, 300)) * L + rng.choice((-1, 0, 1, L // 2))
            shift = max(edges[index] + gap - edges[index + 1], 0)
            edges = edges[:index + 1] + [e + shift for e in edges[index + 1:]]
            next_edge = edges[index + 1]
            t = max(next_edge - d, edges[index] if d > 0 else 0, 0)
            in_min_addr = 0x4000 if pc >= 0x4000 else in_min_addr
    elif kind == 'deca':
        form = rng.choice(('jr', 'jp', 'jr-bad', 'jp-bad', 'other'))
        mem[pc] = 0x3D
        if form == 'jr':
            mem[(pc + 1) % 65536], mem[(pc + 2) % 65536] = 0x20, 0xFD
        elif form == 'jp':
            mem[(pc + 1) % 65536], mem[(pc + 2) % 65536], mem[(pc + 3) % 65536] = 0xC2, pc % 256, pc // 256
        elif form == 'jr-bad':
            mem[(pc + 1) % 65536], mem[(pc + 2) % 65536] = rng.choice(((0x20, 0xFE), (0x28, 0xFD), (0x20, 0xFC)))
        elif form == 'jp-bad':
            mem[(pc + 1) % 65536], mem[(pc + 2) % 65536], mem[(pc + 3) % 65536] = rng.choice(((0xC2, (pc + 1) % 256, pc // 256), (0xCA, pc % 256, pc // 256), (0xC2, pc % 256, (pc // 256) ^ 1)))
        else:
            mem[(pc + 1) % 65536] = rng.randrange(256)
        regs[0] = rng.choice((0, 1, 2, 3, 0x10, 0x7F, 0x80, 0xFF, rng.randrange(256)))
    elif kind == 'port':
        # IN A,(n) / IN r,(C) from assorted ports at assorted PCs (custom-loader detection, AY port, ROM range)
        pc = rng.choice((0x0562, 0x0561, 0x05F1, 0x05F2, 0x05E7, 0x08B2, 0x3FFF, 0x4000, 0x7FFF, 0x8000, rng.randrange(0x4000, 0xFF00)))
        if rng.random() < 0.7:
            mem[pc], mem[(pc + 1) % 65536] = 0xDB, rng.choice((0xFE, 0xFE, 0xFF, 0xFD, 0x7E, rng.randrange(256)))
            regs[0] = rng.choice((0xFF, 0xBF, 0xC0, 0x7F, rng.randrange(256)))
        else:
            mem[pc], mem[(pc + 1) % 65536] = 0xED, rng.choice((0x78, 0x40, 0x48, 0x70))
            in_r_c = rng.randrange(2)
            regs[3] = rng.choice((0xFE, 0xFD, 0xFF))
            regs[2] = rng.choice((0xFF, 0xBF, 0xC0, 0x7F))
        acc_names = rng.sample(names, rng.choice((0, 3)))
    else:
        # an ordinary instruction; what matters is the tape/frame/stop logic that follows it
        ins = rng.choice(((0x00,), (0x3E, 0x55), (0x04,), (0x18, 0xFE), (0xC3, 0x56, 0x05), (0xC3, 0x00, 0x90), (0x76,), (0xD3, 0xFE), (0x3D,), (0x10, 0xFE)))
        for k, b in enumerate(ins):
            mem[(pc + k) % 65536] = b
    if t is None:
        # (3486..3501 after the edge: the 1 ms allowance after the final edge of the tape, `tstates - edges[index] > 3500`, with the
        #  clock taken after an instruction of 4..13 T-states)
        d = rng.choice((-4000, -3501, -3500, -3499, -60, -12, -11, -10, -5, -4, -1, 0, 1, 4, 11, 100, 3486 + rng.randrange(17), 3486 + rng.randrange(17),
                        rng.randrange(-5000, 5000)))
        ref = rng.choice((next_edge, edges[index], edges[-1], edges[min(block_end + 1, max_index)]))
        t = max(ref + d, 0)
    if is_c and t < edges[index]:
        # C computes `tstates - edges[index]` unsigned; the clock is never behind the edge at state[1] while a load runs
        # (state[1] only moves past edges that are in the past, and announcing a block sets T to the edge)
        t = edges[index] + rng.choice((0, 1, 11, 3489, 3490, 3500, 3501))
    fd, ia = 69888, 32
    iff = 0 if rng.random() < 0.8 else 1
    ended = rng.choice((0, 0, 0, 1, 2))
    end_time = rng.choice((0, max(t - 3500000, 0), max(t - 3499990, 0), max(t - 100, 0)))
    ts = [next_edge, index, ended, block_end, rng.choice((1, 1, 1, 0)), rng.randrange(2), end_time, rng.choice((0, 0, 0, 1)), 0, rng.randrange(3),
          bi, blocks[bi][0], rng.randrange(2) if rng.random() < 0.1 else 0]
    if kind == 'tsl' and good:
        ts[2], ts[4], ts[7] = 0, 1, 0
        iff = 0 if rng.random() < 0.95 else iff
    stop = rng.choice((None, None, 0x9000, (pc + 1) % 65536, (pc + 2) % 65536, pc))
    case = {
        'kind': kind, 'edges': edges, 'blocks': blocks, 'ts': ts, 'regs': regs, 'fields': [pc, t, iff, rng.randrange(3), 0, 0],
        'mem': mem, 'acc_names': acc_names, 'accel_dec_a': accel_dec_a, 'fast_load': 0, 'finish_tape': rng.randrange(2), 'timeout': 0,
        'stop': stop, 'in_r_c': in_r_c, 'pause': rng.random() < 0.6, 'in_min_addr': in_min_addr, 'fd': fd, 'ia': ia,
        'out7ffd': out7ffd, 'out7ffd_eff': 0x10, 'outfffd': rng.choice((0, 14, 15, 16)),
    }
    return case


def interrupt_possible(case):
    """An interrupt would be accepted after the instruction (not modelled): skip such cases."""
    return case['fields'][2] != 0


def neutral_case(pc, t, mem, regs=None):
    """A load-loop state in which nothing happens unless a field is set: tape of 4 edges in one block, not running."""
    regs = list(regs) if regs else [0] * 24
    if not regs[12]:
        regs[12] = 0xFF00
    return {'kind': 'plain', 'edges': [1000, 3000, 5000, 7000], 'blocks': [(0, 3, [1, 2], True, False)],
            'ts': [3000, 0, 0, 3, 0, 0, 0, 0, 0, 0, 0, 0, 0], 'regs': regs, 'fields': [pc, t, 0, 1, 0, 0],
            'mem': dict(mem), 'acc_names': [], 'accel_dec_a': 0, 'fast_load': 0, 'finish_tape': 0, 'timeout': 0,
            'stop': None, 'in_r_c': 0, 'pause': True, 'in_min_addr': 0x8000, 'fd': 69888, 'ia': 32,
            'out7ffd': 0x10, 'out7ffd_eff': 0x10, 'outfffd': 0}


def counter_limit_cases(rng, accs):
    """Directed, every run: tape-sampling loops whose counter is about to run out when the next edge is still far away -
    the fast-forward must stop one iteration short of the counter wrapping (INC) / reaching zero (DEC).  Both DEC-counting
    shapes of the table and three INC-counting ones x counters at the limit x distances of room-1 .. room+2 iterations."""
    cases = []
    for name in ('digital-integration', 'software-projects', 'rom', 'speedlock', 'microsphere'):
        a = accs.get(name)
        if a is None or not a.ear_mask or a.ear == a.counter:
            continue
        L = a.loop_time
        for ctr in ((252, 253, 254, 255, 0, 128) if a.inc else (0, 1, 2, 3, 255, 128)):
            room = (255 - ctr) if a.inc else max(ctr - 1, 0)
            for delta in (room * L - 1, room * L, room * L + 1, (room + 1) * L, (room + 2) * L + 3, 400 * L):
                if delta < 1:
                    continue
                base = 0x9000
                code = fill_signature(a, base, rng)
                mem = {base + k: b for k, b in enumerate(code)}
                regs = [rng.randrange(256) for _ in range(24)]
                regs[12], regs[13] = 0xFF00, 0
                regs[a.counter] = ctr
                level = (0 - a.polarity) % 2
                regs[a.ear] = (regs[a.ear] & ~a.ear_mask & 0xFF) | (level * a.ear_mask)
                G = 500 * L
                case = neutral_case(base + a.c0, 0, mem, regs)
                case['kind'] = 'tsl'
                case['edges'] = [1000, 1000 + G, 1000 + 2 * G, 1000 + 3 * G]
                case['ts'] = [1000 + G, 0, 0, 3, 1, 0, 0, 0, 0, 0, 0, 0, 0]
                case['fields'][1] = 1000 + G - delta
                case['acc_names'] = [name]
                case['in_min_addr'] = 0x4000
                cases.append(case)
    return cases


def stop_boundary_cases():
    """Directed, every run: tape ended, no stop address, no custom loader seen - the simulation stops once PC is in RAM
    (PC > 0x3FFF): jumps to 0x3FFF / 0x4000 / 0x4001, and 'tape ended 1 second ago' at 3500000 +-1."""
    cases = []
    for target in (0x3FFF, 0x4000, 0x4001):
        case = neutral_case(0x3000, 50000, {0x3000: 0xC3, 0x3001: target % 256, 0x3002: target // 256})
        case['ts'][2], case['ts'][6] = 1, 49000
        cases.append(case)
    for late in (3499999, 3500000, 3500001):
        case = neutral_case(0x3000, 100000 + late - 4, {0x3000: 0x00})
        case['ts'][2], case['ts'][6] = 1, 100000
        cases.append(case)
    return cases


def int_cases(rng):
    """Load-loop runs of a dozen iterations across a frame boundary with interrupts enabled (tape stopped, NOPs / EI / DI in
    RAM, IM 1 with an empty ROM or IM 2 with a vector in RAM): where and whether the frame interrupt is accepted."""
    fd, ia = 69888, 32
    cases = []
    for frame in (1, 83):
        for off in range(-26, 46):
            for variant in ('nop', 'ei', 'im2'):
                t = frame * fd + off
                pc = 0x8000
                mem = {}
                im = 1
                regs = [0] * 24
                regs[12] = 0xFF00
                if variant == 'ei':
                    mem[pc] = 0xF3                      # DI; NOP; EI; NOP; NOP; EI; NOP ...
                    mem[pc + 2] = 0xFB
                    mem[pc + 5] = 0xFB
                elif variant == 'im2':
                    im = 2
                    regs[14] = 0x90
                    mem[0x90FF], mem[0x9100] = 0x00, 0xA0  # vector -> 0xA000: EI; RET
                    mem[0xA000], mem[0xA001] = 0xFB, 0xC9
                cases.append({
                    'kind': 'int', 'edges': [0, 2168, 4336], 'blocks': [(0, 2, [1, 2], True, False)],
                    'ts': [2168, 0, 0, 2, 0, 0, 0, 0, 0, 0, 0, 0, 0], 'regs': regs, 'fields': [pc, t, 1 if variant != 'ei' else rng.randrange(2), im, 0, 0],
                    'mem': mem, 'acc_names': [], 'accel_dec_a': 0, 'fast_load': 0, 'finish_tape': 0, 'timeout': t + 90,
                    'stop': None, 'in_r_c': 0, 'pause': True, 'in_min_addr': 0x8000, 'fd': fd, 'ia': ia,
                    'out7ffd': 0x10, 'out7ffd_eff': 0x10, 'outfffd': 0, 'variant': variant, 'off': off})
    return cases


def int_lsteps(chk, loadtracer, loadsample, tape, classes):
    """Interrupts accepted while a LOAD is simulated are not in the Lean model of the load loop; the two real load loops
    (LoadTracer.run in Python, CSimulator.load in C) are run against each other instead: from the same state, across a frame
    boundary, they must do the same thing (the property's "choosing the C or Python simulator")."""
    cls = dict(classes)
    if 'py-plain' not in cls or 'c-plain' not in cls:
        return
    cases = int_cases(chk.rng)
    rigs = {n: LoadRig(n, cls[n], loadtracer, tape, n.startswith('c')) for n in ('py-plain', 'c-plain')}
    res = {}
    for n, rig in rigs.items():
        r = run_cases_isolated(rig, cases, {}) if rig.is_c else run_cases(rig, cases, {})
        res[n] = [' '.join(o.split()) for o, _ in r]
    for case, a, b in zip(cases, res['py-plain'], res['c-plain']):
        chk.case(f"lstep-int:{case['variant']}", ('lstep-int', case['variant'], case['fields'][1], case['fields'][2]),
                 {'kind': 'load loop across a frame boundary, Python vs C', 'variant': case['variant'], 'T': case['fields'][1], 'py': a[:120]}
                 if case['off'] == 0 and case['fields'][1] < 100000 else None)
        if a != b:
            chk.violation(f"load-loop-interrupt:c-vs-python:{case['variant']}",
                          f"LoadTracer.run (Python simulator) and CSimulator.load differ after running from T={case['fields'][1]} "
                          f"(frame boundary {case['off']:+d}) for 90 T-states with IFF={case['fields'][2]} IM={case['fields'][3]} "
                          f"({case['variant']}): python `{a[:200]}` / C `{b[:200]}`",
                          {'kind': 'lstep-int', 'case': {k: v for k, v in case.items()}})


def lsteps(chk, loadtracer, loadsample, tape, classes):
    rng = chk.rng
    accs = {n: loadsample.Accelerator(*a) for n, a in loadsample.ACCELERATORS.items()}
    n_cases = chk.scale(1500, 15000)
    for name, cls in classes:
        if 'cmio' in name:
            continue
        is_c = name.startswith('c')
        rig = LoadRig(name, cls, loadtracer, tape, is_c)
        ops, impl, tags, cases = [], [], [], []
        # directed DEC A group, every run: both loop shapes x boundary values of A (0 counts as 256) x every
        # accelerate-dec-a setting, interrupts disabled (the hook's precondition)
        directed = [(form, a, acc, None) for form in ('jr', 'jp') for a in (0, 1, 2, 0x7F, 0x80, 0xFF) for acc in (1, 2, 3)]
        # ... and the loop placed across the 64K wrap (the addresses of its operand bytes and of the exit are taken mod 65536)
        directed += [(form, a, 3, pc) for form in ('jr', 'jp') for pc, a in ((0xFFFB, 3), (0xFFFC, 0), (0xFFFD, 1), (0xFFFE, 0x80), (0xFFFF, 2))]
        # directed end-of-tape group, every run: the tape is stopped once the clock is more than 3500 T-states past its final
        # edge; a NOP ending 3499..3502 T-states after it, tape running, on the last edge
        tape_end = [(delta, stop_set) for delta in (-1, 0, 1, 2) for stop_set in (0, 1)]
        ready_made = counter_limit_cases(rng, accs) + stop_boundary_cases()
        for i in range(n_cases + len(directed) + len(tape_end) + len(ready_made)):
            kind = ('tsl', 'tsl', 'tsl', 'deca', 'plain', 'port')[i % 6] if i < n_cases else ('deca' if i < n_cases + len(directed) else 'plain')
            if i >= n_cases + len(directed) + len(tape_end):
                cases.append(ready_made[i - n_cases - len(directed) - len(tape_end)])
                continue
            case = gen_case(rng, accs, is_c, kind)
            if i >= n_cases + len(directed):
                delta, stop_set = tape_end[i - n_cases - len(directed)]
                pc = case['fields'][0]
                for k in range(0, 4):
                    case['mem'].pop((pc + k) % 65536, None)
                case['mem'][pc] = 0x00
                last = len(case['edges']) - 1
                case['ts'][0] = case['edges'][last]          # next edge: already behind the clock
                case['ts'][1] = last
                case['ts'][2] = 0
                case['ts'][3] = max(case['ts'][3], last) if stop_set else case['ts'][3]
                case['ts'][4] = 1
                case['ts'][7] = 0
                case['fields'][1] = case['edges'][last] + 3500 - 4 + delta
                case['fields'][2] = 0
                case['stop'] = 0x9000 if stop_set else None
                case['accel_dec_a'] = 0
            elif i >= n_cases:
                form, a, acc, at = directed[i - n_cases]
                if at is not None:
                    for k in range(0, 4):
                        case['mem'].pop((case['fields'][0] + k) % 65536, None)
                    case['fields'][0] = at
                    if case['stop'] is not None:
                        case['stop'] = 0x9000
                pc = case['fields'][0]
                for k in range(1, 4):
                    case['mem'].pop((pc + k) % 65536, None)
                case['mem'][pc] = 0x3D
                if form == 'jr':
                    case['mem'][(pc + 1) % 65536], case['mem'][(pc + 2) % 65536] = 0x20, 0xFD
                else:
                    case['mem'][(pc + 1) % 65536], case['mem'][(pc + 2) % 65536], case['mem'][(pc + 3) % 65536] = 0xC2, pc % 256, pc // 256
                case['regs'][0] = a
                case['accel_dec_a'] = acc
                case['fields'][2] = 0
            if case['fields'][2]:
                # keep IFF = 1 only where no interrupt can be accepted right after the instruction (accept_interrupt is not modelled)
                t = case['fields'][1]
                fd, ia = case['fd'], case['ia']
                if t % fd < ia or t % fd + 40 >= fd or kind == 'tsl':
                    case['fields'][2] = 0 if kind != 'tsl' or t % fd < ia + 20000 or t % fd + 20000 >= fd else 1
                case['ts'][7] = 0           # no block announcement (it would move the clock to an edge)
            cases.append(case)
        results = run_cases_isolated(rig, cases, accs) if is_c else run_cases(rig, cases, accs)
        for i, (case, (out, tg)) in enumerate(zip(cases, results)):
            kind = case['kind']
            ops.append(op_line('c' if is_c else 'py', case))
            impl.append(out)
            tags.append(tg)
            nt = (name, kind, tuple(case['ts'][:5]), case['fields'][1], tuple(case['acc_names'][:2]), case['regs'][2])
            chk.case(f'lstep:{name}:{kind}', nt,
                     {'impl': name, 'kind': kind, 'pc': case['fields'][0], 't': case['fields'][1], 'state': case['ts'][:5],
                      'accelerators': case['acc_names'][:3]} if i in (0, 3) else None)
            if out.startswith('CRASH'):
                chk.violation(f'c-load-crash:{kind}', f'{name}: CSimulator.load dies ({out}) on one {kind} iteration that the Python simulator executes; op: {ops[-1][:300]}',
                              {'kind': 'lstep', 'impl': name, 'case': case})
        model = chk.run_driver('C13', ops)
        if model is None:
            continue
        norm_m, norm_i = [], []
        accel_hits = 0
        for o, m, tg, case_ in zip(impl, model, tags, cases):
            nm, mtag = norm_model(m, is_c, tg, case_['mem'])
            ni = ' '.join(o.split())
            nm = ' '.join(nm.split())
            if tg is not None and mtag is not None:
                # hits / misses / dec-a kind, where the real code exposes them
                tag, hit, miss, has_accs = tg
                mm = re.match(r'in loops=(-?\d+) hit=(\S+) miss=(\d)', mtag)
                if mm:
                    if int(mm.group(1)) != 0:
                        accel_hits += 1
                    # the C module reports hits/misses only when the run had accelerators
                    if not is_c or has_accs:
                        nm += f' ; hit={mm.group(2)} miss={mm.group(3)}'
                        ni += f" ; hit={hit[0] if hit else '-'} miss={miss}"
                elif mtag.startswith('deca-') and tag and not tag.endswith('?') and (not is_c):
                    nm += ' ; ' + mtag
                    ni += ' ; ' + tag
            norm_m.append(nm)
            norm_i.append(ni)
        chk.dist[f'lstep:{name}:fast-forwarded'] += accel_hits
        chk.compare(f'one load-loop iteration: {name} vs Lean model (readPort/accelerate/decAHook/tapeAdvance/stopCond)', ops, norm_i, norm_m)
