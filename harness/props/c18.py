"""C18 — annotations and instructions survive conversion intact; line width is respected.

Theorems: lean/SkoolVerif/Props/C18.lean — wrap (faithful textwrap model): words preserved / only
white space dropped / width / greedy / no empty line for all chunk lists and widths, and at text
level (re-splitting the lines gives the words of the text); textbook greedy wrap + uniqueness of
its specification + refinement; row loop of print_instructions = declarative layout, cover, words,
width, warn-exactly; comment lines; brace-delimited comment groups (reader span rule, documented
encoding, stripping round trip); the two findings as refuted full statements + partial theorems.
Tie: hand models Model/Wrap.lean, Model/AsmRows.lean, Model/Braces.lean + correspondence (this
file) against skoolkit.wrap, AsmWriter.print_instructions / print_comment_lines,
skoolutils.parse_address_comments, SkoolWriter._format_instruction_comments.
E2E: generated annotated disassemblies through skool2asm, skool2html and (as control file +
binary) sna2skool; word sequences, instruction lists and line widths/warnings are compared with
the specification by independent parsers (harness/indep/annot.py)."""
import collections
import contextlib
import io
import itertools
import os
import types

from framework import fresh_import
from indep import annot

PROPS = 'SkoolVerif.Props.C18'
KNOWN_KEYS = ('asm-overlong-comment-line-no-warning', 'skool-brace-span-negative-prefix')   # see KNOWN_FINDINGS.txt
EXOTIC = ['\t', '\n', '\r', '\x0b', '\x0c', '\x1c', '\x1d', '\x1e', '\x1f', '\x85', '\xa0', '\u1680', '\u2003',
          '\u2028', '\u2029', '\u202f', '\u205f', '\u3000']


def cps(s):
    return ' '.join(str(ord(c)) for c in s)


def norm(s):
    return ' '.join(s.split())


# ---------------------------------------------------------------------------------------------
# correspondence: skoolkit.wrap

def wrap_inputs(chk):
    rng = chk.rng
    # exhaustive: token sequences over {word, longer word, space, double space}
    toks = ('a', 'bbb', ' ', '  ')
    for k in range(chk.scale(5, 7)):
        for t in itertools.product(toks, repeat=k):
            s = ''.join(t)
            for w in ((1, 3, 4) if k > 3 else (1, 2, 3, 4, 5, 7)):
                yield 'exh', s, w
    # boundary: words of length exactly w, w - 1, w + 1 in a sentence, widths 1..200
    for w in range(1, 201):
        if not chk.thorough and w > 40 and w % 7:
            continue
        for _ in range(chk.scale(8, 20)):
            ws = []
            for _ in range(rng.randrange(1, 9)):
                ws.append('x' * max(1, rng.choice((w, w - 1, w + 1, 1, 2, w // 2, w // 2 + 1, w - 2))))
            sep = rng.choice((' ', ' ', '  ', ' \t'))
            yield 'boundary', sep.join(ws), w
            # two words that exactly fill the line
            a = rng.randrange(1, max(2, w - 1))
            yield 'fill', ' '.join(['y' * a, 'z' * max(1, w - 1 - a)] * rng.randrange(1, 4)), w
    # long texts (tens to hundreds of lines)
    for _ in range(chk.scale(12, 60)):
        w = rng.choice((5, 10, 20, 40, 77))
        ws = ['x' * rng.choice((1, 2, 3, w // 2, w // 2 + 1, w - 1, w)) for _ in range(rng.randrange(60, 400))]
        yield 'long', ' '.join(ws), w
    # widths the real code rejects
    for w in (0, -1, -7):
        for s in ('', 'a', 'a b'):
            yield 'badwidth', s, w
    # white space zoo: tabs (expanded to multiples of 8), newlines, unicode spaces that
    # str.strip() removes but textwrap does not split on
    for _ in range(chk.scale(6000, 60000)):
        parts = []
        for _ in range(rng.randrange(0, 12)):
            r = rng.random()
            if r < 0.45:
                parts.append(''.join(rng.choice('abc{}.,;-') for _ in range(rng.choice((1, 1, 2, 3, 5, 8, 13)))))
            elif r < 0.8:
                parts.append(' ' * rng.choice((1, 1, 1, 2, 3)))
            else:
                parts.append(rng.choice(EXOTIC) * rng.choice((1, 1, 2)))
        yield 'zoo', ''.join(parts), rng.choice((1, 2, 3, 4, 5, 6, 8, 9, 10, 13, 16, 20, 40))


def corr_wrap(chk, skoolkit):
    ops, impl = [], []
    for tag, s, w in wrap_inputs(chk):
        try:
            r = skoolkit.wrap(s, w)
            o = 'ok %d' % len(r) + ''.join(' | ' + cps(l) for l in r)
        except ValueError:
            r = None
            o = 'err ValueError'
        ops.append(('wrap %d ' % w + cps(s)).rstrip())
        impl.append(o)
        nontrivial = r is not None and (len(r) > 1 or any(len(l) > w for l in r))
        chk.case('wrap-' + tag, ('wrap', s, w) if nontrivial else None,
                 {'op': 'wrap', 'text': s[:60], 'width': w, 'impl': r[:4]} if nontrivial and tag == 'zoo' else None)
        # the property itself on the real function: only white space changes; width respected
        if r is not None and not any(c in s for c in EXOTIC[5:]):
            if ' '.join(r).split() != s.split():
                chk.violation('wrap-words', 'skoolkit.wrap changes the word sequence', {'kind': 'wrap', 'text': s, 'width': w})
            for l in r:
                if len(l) > w and len(l.split()) > 1:
                    chk.violation('wrap-width', 'skoolkit.wrap emits an over-wide line with more than one word',
                                  {'kind': 'wrap', 'text': s, 'width': w})
        # textbook greedy wrap on the same words (ties Wrap.wrapWords / WrapSpec to the real code)
        if r is not None and tag in ('boundary', 'fill', 'exh', 'long') and not any(c in s for c in EXOTIC):
            ops.append(('words %d ' % w + cps(s)).rstrip())
            rn = skoolkit.wrap(' '.join(s.split()), w)
            impl.append('ok %d' % len(rn) + ''.join(' | ' + cps(l) for l in rn))
    model = chk.run_driver('C18', ops)
    if model is not None:
        chk.compare('Wrap model vs skoolkit.wrap', ops, [norm(x) for x in impl], [norm(x) for x in model])


# ---------------------------------------------------------------------------------------------
# correspondence: AsmWriter.print_instructions / print_comment_lines

def make_writer(chk, skoolparser, skoolasm, props):
    fn = os.path.join(chk.scratch, 'stub.skool')
    if not os.path.exists(fn):
        with open(fn, 'w') as f:
            f.write('@start\n; R\nc32768 RET\n')
    with contextlib.redirect_stderr(io.StringIO()):
        p = skoolparser.SkoolParser(fn, asm_mode=1)
    return skoolasm.AsmWriter(p, props, {}, {'Address': ''})


def events(out, err, line_width):
    evs = []
    wl = [int(l.split()[3]) for l in err.split('\n') if l.startswith('WARNING: Line is ')]
    for l in out.split('\n')[:-1]:
        if l.startswith('\x01P'):
            evs.append(l[1:])
        else:
            evs.append(('L ' + cps(l)).rstrip())
            if len(l) > line_width:
                evs.append('W %d' % (wl.pop(0) if wl else -1))
    if wl:
        evs.append('spurious-warnings %r' % wl)
    return 'ok' + ''.join(' | ' + e for e in evs)


def run_rows(chk, mods, props, instrs):
    skoolparser, skoolasm, skoolutils = mods
    w = make_writer(chk, skoolparser, skoolasm, props)
    ent = types.SimpleNamespace(address=32768, instructions=[])
    for n, (op, rs, text) in enumerate(instrs):
        ent.instructions.append(types.SimpleNamespace(
            operation=op, comment=skoolutils.Comment(rs, text), address=32768 + n,
            ignoreua={'i': [], 'm': []}, mid_block_comment=None, asm_label=None))
    w.entry = ent
    # harness-side hook: make the instruction prefix (mid-block comment + label) visible as an event
    w.print_instruction_prefix = lambda ins, idx: w.write_line('\x01P%d' % idx)
    out, err = io.StringIO(), io.StringIO()
    try:
        with contextlib.redirect_stdout(out), contextlib.redirect_stderr(err):
            w.print_instructions()
    except AttributeError:
        return 'err noInstr'
    except ValueError:
        return 'err ValueError'
    except Exception as e:
        return 'err py ' + type(e).__name__
    return events(out.getvalue(), err.getvalue(), w.line_width)


def run_comment(chk, mods, lw, started, paragraphs):
    skoolparser, skoolasm, skoolutils = mods
    w = make_writer(chk, skoolparser, skoolasm, {'line-width': str(lw)})
    out, err = io.StringIO(), io.StringIO()
    try:
        with contextlib.redirect_stdout(out), contextlib.redirect_stderr(err):
            w.print_comment_lines(paragraphs, ignoreua=[], started=bool(started))
    except ValueError:
        return 'err ValueError'
    # no length check in print_comment_lines: a warning here would be a model difference
    res = 'ok' + ''.join(' | ' + ('L ' + cps(l)).rstrip() for l in out.getvalue().split('\n')[:-1])
    if 'WARNING: Line is' in err.getvalue():
        res += ' | warned'
    return res


def corr_rows(chk, mods):
    rng = chk.rng
    ops, impl = [], []

    def word(k):
        return ''.join(rng.choice('abcxyz{}.,') for _ in range(k))
    for n_case in range(chk.scale(2500, 20000)):
        lw = rng.choice((20, 30, 40, 41, 50, 79, 80, 120, 200))
        tab = rng.random() < 0.2
        iw = rng.choice((0, 1, 2, 4, 8))
        instrw = rng.choice((1, 5, 10, 23, 30))
        mincw = rng.choice((1, 5, 10, 20, 40))
        props = {'line-width': str(lw), 'tab': '1' if tab else '0', 'indent': str(iw),
                 'instruction-width': str(instrw), 'comment-width-min': str(mincw)}
        n = rng.randrange(0, 7)
        instrs = []
        i = 0
        while i < n:
            rs = rng.choice((1, 1, 1, 2, 3, 5))
            if rng.random() < 0.93:
                rs = min(rs, n - i)       # else: rowspan runs past the end (error / silent exit branch)
            cw = lw - 3 - instrw - (8 if tab else iw)
            words = [word(rng.choice((1, 2, 3, 5, 8, max(1, cw - 1), max(1, cw), cw + 1, cw + 7)))
                     for _ in range(rng.choice((0, 0, 1, 2, 3, 6, 12)))]
            text = rng.choice((' ', '  ', ' ')).join(words)
            instrs.append((word(rng.choice((0, 2, 4, 10, instrw, instrw + 3))), rs, text))
            i += 1
            for _ in range(min(rs, n - i + 1) - 1):
                instrs.append((word(rng.choice((2, 4, 10, instrw, instrw + 6))), 7, 'ignored'))
                i += 1
        r = run_rows(chk, mods, props, instrs)
        ops.append('rows %d %d %d %d %d' % (lw, iw, tab, instrw, mincw) +
                   ''.join(' | %d %d %s %s' % (rs, len(op), cps(op), cps(text)) for op, rs, text in instrs))
        impl.append(r)
        chk.case('rows', ('rows', n_case) if (' W ' in r or r.startswith('err') or any(x[1] > 1 for x in instrs)) else None,
                 {'op': ops[-1][:120], 'impl': r[:160]} if n_case < 2 else None)
    for n_case in range(chk.scale(800, 6000)):
        lw = rng.choice((10, 20, 40, 79, 120))
        ps = []
        for _ in range(rng.randrange(0, 4)):
            ps.append(' '.join(word(rng.choice((1, 2, 3, 5, lw - 3, lw - 2, lw - 1, lw + 4))) for _ in range(rng.choice((0, 1, 2, 5, 15)))))
        started = rng.randrange(2)
        ops.append('comment %d %d ' % (lw, started) + ' | '.join(cps(p) for p in ps))
        impl.append(run_comment(chk, mods, lw, started, ps))
        chk.case('comment-lines', ('comment', n_case) if len(ps) > 1 else None)
    model = chk.run_driver('C18', ops)
    if model is not None:
        chk.compare('AsmRows model vs AsmWriter.print_instructions/print_comment_lines', ops,
                    [norm(x) for x in impl], [norm(x) for x in model])


# ---------------------------------------------------------------------------------------------
# correspondence: parse_address_comments (reader) and SkoolWriter comment formatting (writer)

def brace_text(rng, nwords, heavy):
    ws = []
    for _ in range(nwords):
        k = rng.choice((1, 1, 2, 3, 5, 9, 20))
        ws.append(''.join(rng.choice('{}{}ab.x' if heavy else 'abc.x{}') for _ in range(k)))
    return ws


def corr_braces(chk, skoolutils, snaskool):
    rng = chk.rng
    ops, impl = [], []

    class Ins:
        def __init__(self):
            self.got = None

        def set_comment(self, rowspan, text):
            self.got = (rowspan, text)
    # reader: sequences of instruction comments (with continuation lines) and separators
    for n_case in range(chk.scale(2500, 25000)):
        comments, toks = [], []
        for _ in range(rng.randrange(1, 7)):
            if rng.random() < 0.12:
                comments.append((None, None, None))
                toks.append('N')
                continue
            lines = []
            for _ in range(rng.choice((1, 1, 1, 2, 3))):
                ws = brace_text(rng, rng.choice((0, 1, 1, 2, 4)), rng.random() < 0.5)
                l = ' '.join(ws)
                r = rng.random()
                if r < 0.25:
                    l = '{' * rng.choice((1, 1, 2, 3)) + rng.choice(('', ' ')) + l
                elif r < 0.4:
                    l = l + rng.choice(('', ' ')) + '}' * rng.choice((1, 1, 2, 3))
                lines.append(l)
            comments.append((Ins(), lines, []))
            toks.append(' / '.join(cps(l) for l in lines))
        try:
            skoolutils.parse_address_comments(comments)
            got = [c[0].got for c in comments if c[0] is not None and c[0].got is not None]
            res = 'ok' + ''.join(' | %d : %s' % (rs, cps(t)) for rs, t in got)
        except Exception as e:              # the real code must not raise here: a difference from the model, not a harness failure
            got, res = [], 'err py ' + type(e).__name__
        ops.append('decode ' + ' | '.join(toks))
        impl.append(res)
        chk.case('decode', ('decode', n_case) if any(rs > 1 for rs, t in got) else None,
                 {'op': 'parse_address_comments', 'lines': [c[1] for c in comments][:4], 'impl': got[:4]} if n_case < 2 else None)
    # writer
    w = snaskool.SkoolWriter.__new__(snaskool.SkoolWriter)
    w.comment_gen = None
    w.config = {'Timings': 0}
    for n_case in range(chk.scale(2500, 25000)):
        n = rng.choice((1, 1, 2, 2, 3, 5))
        width = rng.choice((10, 20, 30, 58, 58, 79))
        kind = rng.random()
        if kind < 0.1:
            text = '.' * rng.randrange(0, 4)
        else:
            ws = brace_text(rng, rng.choice((0, 1, 2, 4, 8, 16, 30)), kind < 0.5)
            if ws and rng.random() < 0.2:
                ws[0] = '{' + ws[0]
            if ws and rng.random() < 0.2:
                ws[-1] = ws[-1] + '}'
            text = ' '.join(ws)
        block = types.SimpleNamespace(
            instructions=[types.SimpleNamespace(operation='NOP', comment=None, bytes=[0]) for _ in range(n)],
            comment=[(0, text)], repeat_comment=False)
        try:
            w._format_instruction_comments(block, width, False)
            res = []
            for ins in block.instructions:
                c = ins.comment
                res.append('N' if c == [None] else ' / '.join(cps(l) for l in c))
            res = 'ok' + ''.join(' | ' + r for r in res)
        except Exception as e:
            res = 'err py ' + type(e).__name__
        ops.append(('snafmt %d %d %s' % (n, width, cps(text))).rstrip())
        impl.append(res)
        chk.case('snafmt', ('snafmt', n_case) if n > 1 and text else None,
                 {'op': '_format_instruction_comments', 'n': n, 'width': width, 'text': text[:60], 'impl': [i.comment for i in block.instructions][:3]} if n_case < 2 else None)
    model = chk.run_driver('C18', ops)
    if model is not None:
        chk.compare('Braces model vs parse_address_comments / SkoolWriter._format_instruction_comments', ops,
                    [norm(x) for x in impl], [norm(x) for x in model])


# ---------------------------------------------------------------------------------------------
# end to end

def capture(fn, args):
    out, err = io.StringIO(newline=''), io.StringIO()
    with contextlib.redirect_stdout(out), contextlib.redirect_stderr(err):
        fn(args)
    return out.getvalue(), err.getvalue()


def warned_lines(err):
    res = []
    ls = err.replace('\r\n', '\n').split('\n')
    for i, l in enumerate(ls):
        if l.startswith('WARNING: Line is ') and l.endswith(' characters long:') and i + 1 < len(ls):
            res.append(ls[i + 1])
    return res


def check_asm(chk, mods, spec, text, via_options=False):
    """Run skool2asm on `text`; returns (fails, notes)."""
    fn = os.path.join(chk.scratch, 'e2e.skool')
    with open(fn, 'w', newline='') as f:
        f.write(text)
    args = ['-q']
    if via_options:
        c = spec['cfg']
        for k, v in (('line-width', c['line_width']), ('instruction-width', c['instr_width']), ('indent', c['indent']),
                     ('tab', c['tab']), ('crlf', c['crlf']), ('comment-width-min', c['min_cw'])):
            args += ['-P', '%s=%d' % (k, v)]
    out, err = capture(mods['skool2asm'].main, args + [fn])
    blocks, fails = annot.parse_asm(out, spec)
    notes = []
    if annot.mixed_eol(out, spec['cfg']):
        notes.append('crlf=1: %d line(s) of the ASM output end in LF only (register continuation lines)' % annot.mixed_eol(out, spec['cfg']))
    if len(blocks) != len(spec['entries']):
        fails.append(('asm-entry-count', '%d output blocks for %d entries' % (len(blocks), len(spec['entries']))))
        return fails, notes
    for b, e in zip(blocks, spec['entries']):
        fails += annot.check_asm_entry(b, e, spec['cfg'], None)
    f2, n2 = annot.asm_width_check(blocks, spec, warned_lines(err))
    return fails + f2, notes + n2


def check_html(chk, mods, spec, text):
    fn = os.path.join(chk.scratch, 'h2.skool')
    with open(fn, 'w') as f:
        f.write(text)
    d = os.path.join(chk.scratch, 'html')
    capture(mods['skool2html'].main, ['-q', '-d', d, fn])
    fails = []
    for ent in spec['entries']:
        page = os.path.join(d, 'h2', 'asm', '%d.html' % ent['addr'])
        if not os.path.exists(page):
            fails.append(('html-missing-page', 'no entry page for %d' % ent['addr']))
            continue
        with open(page) as f:
            cells = annot.parse_html_entry(f.read())
        fails += annot.check_html_entry(cells, ent)
    return fails


def check_ctl(chk, mods, spec, line_width, ctl=None):
    if ctl is None:
        ctl, end = annot.ctl_text(spec)
    org, data = annot.code_bytes(spec)
    bfn = os.path.join(chk.scratch, 'c.bin')
    cfn = os.path.join(chk.scratch, 'c.ctl')
    with open(bfn, 'wb') as f:
        f.write(data)
    with open(cfn, 'w') as f:
        f.write(ctl)
    args = ['-o', str(org), '-c', cfn]
    if line_width != 79:
        args += ['-I', 'LineWidth=%d' % line_width]
    out, err = capture(mods['sna2skool'].main, args + [bfn])
    got = annot.parse_skool_entries(out)
    fails = []
    if len(got) != len(spec['entries']):
        fails.append(('skool-entry-count', '%d entries written for %d in the control file' % (len(got), len(spec['entries']))))
        return fails, ctl
    for g, e in zip(got, spec['entries']):
        fails += annot.check_skool_entry(g, e, line_width, None)
    heads = [h for e in spec['entries'] for h in annot.reg_heads(e, True)]
    for l in out.split('\n'):
        if len(l) > line_width:
            if l.startswith(';'):
                t = annot.comment_text_portion(l, heads).split()
            else:
                k = l.find(' ;')
                t = l[k + 2:].split() if k >= 0 else []
            if len(t) > 1:
                fails.append(('skool-line-too-wide', 'sna2skool line of %d chars (width %d) with breakable text: %r' % (len(l), line_width, l[:110])))
    return fails, ctl


def check_blocks(chk, mods, case, text):
    fn = os.path.join(chk.scratch, 'b.skool')
    with open(fn, 'w') as f:
        f.write(text)
    out, err = capture(mods['skool2asm'].main, ['-q', fn])
    fails = annot.check_blocks_asm(out, err, case)
    d = os.path.join(chk.scratch, 'bhtml')
    capture(mods['skool2html'].main, ['-q', '-d', d, fn])
    with open(os.path.join(d, 'b', 'asm', '32768.html')) as f:
        fails += annot.check_blocks_html(f.read(), case)
    bfn = os.path.join(chk.scratch, 'b.bin')
    cfn = os.path.join(chk.scratch, 'b.ctl')
    with open(bfn, 'wb') as f:
        f.write(bytes([0xC9]))
    with open(cfn, 'w') as f:
        f.write(annot.blocks_ctl(case))
    out, err = capture(mods['sna2skool'].main, ['-o', '32768', '-c', cfn, bfn])
    return fails + annot.check_blocks_skool(out, case)


def check_span_table(chk, mods, case, text):
    fn = os.path.join(chk.scratch, 's.skool')
    with open(fn, 'w') as f:
        f.write(text)
    out, err = capture(mods['skool2asm'].main, ['-q', fn])
    fails = annot.check_span_table_asm(out, case)
    d = os.path.join(chk.scratch, 'shtml')
    capture(mods['skool2html'].main, ['-q', '-d', d, fn])
    with open(os.path.join(d, 's', 'asm', '32768.html')) as f:
        fails += annot.check_span_table_html(f.read(), case)
    bfn = os.path.join(chk.scratch, 's.bin')
    cfn = os.path.join(chk.scratch, 's.ctl')
    with open(bfn, 'wb') as f:
        f.write(bytes([0xC9]))
    with open(cfn, 'w') as f:
        f.write(annot.span_table_ctl(case))
    out, err = capture(mods['sna2skool'].main, ['-o', '32768', '-c', cfn, bfn])
    return fails + annot.check_span_table_skool(out, case)


SHORT_TABLE_KEY = 'asm-table-last-column-only-colspan-crash'


def probe_short_table(chk, mods):
    """A #TABLE whose last column is reached only through cells with a colspan: skool2asm aborts with IndexError
    (Table.prepare_cells counts columns as 1 + the largest start column), so the words of the entry never appear.
    Raised as a violation only if the integrator lists the key in KNOWN_FINDINGS.txt (then it is a known finding and
    must keep reproducing); otherwise reported as an observation. Patch proposal: /tmp/fix_swE_1.diff."""
    import framework
    case = annot.SHORT_TABLE_CASE
    text = '@start\n; ' + ' '.join(case['title']) + '\n;\n; ' + ' '.join(case['ttoks']) + '\nc32768 RET\n'
    try:
        fails = check_span_table(chk, mods, case, text)
        msg = '; '.join(d for k, d in fails)
    except IndexError as e:
        msg = 'skool2asm raises IndexError (%s) on `%s`' % (e, ' '.join(case['ttoks']))
    chk.case('e2e-span-table', ('spantable', 'short'), None)
    if msg:
        # repaired in /repo by a07561e (fixed: line in KNOWN_FINDINGS.txt): an ordinary violation if it returns
        chk.violation(SHORT_TABLE_KEY, msg, {'kind': 'shorttable', 'key': SHORT_TABLE_KEY})


def check_wrap_span(chk, mods, case):
    fn = os.path.join(chk.scratch, 'w.skool')
    with open(fn, 'w') as f:
        f.write(annot.wrap_span_skool(case))
    out, err = capture(mods['skool2asm'].main, ['-q', fn])
    return annot.check_wrap_span_asm(out, err, case)


OVERLAP_TABLE_KEY = 'asm-table-overlapping-wrapped-colspans-too-wide'


def probe_overlap_table(chk, mods):
    """Two wrappable cells whose colspans overlap (columns 0-1 in one row, 1-2 in another): Table.prepare_cells widens
    the columns up to the text width and wraps the cells for those widths, then recomputes the column widths from
    scratch (colspan-1 cells first, the spanning cells' needs handed out round-robin), which for overlapping spans
    gives a wider table than the one the cells were wrapped for: at line width 79 the table of short words below comes
    out 85 characters wide with a 'Table in entry at 32768 is 83 characters wide' warning, although it fits in 79.
    Genuine defect of the unchanged tree. Raised as a violation only if the integrator lists the key in
    KNOWN_FINDINGS.txt (then it is a known finding and must keep reproducing); otherwise reported as an observation.
    Patch proposal: /tmp/fix_E2_1.diff."""
    import framework
    msgs = []
    for lw in (79, 60):
        fails = check_wrap_span(chk, mods, annot.wrap_span_case(lw, overlap=True))
        chk.case('e2e-wrap-span-table', ('wrapspan-overlap', lw), None)
        msgs += [d for k, d in fails]
    if msgs:
        if OVERLAP_TABLE_KEY in framework.load_known(chk.pid):
            chk.violation(OVERLAP_TABLE_KEY, msgs[0], {'kind': 'wrapspan', 'lw': 79, 'overlap': True, 'key': None})
        else:
            chk.note('observation (genuine defect outside the known-findings list, not raised as a violation; key %s): %s' % (OVERLAP_TABLE_KEY, msgs[0][:400]))


def rand_cfg(rng):
    return {'line_width': rng.choice((40, 41, 50, 60, 79, 79, 80, 100, 132, 200)),
            'instr_width': rng.choice((5, 10, 15, 23, 23, 30)), 'indent': rng.choice((0, 1, 2, 2, 4, 8)),
            'tab': int(rng.random() < 0.15), 'crlf': int(rng.random() < 0.2), 'min_cw': rng.choice((5, 10, 10, 20, 30))}


def report(chk, kind, fails, replay):
    for key, desc in fails:
        chk.violation(key, desc, dict(replay, kind=kind, key=key))


def e2e(chk, mods):
    rng = chk.rng
    tab_notes = collections.Counter()
    # 1. skool2asm; case 0 is the deterministic instance of the known class (title with an
    #    unbreakable word wider than the line)
    for n in range(chk.scale(900, 12000)):
        cfg = rand_cfg(rng)
        spec = annot.gen_spec(rng, rng.randint(1, 3), cfg, long_word_in_comment_line=(n == 0),
                              long_words=(n == 0 or rng.random() < 0.25))
        if n in (1, 2):
            # deterministic group: dot-leading words at the start of every kind of comment line (register
            # continuation lines with and without white space after the marker dot, paragraphs, instruction comments)
            spec = annot.dot_words_spec((79, 50)[n - 1])
        elif n == 3:
            spec = annot.long_text_spec(79)          # annotations that wrap to 60-150 lines
        via = rng.random() < 0.3
        text = annot.skool_text(rng, spec, set_directives=not via)
        fails, notes = check_asm(chk, mods, spec, text, via)
        ngroups = sum(len(e['groups']) for e in spec['entries'])
        chk.case('e2e-asm', ('asm', n), {'tool': 'skool2asm', 'cfg': cfg, 'entries': len(spec['entries']), 'groups': ngroups} if n < 3 else None)
        for x in notes:
            tab_notes[x.split(' ', 1)[0] + ' ' + x.split(' ', 1)[1].lstrip('0123456789 ')] += 1
        report(chk, 'asm', fails, {'spec': spec, 'text': text, 'via': via})
    # 2. skool2html entry pages
    for n in range(chk.scale(250, 3000)):
        spec = annot.gen_spec(rng, rng.randint(1, 3), rand_cfg(rng), long_words=rng.random() < 0.25)
        if n == 0:
            spec = annot.dot_words_spec(79)
        elif n == 1:
            spec = annot.long_text_spec(79)
        text = annot.skool_text(rng, spec, set_directives=False)
        fails = check_html(chk, mods, spec, text)
        chk.case('e2e-html', ('html', n), {'tool': 'skool2html', 'entries': len(spec['entries'])} if n < 1 else None)
        report(chk, 'html', fails, {'spec': spec, 'text': text})
    # 3. sna2skool from a control file
    for n in range(chk.scale(350, 5000)):
        lw = rng.choice((79, 79, 60, 100, 132))
        spec = annot.gen_spec(rng, rng.randint(1, 3), {'line_width': lw}, one_byte_ops=True, contiguous=True,
                              long_words=rng.random() < 0.25)
        if n == 0:
            # deterministic instance of the known class `skool-brace-span-negative-prefix`: a two-instruction
            # comment whose first wrapped line closes more braces than it opens
            lw = 79
            spec = {'cfg': {'line_width': 79}, 'entries': [{
                'ctl': 'c', 'addr': 32768, 'title': [['Routine']], 'details': [], 'registers': [], 'start': [], 'end': [],
                'groups': [{'instrs': [{'addr': 32768, 'op': 'LD A,B', 'label': None}, {'addr': 32769, 'op': 'RET', 'label': None}],
                            'lines': [[['a}}', 'x' * 50]], [['{{b']]], 'mid': []}]}]}
        elif n in (1, 2, 3):
            # deterministic sweep of the closing-brace fit boundary (comments ending in '}', last wrapped line
            # of every length around the comment width, groups of 1..3 instructions)
            lw = (79, 60, 100)[n - 1]
            spec = annot.closing_boundary_spec(lw)
        elif n in (4, 5):
            # deterministic group: dot-leading words pushed across the wrap boundary of register descriptions (so that
            # they start a '.' continuation line), paragraphs and instruction comments
            lw = (79, 60)[n - 4]
            spec = annot.dot_words_spec(lw, ctl=True)
        elif n == 6:
            lw = 79
            spec = annot.long_text_spec(lw)
        ctl = annot.ctl_text(spec, rng)[0] if n > 6 else None       # (some comments given with dot directives)
        fails, ctl = check_ctl(chk, mods, spec, lw, ctl)
        chk.case('e2e-ctl', ('ctl', n), {'tool': 'sna2skool', 'line_width': lw, 'entries': len(spec['entries'])} if n < 1 else None)
        report(chk, 'ctl', fails, {'spec': spec, 'text': ctl, 'line_width': lw})
    # 4. #LIST / #TABLE blocks (with sna2skool wrap flags) through the three tools
    for n in range(chk.scale(150, 2000)):
        case = annot.gen_blocks_case(rng) if n > 1 else (annot.exact_fit_table_case(79), annot.sentence_ends_blocks_case(79))[n]
        text = annot.blocks_skool(rng, case)
        report(chk, 'blocks', check_blocks(chk, mods, case, text), {'case': case, 'text': text})
        chk.case('e2e-blocks', ('blocks', n), {'tool': 'skool2asm/skool2html/sna2skool', 'list_items': len(case['items']),
                                             'table': [len(case['rows']), len(case['rows'][0])]} if n < 1 else None)
    # 5. #TABLE blocks whose cells span rows/columns (unique words: each exactly once, in order within its cell)
    for n in range(chk.scale(60, 800)):
        case = annot.gen_span_table_case(rng)
        text = annot.span_table_skool(rng, case)
        report(chk, 'spantable', check_span_table(chk, mods, case, text), {'case': case, 'text': text})
        chk.case('e2e-span-table', ('spantable', n), {'tool': 'skool2asm/skool2html/sna2skool', 'definition': ' '.join(case['ttoks'])[:120]} if n < 1 else None)
    probe_short_table(chk, mods)
    # 6. #TABLEs in which a wrappable (:w) column holds cells spanning 2-3 columns, short words only: deterministic sweep
    #    of every line width (the widening loop stops on a width that depends on the parity of line width, column count
    #    and minimum widths): no line wider than the line width, no warning, every word once and in order
    for lw in range(40, chk.scale(131, 201)):
        case = annot.wrap_span_case(lw)
        report(chk, 'wrapspan', check_wrap_span(chk, mods, case), {'lw': lw, 'text': annot.wrap_span_skool(case)})
        for e in case['entries']:
            chk.case('e2e-wrap-span-table', ('wrapspan', lw, e['name']),
                     {'tool': 'skool2asm', 'line_width': lw, 'definition': ' '.join(e['ttoks'])[:120]} if lw == 40 and e['addr'] == 32768 else None)
    probe_overlap_table(chk, mods)
    for x in sorted(tab_notes):
        chk.note('observation (not a violation), %d case(s): %s' % (tab_notes[x], x))


def load(chk):
    names = ('skoolkit', 'skoolkit.skoolparser', 'skoolkit.skoolasm', 'skoolkit.skoolutils', 'skoolkit.skool2asm',
             'skoolkit.skool2html', 'skoolkit.sna2skool', 'skoolkit.snaskool')
    ms = fresh_import(*names)
    return dict(zip((n.split('.')[-1] for n in names), ms))


def run(chk):
    chk.rule = ('wrap: all token sequences over {a, bbb, space, 2 spaces} up to length 4 (quick) / 6 (thorough) x widths, '
                'sentences of words of length w, w-1, w+1 for widths 1..200, lines filled exactly, widths <= 0, texts with '
                'tabs/newlines/unicode spaces/hyphens; rows: random groups (rowspan 1..5, rowspans running past the end, '
                'operations longer than the instruction width, words of length cw-1, cw, cw+1, cw+7) x line widths 20..200 x '
                'indent/tab x comment-width-min; comment paragraphs; reader: comment-line sequences with braces in any position, '
                'separators; writer: comment texts x 1..5 instructions x widths. e2e: generated annotated disassemblies (titles, '
                'description paragraphs, registers with prefixes and delimited names, start/mid-block/end comments, instruction '
                'comments over 1..5 instructions with braces in any position encoded by the documented rules, labels) x line '
                'widths 40..200 x instruction widths x indent/tab/crlf x comment-width-min through skool2asm (@set- directives or '
                '-P), skool2html entry pages, and ctl+binary through sna2skool (line widths 60..132); #LIST/#TABLE paragraphs '
                '(wrapped columns, <nowrap>/<wrapalign> flags) through all three. non-trivial = wraps to > 1 line / has an '
                'over-long word / group with rowspan > 1 / every e2e case (distinct by case index). Words include dot-leading words '
                '(.25, ...more, words of 2+ dots), semicolon-leading words and sentence ends; register continuation lines with 0-2 blanks '
                'after the marker dot; registers with Input/Output prefixes in any order (HTML: which of the two tables). Deterministic '
                'groups: dot/semicolon-leading words at the start of every kind of source line (skool) and pushed across every wrap boundary '
                '(ctl); annotations of 60-150 lines and 10-14 paragraphs; closing-brace fit boundary; long text around #LIST/#TABLE; #TABLEs '
                'with colspan/rowspan/header/transparent cells (unique words: each exactly once, in order within its cell); control-file '
                'comments given with dot/colon directives; #TABLEs whose wrappable (:w) column holds cells spanning 2-3 columns (short words only; '
                ':w on the first / last / several columns, spans side by side, with a rowspan, next to a wrapped plain cell) x every line '
                'width 40..130 (thorough: ..200): no line wider than the line width, no table warning, words once and in order')
    chk.trusted += ['hand models lean/SkoolVerif/Model/Wrap.lean, Model/AsmRows.lean, Model/Braces.lean tied by correspondence '
                    '(harness/props/c18.py) to skoolkit.wrap, AsmWriter.print_instructions/print_comment_lines/format, '
                    'parse_address_comments, SkoolWriter._format_instruction_comments',
                    'independent generators/parsers harness/indep/annot.py (written from sphinx/source/skool-files.rst)',
                    'CPython textwrap/str.format/str.strip (modelled, tied by correspondence)']
    chk.assumptions += [
        '#TABLE/#LIST layout (TableWriter, ListParser), macro expansion and custom templates are not modelled (corr/e2e texts are '
        'macro-free); #LIST/#TABLE are covered by e2e exploration only',
        'skool2html (HtmlWriter._get_asm_entry) and the rest of sna2skool (write_comment, _write_registers, parse_blocks) are covered by '
        'e2e exploration only, not by theorem',
        'parse_address_comments and SkoolWriter._format_instruction_comments are modelled; proved: the span arithmetic and the brace '
        'stripping round trip; the string-level composition writer->reader is only refuted (C18_ctl_full_false), its positive part is '
        'the arithmetic theorem span_sna_encoding_partial',
        'print_registers width arithmetic and print_instruction_prefix (labels, mid-block comments) are covered by e2e only',
        'with tab=1 the warning test counts the tab as one character while the comment width counts 8 columns (noted, not a violation); '
        'with crlf=1 register continuation lines end in LF (noted)',
        'known findings: asm-overlong-comment-line-no-warning (C18.C18_full_false), skool-brace-span-negative-prefix '
        '(C18.C18_ctl_full_false, C18.C18_span_full_false)',
        'observation (probe_short_table; raised as a violation only when its key asm-table-last-column-only-colspan-crash is listed in '
        'KNOWN_FINDINGS.txt): skool2asm raises IndexError on a #TABLE whose last column is reached only through colspan cells; such '
        'tables are excluded from the random span-table stream',
        'observation (probe_overlap_table; raised as a violation only when its key asm-table-overlapping-wrapped-colspans-too-wide is '
        'listed in KNOWN_FINDINGS.txt): a #TABLE with two wrappable cells whose colspans overlap (columns 0-1 and 1-2) comes out wider '
        'than the line width although it fits (column widths are recomputed after wrapping); such tables are excluded from the sweep']
    mods = load(chk)
    ok = chk.lake_build([PROPS, 'SkoolVerif.Prelude.Proto'])
    chk.audit(PROPS)
    if chk.thorough and ok:
        chk.leanchecker([PROPS])
    corr_wrap(chk, mods['skoolkit'])
    corr_rows(chk, (mods['skoolparser'], mods['skoolasm'], mods['skoolutils']))
    corr_braces(chk, mods['skoolutils'], mods['snaskool'])
    e2e(chk, mods)


def replay(chk, data):
    mods = load(chk)
    kind = data['kind']
    if kind == 'wrap':
        r = mods['skoolkit'].wrap(data['text'], data['width'])
        return ' '.join(r).split() != data['text'].split() or any(len(l) > data['width'] and len(l.split()) > 1 for l in r)
    if kind == 'asm':
        fails, _ = check_asm(chk, mods, data['spec'], data['text'], data.get('via', False))
    elif kind == 'html':
        fails = check_html(chk, mods, data['spec'], data['text'])
    elif kind == 'blocks':
        fails = check_blocks(chk, mods, data['case'], data['text'])
    elif kind == 'shorttable':
        case = annot.SHORT_TABLE_CASE
        text = '@start\n; ' + ' '.join(case['title']) + '\n;\n; ' + ' '.join(case['ttoks']) + '\nc32768 RET\n'
        try:
            return bool(check_span_table(chk, mods, case, text))
        except IndexError:
            return True
    elif kind == 'spantable':
        fails = check_span_table(chk, mods, data['case'], data['text'])
    elif kind == 'wrapspan':
        fails = check_wrap_span(chk, mods, annot.wrap_span_case(data['lw'], overlap=data.get('overlap', False)))
    else:
        fails, _ = check_ctl(chk, mods, data['spec'], data['line_width'], data.get('text'))
    for k, d in fails:
        print('%s: %s' % (k, d[:300]))
    return any(k == data.get('key') for k, d in fails) if data.get('key') else bool(fails)
