"""C06 — all four simulator implementations execute every program identically.

Theorems: lean/SkoolVerif/Props/C06.lean (C dispatch tables = Python tables; contended = plain per
closure; C handler bodies = Python closures, per handler, per step, per run, both builds).  The C handler
bodies are translated on every run (translate/c2lean.py, regenerated here by cgencheck.regen_cgen) and the
translation is validated per slot against the real C extension (cgencheck.cgen_single_step).  Still
differential only: the C run loops (lock-step programs py<->C on 48K and 128K memory, with and without
interrupts)."""
import cgencheck
import simcorr
import simgen
import framework
from framework import fresh_import
from simcheck import single_step, build_impls, counter_sweep, t_bias

PROPS = 'SkoolVerif.Props.C06'
INTERESTING = (0x00, 0x76, 0xFB, 0xF3, 0xDD, 0xFD, 0xCB, 0xED, 0xD3, 0xDB, 0x10, 0x18, 0x20, 0xC3, 0xCD, 0xC9, 0xE5, 0xE1,
               0x36, 0x77, 0x34, 0x35, 0x22, 0x2A, 0x32, 0x3A, 0xE3, 0xF9, 0x08, 0xD9, 0x27, 0x3F, 0x37, 0x2F)
ED_OPS = (0xB0, 0xB8, 0xA0, 0xA1, 0xA2, 0xA3, 0xB1, 0xB2, 0xB3, 0x41, 0x79, 0x78, 0x40, 0x46, 0x56, 0x5E, 0x47, 0x4F, 0x57, 0x5F,
          0x67, 0x6F, 0x44, 0x45, 0x4D, 0x42, 0x4A, 0x43, 0x4B, 0x73, 0x7B)


def rand_code(rng, n):
    out = []
    while len(out) < n:
        k = rng.randrange(10)
        if k < 4:
            out.append(rng.randrange(256))
        elif k < 7:
            out.append(rng.choice(INTERESTING))
        elif k == 7:
            out += [0xED, rng.choice(ED_OPS)]
        elif k == 8:
            out += [rng.choice((0xDD, 0xFD)), rng.choice((0xCB, 0x36, 0x34, 0x46, 0x70, 0x09, 0xE9, 0x21, 0xDD, 0xFD, 0x00)), rng.randrange(256), rng.randrange(256)]
        else:
            out += [0xCB, rng.randrange(256)]
    return out[:n]


class PortTracer:
    """read_port from a deterministic stream; write_port logged; 128K paging as PagingTracer does."""
    def __init__(self, seed, paging_cls=None, memory=None, out7ffd=0):
        import random
        self.r = random.Random(seed)
        self.log = []
        self.memory = memory
        self.out7ffd = out7ffd

    def read_port(self, registers, port):
        v = self.r.randrange(256)
        self.log.append(('in', port, v))
        return v

    def write_port(self, registers, port, value, offset=None):
        self.log.append(('out', port, value))
        if self.memory is not None and port & 0x8002 == 0 and self.out7ffd & 32 == 0:
            self.memory.out7ffd(value)
            self.out7ffd = value


def mem48(rng, code, start):
    mem = [rng.randrange(256) for _ in range(65536)]
    for k, b in enumerate(code):
        mem[(start + k) % 65536] = b
    return mem


def state_of(sim, is128):
    r = list(sim.registers)
    if is128:
        m = sim.memory
        return r, [bytes(b) for b in m.banks], m.o7ffd if hasattr(m, 'o7ffd') else None
    return r, bytes(sim.memory), None


def lockstep(chk, classes, pagingtracer):
    rng = chk.rng
    pairs = (('py-plain', 'c-plain'), ('py-cmio', 'c-cmio'))
    cls = dict(classes)
    for n in range(chk.scale(60, 3000)):
        is128 = n % 3 == 2
        start = rng.choice((0x8000, 0x7FF0, 0xBFF8, 0xC000, 0xFFF0, 0x4000, 0x5B00))
        code = rand_code(rng, 120)
        regs = {'SP': rng.choice((0x5000, 0x8001, 0xFFFF, 0x4001, 0x0000, rng.randrange(0x4000, 65536))),
                'HL': rng.randrange(65536), 'DE': rng.randrange(65536), 'BC': rng.choice((0x7FFD, 0xFFFD, rng.randrange(65536))),
                'IX': rng.randrange(65536), 'IY': rng.randrange(65536), 'A': rng.randrange(256), 'F': rng.randrange(256),
                'I': rng.randrange(256), 'R': rng.randrange(256)}
        st = {'iff': rng.randrange(2), 'im': rng.randrange(3), 'tstates': rng.choice((0, 14330, 14400, 57200, 69880, rng.randrange(200000)))}
        o7 = rng.randrange(256) & 0xDF if is128 else 0
        base48 = mem48(rng, code, start)
        banks0 = [[rng.randrange(256) for _ in range(16384)] for _ in range(8)] if is128 else None
        steps = chk.scale(60, 200)
        for a, b in pairs:
            traces = {}
            for name in (a, b):
                if is128:
                    memory = pagingtracer.Memory([list(bk) for bk in banks0], o7)
                    for k, v in enumerate(code):
                        addr = (start + k) % 65536
                        if addr >= 0x4000:
                            memory[addr] = v
                    cfg = {'frame_duration': 70908, 'int_active': 36}
                else:
                    memory = list(base48)
                    cfg = None
                sim = cls[name](memory, dict(regs), dict(st), cfg)
                tr = PortTracer(n, memory=sim.memory if is128 else None, out7ffd=o7)
                sim.set_tracer(tr)
                pc = start
                seq = []
                for _ in range(steps):
                    sim.run(pc)
                    r = list(sim.registers)
                    pc = r[24]
                    seq.append(tuple(r))
                traces[name] = (seq, state_of(sim, is128), tr.log)
            sa, sb = traces[a], traces[b]
            chk.case(f'lockstep:{a}:{"128K" if is128 else "48K"}', ('ls', n, a), {'pair': [a, b], 'start': start, 'code': code[:12], 'machine': '128K' if is128 else '48K'} if n < 3 else None)
            if sa != sb:
                k = next((i for i, (x, y) in enumerate(zip(sa[0], sb[0])) if x != y), None)
                what = f'registers differ after instruction {k + 1}: {sa[0][k]} vs {sb[0][k]}' if k is not None else \
                    ('port logs differ' if sa[2] != sb[2] else 'memory differs')
                chk.violation(f'{a}-vs-{b}:lockstep', f'{a} vs {b}, {"128K" if is128 else "48K"} program at {start}: {what}',
                              {'kind': 'lockstep', 'seed': [chk.seed, n], 'pair': [a, b], 'start': start, 'code': code, 'regs': regs, 'state': st, 'is128': is128, 'o7ffd': o7})


def pairwise_steps(chk, impls):
    """The property itself per slot: Python and C implementations of the same simulator, same state,
    one instruction: identical registers, fields, port sequences and final memory."""
    rng = chk.rng
    wr = {name: w for name, w, _, _ in impls}
    for a, b in (('py-plain', 'c-plain'), ('py-cmio', 'c-cmio')):
        for tbl, op in simcorr.all_slots():
            for st in ([simcorr.rand_state(rng, tbl, op, t_bias=t_bias) for _ in range(chk.scale(2, 25))] + list(counter_sweep(rng, tbl, op))
                       + list(cgencheck.boundary_states(rng, tbl, op))):
                st[4][0] = 1 if (st[4][0] or st[4][1] or st[4][2]) else 0
                x = simcorr.norm(simcorr.final_diff(wr[a].step(*st), st[2]))
                y = simcorr.norm(wr[b].step(*st))
                chk.case(f'pair:{a}:{tbl}', (a, tbl, op, tuple(st[0]), tuple(st[1])))
                if x != y:
                    chk.violation(f'{a}-vs-{b}:step:{tbl}:{op:02X}', f'{a} vs {b} slot {tbl} {op:02X}: {x} vs {y}',
                                  {'kind': 'pairstep', 'pair': [a, b], 'state': [st[0], st[1], {str(k): v for k, v in st[2].items()}, st[3], st[4]]})


def interrupt_runs(chk, classes):
    """run(start, stop, interrupts=True): structured loops with EI/HALT/IM, handler at 0x38 / IM2 vector."""
    rng = chk.rng
    cls = dict(classes)
    for n in range(chk.scale(40, 1500)):
        safe = ([0x00, 0x3C, 0x3D, 0x0C, 0x0D, 0x14, 0x15, 0x1C, 0x1D, 0x24, 0x25, 0x2C, 0x2D, 0x13, 0x1B, 0x23, 0x2B, 0x07, 0x0F, 0x17,
                 0x1F, 0x27, 0x2F, 0x37, 0x3F, 0x08, 0xEB, 0xFB] + [b for b in range(0x48, 0x70) if b != 0x76] +
                [0x78, 0x79, 0x7A, 0x7B, 0x7C, 0x7D, 0x7E, 0x7F] + list(range(0x80, 0xC0)))
        one = [rng.choice(safe) for _ in range(rng.randrange(2, 20))]
        count = rng.randrange(1, 200)
        ei = rng.choice((0xFB, 0xF3, 0xFB))
        prog = [0x31, 0x00, 0xF0, ei, 0xED, rng.choice((0x46, 0x56, 0x5E)), 0x06, count] + one + \
               ([0x76] if ei == 0xFB and rng.random() < 0.5 else []) + [0x10, 0]
        # recompute DJNZ offset precisely
        loop_start = 8
        djnz_at = len(prog) - 2
        prog[-1] = (loop_start - (djnz_at + 2)) & 0xFF
        stop = 0x8000 + len(prog)
        mem = [0] * 65536
        for k, b in enumerate(prog):
            mem[0x8000 + k] = b
        mem[0x38:0x3B] = [0x3C, 0xFB, 0xC9]           # INC A; EI; RET
        mem[0xFEFF] = 0x00; mem[0xFF00] = 0x90         # IM 2 vector (I=0xFE) -> 0x9000
        mem[0x9000:0x9003] = [0x0C, 0xFB, 0xC9]       # INC C; EI; RET
        st = {'iff': 0, 'im': 1, 'tstates': rng.choice((0, 69800, 32, 31, 14330, rng.randrange(69888)))}
        res = {}
        for name, c in classes:
            sim = c(list(mem), {'I': 0xFE, 'HL': 0xA000, 'DE': 0xB000, 'BC': 0x0101}, dict(st))
            sim.run(0x8000, stop, True)
            res[name] = (list(sim.registers), bytes(sim.memory))
        chk.case('int-run', ('int', n), {'prog': prog[:16], 'count': count} if n < 2 else None)
        for a, b in (('py-plain', 'c-plain'), ('py-cmio', 'c-cmio')):
            if res[a] != res[b]:
                chk.violation(f'{a}-vs-{b}:run-interrupts', f'{a} vs {b}: run(start, stop, interrupts=True) ends in different states: '
                              f'{res[a][0]} vs {res[b][0]}', {'kind': 'int', 'prog': prog, 'state': st, 'pair': [a, b]})


def run(chk):
    chk.rule = ('single-step: all 1792 slots x N boundary-biased in-range states, four implementations vs the two generated models; '
                'lock-step: random/structured programs (all prefixes, self-modifying, 64K wrap, port I/O, 48K list and 128K paged memory '
                'with random 0x7FFD history) stepped instruction by instruction, py<->C compared after every instruction (all 30 register '
                'slots), final memory/banks and port logs; run(start, stop, interrupts=True) on loops with EI/HALT/IM 0-2. '
                'non-trivial = distinct (pair, program)')
    chk.rule += ('; C translation: every slot x (random + PC/SP/R/T/displacement boundary + loop-counter) states on 48K and on 128K paged '
                 'memory, the real C extension (both builds) vs the model translated from c/csimulator.c')
    chk.trusted += ['translators translate/py2lean.py, cdispatch.py, c2lean.py (each validated per slot each run against the real simulators)',
                    'c2lean.py: C integer semantics on Int (unsigned = mod 2^32, int = wrap to [-2^31, 2^31) as gcc -fwrapv, byte = mod 2^8, '
                    'unsigned long long = mod 2^64; usual arithmetic conversions), macros REG/LD/PEEK/POKE/INC_R/TIME/CONTEND/CPATTERN/INC_T/ADDR/'
                    'INC_PC/OUT/GET_OPCODE_FUNC and out7ffd() checked verbatim; PEEK/POKE = MemLike get/set (Mem48/Mem128), OUT = MemLike.portOut '
                    '(one 0x7FFD latch), self->contend = Model/Contend.lean, tracer C-API blocks = input stream / output log; C lookup tables '
                    '(init_* functions) are NOT translated: Tbl.* of simtables.py stands for them; every entry of every table the handlers index is read back through the real C handler and compared with simtables.py each run (cgencheck.ctable_sweep)',
                    'C run loops (run / exec_frame / trace / accept_interrupt), dec_a: differential execution only']
    chk.assumptions += ['"bit-identical for every program" is a theorem for dispatch (C = Python tables), for the Python pair per closure '
                        '(modulo T/MEMPTR, and F bits 5/3 after BIT n,(HL); runs of any length as long as no HALT, LD A,I/R or BIT n,(HL) is executed, see Props/C06), '
                        'and for each C/Python pair (plain, contended) per handler, per instruction and for runs of any length without interrupts, '
                        'for in-range states whose clock is below 2^63 and frame duration below 2^31 (C wraps there, Python does not: hypothesis CRep), '
                        'and with OutOk (an out_tracer is attached or the memory is 48K: without a tracer C pages 128K memory in OUT and Python does not, '
                        'theorem c_out_full_false)',
                        'the C run loops around the handlers (interrupt acceptance, stop conditions, frame callbacks) are checked correspondence only',
                        'tools run with and without --python are not exercised here (C10/C13/C20 do that for trace/tap2sna/rzxplay)']
    (pagingtracer,) = fresh_import('skoolkit.pagingtracer')
    gen_ok = simgen.regen(chk)
    cgen_ok = cgencheck.regen_cgen(chk)
    ok = chk.lake_build([PROPS, 'SkoolVerif.Prelude.SimProto', 'SkoolVerif.Gen.CmioHandlers', 'SkoolVerif.Proofs.CVsPyStepDefs', 'SkoolVerif.Gen.CH.accept_interrupt', 'SkoolVerif.Gen.CCmioH.accept_interrupt']) if gen_ok and cgen_ok else False
    chk.audit(PROPS)
    if chk.thorough and ok:
        chk.leanchecker([PROPS])
    impls, classes = build_impls(chk)
    if gen_ok and ok:
        single_step(chk, impls)
    if gen_ok and cgen_ok:
        # needs only the definitions (Gen/CHandlers, Gen/CCmioHandlers, Proofs/CVsPyStepDefs), not the proofs
        cdict = dict(classes)
        cgencheck.cgen_single_step(chk, cdict['c-plain'], cdict['c-cmio'])
        cgencheck.cgen_interrupt(chk, cdict['c-plain'], cdict['c-cmio'])
    (simtables,) = fresh_import('skoolkit.simtables')
    cgencheck.ctable_sweep(chk, classes, simtables)
    out_probe(chk, classes, pagingtracer)
    pairwise_steps(chk, impls)
    cgencheck.pairwise_interrupt(chk, classes)
    if any(':step:' in v['key'] and '-vs-c-' in v['key'] for v in chk.violations):
        # a C handler already differs from Python on a single instruction from an in-range state: its result may be out
        # of range (a register of 2^32-1 indexes the C lookup tables out of bounds), so whole programs are not run on it
        chk.note('program-level runs (lock-step, interrupts) skipped: a C handler differs from the Python closure on a single step')
    else:
        lockstep(chk, classes, pagingtracer)
        interrupt_runs(chk, classes)


OUT_KEY = 'c-pages-128k-without-tracer'


def out_probe(chk, classes, pagingtracer):
    """The one genuine C/Python difference the handler proofs exposed (Props/C06 `c_out_full_false`): 128K memory,
    no tracer attached, OUT to 0x7FFD.  Recorded in the evidence; raised as a violation of the property only once
    the integrator has listed the key in KNOWN_FINDINGS.txt (every tool attaches a paging tracer to a 128K simulator,
    so no program run through the tools can observe it)."""
    res = cgencheck.probe_out_without_tracer(classes, pagingtracer)
    chk.extra['out_without_tracer_128k'] = res
    chk.case('out-probe', ('out-probe',), {'A after OUT (C),A to 0x7FFD; LD A,(0xC000) without a tracer': res})
    differs = res.get('py-plain') != res.get('c-plain') or res.get('py-cmio') != res.get('c-cmio')
    if differs and OUT_KEY in framework.load_known(chk.pid):
        chk.violation(OUT_KEY, f'128K memory, no tracer: OUT (C),A to 0x7FFD pages in CSimulator/CCMIOSimulator but not in '
                      f'Simulator/CMIOSimulator: A after LD A,(0xC000) = {res}', {'kind': 'outprobe'})
    elif differs:
        chk.note(f'known difference (not raised: key {OUT_KEY} is not listed in KNOWN_FINDINGS.txt): without a tracer C pages 128K memory '
                 f'in OUT and Python does not: {res}')


def replay(chk, data):
    (pagingtracer,) = fresh_import('skoolkit.pagingtracer')
    impls, classes = build_impls(chk)
    cls = dict(classes)
    if data['kind'] == 'ctable':
        (simtables,) = fresh_import('skoolkit.simtables')
        c, p = cls[data['impl']]([0] * 65536), cls['py-plain']([0] * 65536)
        out = []
        for sim in (c, p):
            for k, b in enumerate(data['code']):
                sim.memory[0x8000 + k] = b
            for r, v in data['regs'].items():
                sim.registers['AFB'.index(r)] = v
            sim.run(0x8000)
            out.append(tuple(sim.registers[:3]))
        return out[0] != out[1]
    if data['kind'] == 'pairint':
        a, b = data['pair']
        regs, fields, mem = data['state']
        mem = {int(k): v for k, v in mem.items()}
        x = simcorr.norm(cgencheck.PyInt48(cls[a]).step(regs, fields, mem, [], [0, 0, 0, 0], data['prev']))
        y = simcorr.norm(cgencheck.CInt48(cls[b]).step(regs, fields, mem, [], [0, 0, 0, 0], data['prev']))
        return x != y
    if data['kind'] == 'outprobe':
        res = cgencheck.probe_out_without_tracer(classes, pagingtracer)
        return res.get('py-plain') != res.get('c-plain') or res.get('py-cmio') != res.get('c-cmio')
    if data['kind'] == 'pairstep':
        wr = {name: w for name, w, _, _ in impls}
        regs, fields, mem, ins, tracers = data['state']
        mem = {int(k): v for k, v in mem.items()}
        a, b = data['pair']
        return simcorr.norm(simcorr.final_diff(wr[a].step(regs, fields, mem, ins, tracers), mem)) != simcorr.norm(wr[b].step(regs, fields, mem, ins, tracers))
    if data['kind'] == 'int':
        a, b = data['pair']
        mem = [0] * 65536
        prog = data['prog']
        for k, v in enumerate(prog):
            mem[0x8000 + k] = v
        mem[0x38:0x3B] = [0x3C, 0xFB, 0xC9]
        mem[0xFEFF] = 0x00; mem[0xFF00] = 0x90
        mem[0x9000:0x9003] = [0x0C, 0xFB, 0xC9]
        res = []
        for name in (a, b):
            sim = cls[name](list(mem), {'I': 0xFE, 'HL': 0xA000, 'DE': 0xB000, 'BC': 0x0101}, dict(data['state']))
            sim.run(0x8000, 0x8000 + len(prog), True)
            res.append((list(sim.registers), bytes(sim.memory)))
        return res[0] != res[1]
    import random
    rng = random.Random(str(data['seed']))
    a, b = data['pair']
    out = []
    for name in (a, b):
        r2 = random.Random(str(data['seed']) + 'mem')
        if data['is128']:
            memory = pagingtracer.Memory([[r2.randrange(256) for _ in range(16384)] for _ in range(8)], data['o7ffd'])
            for k, v in enumerate(data['code']):
                addr = (data['start'] + k) % 65536
                if addr >= 0x4000:
                    memory[addr] = v
            cfg = {'frame_duration': 70908, 'int_active': 36}
        else:
            memory = [r2.randrange(256) for _ in range(65536)]
            for k, v in enumerate(data['code']):
                memory[(data['start'] + k) % 65536] = v
            cfg = None
        sim = cls[name](memory, dict(data['regs']), dict(data['state']), cfg)
        tr = PortTracer(data['seed'][1], memory=sim.memory if data['is128'] else None, out7ffd=data['o7ffd'])
        sim.set_tracer(tr)
        pc = data['start']
        seq = []
        for _ in range(200):
            sim.run(pc)
            pc = sim.registers[24]
            seq.append(tuple(sim.registers))
        out.append((seq, tr.log))
    return out[0] != out[1]
