"""Tie of the C handler translation (translate/c2lean.py) to the real C code, on every run.

* `regen_cgen(chk)`: re-translates c/csimulator.c (plain and -DCONTENTION) and regenerates the C-vs-Python
  theorem files; an unsupported construct or a changed macro is a translator break.
* `cgen_single_step(chk, CS, CC)`: steps the REAL C extension (built from the working tree by cbuild.py) and the
  model translated from the same source (Drivers/CSimH.lean) through every dispatch slot on boundary-biased
  in-range states and compares registers, state fields, port logs and the final memory; 48K (all slots) and
  128K paged memory (all slots, fewer states; paging observed through probe reads after the step).
"""
import importlib
import os
import sys

import simcorr
from framework import VERIF, REPO, LeanLock, fresh_import
from simcheck import t_bias, counter_sweep

sys.path.insert(0, os.path.join(VERIF, 'translate'))

PC_BOUNDS = (0x0000, 0x3FFD, 0x3FFE, 0x3FFF, 0x4000, 0x7FFF, 0xFFFC, 0xFFFD, 0xFFFE, 0xFFFF)
SP_BOUNDS = (0x0000, 0x0001, 0x0002, 0x3FFF, 0x4000, 0x4001, 0x4002, 0xFFFE, 0xFFFF)
R_BOUNDS = (0x00, 0x7E, 0x7F, 0x80, 0xFE, 0xFF)
FRAME = 69888
GEN_SUBDIRS = ('CH', 'CCmioH', 'CVsPy', 'CCmioVsPy')


def regen_cgen(chk):
    """c/csimulator.c -> Gen/CHandlers.lean, Gen/CCmioHandlers.lean, Gen/CVsPyThms.lean (+parts), cmio variants."""
    for name in ('py2lean', 'c2lean', 'gen_cvspy'):
        if name in sys.modules:
            importlib.reload(sys.modules[name])
    import c2lean
    import gen_cvspy
    outputs = {}
    ok = True
    for label, cont in (('c/csimulator.c (plain) -> Gen/CHandlers.lean, Gen/CH/*.lean', False),
                        ('c/csimulator.c (-DCONTENTION) -> Gen/CCmioHandlers.lean, Gen/CCmioH/*.lean', True)):
        try:
            files, _ = c2lean.translate(REPO, cont)
            outputs.update(files)
        except Exception as e:
            chk.breaks.append({'kind': 'translator', 'name': label, 'detail': f'{type(e).__name__}: {e}'})
            ok = False
    if ok:
        try:
            for cont in (False, True):
                outputs.update(gen_cvspy.gen(REPO, cont))
        except Exception as e:
            chk.breaks.append({'kind': 'translator', 'name': 'C-vs-Python theorem generator', 'detail': f'{type(e).__name__}: {e}'})
            ok = False
    changed = []
    with LeanLock():
        for fn, text in outputs.items():
            if chk.write_gen(os.path.join('SkoolVerif', 'Gen', fn), text):
                changed.append(fn)
        if ok:
            # modules of handlers / cases that no longer exist
            gen_dir = os.path.join(VERIF, 'lean', 'SkoolVerif', 'Gen')
            for sub in GEN_SUBDIRS:
                d = os.path.join(gen_dir, sub)
                for f in (os.listdir(d) if os.path.isdir(d) else ()):
                    if f.endswith('.lean') and f'{sub}/{f}' not in outputs:
                        os.remove(os.path.join(d, f))
                        changed.append(f'{sub}/{f} (removed)')
    if changed:
        chk.note('regenerated (C source changed): ' + ', '.join(sorted(changed)))
    chk.extra['cgen_generated_files'] = sorted(outputs)
    chk.extra['cgen_generated_changed'] = sorted(changed)
    return ok


def boundary_states(rng, tbl, op):
    """Every wrap point of the C integer arithmetic: PC and SP at the ends of the address space and of the ROM,
    R at the 7-bit wrap, the clock at the end of a frame / of the contended window, displacement bytes 0x7F/0x80."""
    for k in range(6):
        regs, fields, mem, ins, tracers = simcorr.rand_state(rng, tbl, op, t_bias=t_bias)
        pc = rng.choice(PC_BOUNDS)
        old = fields[0]
        code = [mem[(old + j) % 65536] for j in range(4)]
        for j in range(4):
            mem.pop((old + j) % 65536, None)
        if len(simcorr.PREFIXES[tbl]) == 2 or tbl in ('DD', 'FD'):
            code[2] = rng.choice((0x7F, 0x80, 0x00, 0xFF, code[2]))
        else:
            p = len(simcorr.PREFIXES[tbl]) + 1
            if p < 4:
                code[p] = rng.choice((0x7F, 0x80, 0x00, 0xFF, 0xFE, code[p]))
        for j, b in enumerate(code):
            mem[(pc + j) % 65536] = b
        fields[0] = pc
        regs[12] = rng.choice(SP_BOUNDS)
        for d in (-2, -1, 0, 1):
            mem.setdefault((regs[12] + d) % 65536, rng.randrange(256))
        regs[15] = rng.choice(R_BOUNDS)
        fields[1] = rng.choice((FRAME - 1, FRAME - 4, FRAME, 2 * FRAME - 2, 31, 32, 33, 14312, 14313, 14335, 57244, 57245,
                                57240, 14335 + 224 * rng.randrange(192) + rng.randrange(128), (1 << 40) + rng.randrange(FRAME)))
        if k == 0:
            regs[2] = rng.choice((0, 1, 2))           # B for DJNZ / block I/O
        if k == 1:
            regs[2], regs[3] = rng.choice(((0, 0), (0, 1), (1, 0), (0, 2)))
        yield regs, fields, mem, ins, tracers


class Mem128K:
    """The interface CSimulator expects of a 128K memory object (pagingtracer.Memory without the ROM files)."""

    def __init__(self, banks, roms, o7ffd):
        self.banks, self.roms, self.o7ffd = banks, roms, o7ffd

    def __len__(self):
        return 0x20000

    def convert(self):
        pass


class CSim128:
    """Single-step wrapper around a C simulator class on 128K paged memory.  The C object keeps its own page pointers
    and 0x7FFD latch (neither is exposed), so a new object is made per case and the pages are observed after the step
    by two probe instructions (LD A,(0xFFFF) / LD A,(0x3FFF)) that read marker bytes."""

    def __init__(self, sim_cls):
        self.sim_cls = sim_cls

    @staticmethod
    def locate(addr, o7ffd):
        q = addr // 0x4000
        if q == 0:
            return 'rom', (o7ffd >> 4) & 1
        return 'bank', (5, 2, o7ffd & 7)[q - 1]

    def step(self, regs, fields, mem, ins, tracers, o7ffd):
        banks = [bytearray(0x4000) for _ in range(8)]
        roms = [bytearray(0x4000) for _ in range(2)]
        memory = Mem128K(banks, tuple(roms), o7ffd)
        for a, v in mem.items():
            kind, n = self.locate(a, o7ffd)
            (roms if kind == 'rom' else banks)[n][a % 0x4000] = v
        before = bytes(roms[(o7ffd >> 4) & 1]) + bytes(banks[5]) + bytes(banks[2]) + bytes(banks[o7ffd & 7])
        sim = self.sim_cls(memory, None, None, {'frame_duration': 70908, 'int_active': 36})
        for i, v in enumerate(regs):
            sim.registers[i] = v
        for i, v in enumerate(fields):
            sim.registers[24 + i] = v
        tr = simcorr.Tracer(ins)
        t = simcorr.PartialTracer()
        has_in = tracers[0] or tracers[1] or tracers[2]
        if has_in:
            t.read_port = tr.read_port
        if tracers[3]:
            t.write_port = tr.write_port
        sim.set_tracer(t, bool(tracers[1]), bool(tracers[2]))
        try:
            sim.run(fields[0])
        except Exception as e:
            return f'exception {type(e).__name__}: {e}'
        r = list(sim.registers)
        after = bytes(roms[(o7ffd >> 4) & 1]) + bytes(banks[5]) + bytes(banks[2]) + bytes(banks[o7ffd & 7])
        diffs = [(a, after[a]) for a in range(65536) if after[a] != before[a]] if after != before else []
        # probes: which bank / ROM does the C object see now?
        for n in range(8):
            banks[n][0x3FFF] = n
        roms[0][0x3FFF], roms[1][0x3FFF] = 0, 1
        save = bytes(banks[2][:6])
        banks[2][:6] = bytes((0x3A, 0xFF, 0xFF, 0x3A, 0xFF, 0x3F))
        sim.run(0x8000)
        bank = sim.registers[0]
        sim.run(0x8003)
        rom = sim.registers[0]
        banks[2][:6] = save
        return (f"{' '.join(map(str, r[:24]))} ; {' '.join(map(str, r[24:30]))} ; "
                f"{' '.join(f'{p}:{v}' for p, v in tr.out_log)} ; {' '.join(map(str, tr.in_log))} ; "
                f"{' '.join(f'{a}:{v}' for a, v in diffs)} ; {bank} {rom}")


def paged(line):
    """model output line -> the same with the final 0x7FFD value reduced to what the probes observe"""
    parts = line.split(';')
    if len(parts) != 6:
        return line
    try:
        o = int(parts[5])
    except ValueError:
        return line
    parts[5] = f' {o & 7} {(o >> 4) & 1}'
    return ';'.join(parts)


def cgen_single_step(chk, CS, CC):
    rng = chk.rng
    n = chk.scale(2, 10)
    builds = (('p', 'c-plain', CS), ('c', 'c-cmio', CC))
    # ---- 48K: every slot, random + boundary + loop-counter states --------------------------------------
    wr = {tag: simcorr.CSim(cls) for tag, _, cls in builds}
    ops, outs, mems, names = [], [], [], []
    for tag, name, _ in builds:
        for tbl, op in simcorr.all_slots():
            sts = [simcorr.rand_state(rng, tbl, op, t_bias=t_bias) for _ in range(n)]
            sts += list(boundary_states(rng, tbl, op)) + list(counter_sweep(rng, tbl, op))
            for st in sts:
                st[4][0] = 1 if (st[4][0] or st[4][1] or st[4][2]) else 0
                ops.append(tag + ' ' + simcorr.op_line(*st))
                outs.append(wr[tag].step(*st))
                mems.append(st[2])
                names.append(name)
                chk.case(f'cgen:{name}:{tbl}', (name, tbl, op, tuple(st[0]), tuple(st[1])))
    model = chk.run_driver('CSimH', ops)
    if model is not None:
        model = [simcorr.final_diff(b, m) for b, m in zip(model, mems)]
        chk.compare('real C extension vs the model translated from c/csimulator.c (Drivers/CSimH, 48K)', ops,
                    [simcorr.norm(a) for a in outs], [simcorr.norm(b) for b in model])
    # ---- 128K: every slot, paged memory, random 0x7FFD history (banks 2 and 5 are never paged at 0xC000: the
    #      driver's memory is a flat address -> cell map) -------------------------------------------------
    ops, outs, mems = [], [], []
    for tag, name, cls in builds:
        w = CSim128(cls)
        for tbl, op in simcorr.all_slots():
            io = (tbl == 'MAIN' and op in (0xD3, 0xDB)) or (tbl == 'ED' and (op & 0xC7 in (0x40, 0x41) or op in (0xA2, 0xA3, 0xAA, 0xAB, 0xB2, 0xB3, 0xBA, 0xBB)))
            for k in range(chk.scale(1, 4) + (12 if io else 0)):
                st = simcorr.rand_state(rng, tbl, op, frame=70908, t_bias=t_bias)
                st[4][0] = 1 if (st[4][0] or st[4][1] or st[4][2]) else 0
                o7 = rng.choice((0, 1, 3, 4, 6, 7)) | rng.choice((0, 0x10)) | rng.choice((0, 0, 0, 0x20)) | rng.choice((0, 0x08, 0x40))
                if io:
                    # ports that do / do not decode as 0x7FFD, with and without a tracer
                    st[0][2], st[0][3] = rng.choice(((0x7F, 0xFD), (0x3F, 0xFD), (0xFF, 0xFD), (0x7F, 0xFF), (0x00, 0x00), (st[0][2], st[0][3])))
                    st[0][0] = rng.choice((0x7F, 0x3F, 0x00, st[0][0]))
                    st[2][(st[1][0] + 1) % 65536] = rng.choice((0xFD, 0xFF, 0x00, 0xFE)) if tbl == 'MAIN' else st[2].get((st[1][0] + 1) % 65536, 0)
                    if tbl == 'ED':
                        st[2][(st[1][0] + 1) % 65536] = op
                    st[4][3] = 1        # an out_tracer is attached (without one C pages and Python does not: finding)
                ops.append(tag + ' ' + simcorr.op_line(*st, frame=70908, int_active=36, t0=14361 - 23, t1=58035, is128=1, o7ffd=o7))
                outs.append(w.step(*st, o7))
                mems.append(st[2])
                chk.case(f'cgen128:{name}:{tbl}', (name, '128', tbl, op, tuple(st[0]), tuple(st[1]), o7))
    model = chk.run_driver('CSimH', ops)
    if model is not None:
        model = [paged(simcorr.final_diff(b, m)) for b, m in zip(model, mems)]
        chk.compare('real C extension vs the model translated from c/csimulator.c (Drivers/CSimH, 128K paged)', ops,
                    [simcorr.norm(a) for a in outs], [simcorr.norm(b) for b in model])


class CInt48(simcorr.CSim):
    """simcorr.CSim, calling the C `accept_interrupt` instead of executing an instruction; the return value is
    reported in the port-read field."""

    def step(self, regs, fields, mem, ins, tracers, prev_pc=0):
        memory, sim = self.memory, self.sim
        for a in self.dirty:
            memory[a] = 0
        for a, v in mem.items():
            memory[a] = v
        before = bytes(memory)
        for i, v in enumerate(regs):
            sim.registers[i] = v
        for i, v in enumerate(fields):
            sim.registers[24 + i] = v
        try:
            ret = sim.accept_interrupt(sim.registers, memory, prev_pc)
        except Exception as e:
            return f'exception {type(e).__name__}: {e}'
        after = bytes(memory)
        diffs = [(a, after[a]) for a in range(65536) if after[a] != before[a]] if after != before else []
        self.dirty = set(mem) | {a for a, _ in diffs}
        r = list(sim.registers)
        return (f"{' '.join(map(str, r[:24]))} ; {' '.join(map(str, r[24:30]))} ;  ; {int(bool(ret))} ; "
                f"{' '.join(f'{a}:{v}' for a, v in diffs)} ; 0")


def interrupt_states(rng, n):
    """(regs, fields, mem, prev_pc): previous opcode EI / DD / FD / other, directly before PC or not, IM 0-2, SP at the ROM
    and address-space boundaries, vector table anywhere."""
    for k in range(n):
        regs, fields, mem, ins, tracers = simcorr.rand_state(rng, 'MAIN', 0, t_bias=t_bias)
        pc = fields[0] = rng.choice(PC_BOUNDS + (rng.randrange(65536),) * 3)
        prev = rng.choice(((pc - 1) % 65536, (pc - 2) % 65536, (pc - 4) % 65536, rng.randrange(65536)))
        mem[prev] = rng.choice((0xFB, 0xDD, 0xFD, 0xF3, 0x00, rng.randrange(256)))
        regs[12] = rng.choice(SP_BOUNDS + (rng.randrange(65536),) * 2)
        regs[14] = rng.choice((0x00, 0x3F, 0x40, 0xFE, 0xFF, rng.randrange(256)))
        vaddr = 255 + 256 * regs[14]
        mem[vaddr] = rng.randrange(256)
        mem[(vaddr + 1) % 65536] = rng.randrange(256)
        regs[15] = rng.choice(R_BOUNDS)
        fields[3] = k % 3
        yield regs, fields, mem, prev


def cgen_interrupt(chk, CS, CC):
    """The C function accept_interrupt (both builds) vs its translation."""
    rng = chk.rng
    ops, outs, mems = [], [], []
    for tag, name, cls in (('pi', 'c-plain', CS), ('ci', 'c-cmio', CC)):
        w = CInt48(cls)
        for regs, fields, mem, prev in interrupt_states(rng, chk.scale(600, 4000)):
            ops.append(f'{tag} {prev} ' + simcorr.op_line(regs, fields, mem, [], [0, 0, 0, 0]))
            outs.append(w.step(regs, fields, mem, [], [0, 0, 0, 0], prev))
            mems.append(mem)
            chk.case(f'cgen-int:{name}', (name, 'int', fields[0], prev, regs[12], fields[3], fields[1]))
    model = chk.run_driver('CSimH', ops)
    if model is not None:
        model = [simcorr.final_diff(b, m) for b, m in zip(model, mems)]
        chk.compare('real C accept_interrupt vs the model translated from c/csimulator.c (Drivers/CSimH)', ops,
                    [simcorr.norm(a) for a in outs], [simcorr.norm(b) for b in model])


class PyInt48(simcorr.PySim):
    """simcorr.PySim, calling accept_interrupt instead of executing an instruction (same output format as CInt48)."""

    def step(self, regs, fields, mem, ins, tracers, prev_pc=0):
        memory, sim = self.memory, self.sim
        for a in self.dirty:
            list.__setitem__(memory, a, 0)
        self.dirty = set(mem)
        for a, v in mem.items():
            list.__setitem__(memory, a, v)
        memory.log = []
        sim.registers[:24] = regs
        sim.registers[24:30] = fields
        try:
            ret = sim.accept_interrupt(sim.registers, memory, prev_pc)
        except Exception as e:
            return f'exception {type(e).__name__}: {e}'
        self.dirty.update(a for a, _ in memory.log)
        final = {}
        for a, v in memory.log:
            final[a] = v
        diffs = sorted((a, v) for a, v in final.items() if mem.get(a, 0) != v)
        r = list(sim.registers)
        return (f"{' '.join(map(str, r[:24]))} ; {' '.join(map(str, r[24:30]))} ;  ; {int(bool(ret))} ; "
                f"{' '.join(f'{a}:{v}' for a, v in diffs)} ; 0")


def pairwise_interrupt(chk, classes):
    """The property itself for accept_interrupt: Python and C implementation of the same simulator, same state, same
    previous PC: identical registers, fields, return value and memory."""
    rng = chk.rng
    cls = dict(classes)
    for a, b in (('py-plain', 'c-plain'), ('py-cmio', 'c-cmio')):
        wa, wb = PyInt48(cls[a]), CInt48(cls[b])
        for regs, fields, mem, prev in interrupt_states(rng, chk.scale(600, 4000)):
            x = simcorr.norm(wa.step(regs, fields, mem, [], [0, 0, 0, 0], prev))
            y = simcorr.norm(wb.step(regs, fields, mem, [], [0, 0, 0, 0], prev))
            chk.case(f'pair-int:{a}', (a, 'int', fields[0], prev, regs[12], fields[3], fields[1]))
            if x != y:
                chk.violation(f'{a}-vs-{b}:accept_interrupt', f'{a} vs {b}: accept_interrupt(prev_pc={prev}): {x} vs {y}',
                              {'kind': 'pairint', 'pair': [a, b], 'prev': prev,
                               'state': [regs, fields, {str(k): v for k, v in mem.items()}]})


def probe_out_without_tracer(classes, pagingtracer):
    """The difference found by the proof (Props/C06 `c_out_full_false`) replayed on the real classes: 128K memory,
    no tracer, OUT (C),A to 0x7FFD then LD A,(0xC000).  -> {impl name: A}"""
    res = {}
    prog = [0x01, 0xFD, 0x7F, 0x3E, 0x03, 0xED, 0x79, 0x3A, 0x00, 0xC0]
    for name, cls in classes:
        mem = pagingtracer.Memory([[b] * 16384 for b in range(8)], 0)
        for i, b in enumerate(prog):
            mem[0x8000 + i] = b
        sim = cls(mem, {'SP': 0xFF00}, {}, {'frame_duration': 70908, 'int_active': 36})
        pc = 0x8000
        for _ in range(4):
            sim.run(pc)
            pc = sim.registers[24]
        res[name] = sim.registers[0]
    return res


# ---- the C lookup tables (filled by the untranslated init_* functions of c/csimulator.c) --------------------------
# (table of simtables.py, opcode bytes, input registers, how the entry is addressed)  A=0 F=1 B=2
TABLE_SLOTS = (
    [(t, [op], 'A,B') for t, op in (('ADD', 0x80), ('AND', 0xA0), ('CP', 0xB8), ('OR', 0xB0), ('SUB', 0x90), ('XOR', 0xA8))]
    + [(t, [op], 'A,F') for t, op in (('CPL', 0x2F), ('DAA', 0x27), ('RLA', 0x17), ('RLCA', 0x07), ('RRA', 0x1F), ('RRCA', 0x0F))]
    + [(t, [op], 'c,A,B') for t, op in (('ADC', 0x88), ('SBC', 0x98))]
    + [(t, code, 'c,B') for t, code in (('INC', [0x04]), ('DEC', [0x05]), ('RL', [0xCB, 0x10]), ('RR', [0xCB, 0x18]))]
    + [(t, [op], 'c,A=') for t, op in (('ADC_A_A', 0x8F), ('SBC_A_A', 0x9F))]
    + [(t, [0xCB, op], 'B') for t, op in (('RLC', 0x00), ('RRC', 0x08), ('SLA', 0x20), ('SRA', 0x28), ('SLL', 0x30), ('SRL', 0x38))]
    + [(t, [op], 'F,A') for t, op in (('CCF', 0x3F), ('SCF', 0x37))]
    + [('NEG', [0xED, 0x44], 'A=')]
    + [('BIT', [0xCB, 0x40 + 8 * b], f'c,{b},B') for b in range(8)]
)


def ctable_sweep(chk, classes, simtables):
    """Every entry of every C lookup table the handlers index, read back through the handler that uses it (one real C
    instruction per entry, both builds) and compared with the same entry of simtables.py (whose translation `Tbl.*`
    is what the C handler model uses in its place).  -> number of entries compared"""
    total = 0
    for name, cls in classes:
        if not name.startswith('c-'):
            continue
        sim = cls([0] * 65536)
        mem, reg = sim.memory, sim.registers
        for tname, code, how in TABLE_SLOTS:
            tbl = getattr(simtables, tname)
            for k in range(4):
                mem[0x8000 + k] = code[k] if k < len(code) else 0
            bad = None
            n = 0
            if how in ('A,B', 'A,F'):
                j = 2 if how == 'A,B' else 1
                for a in range(256):
                    row = tbl[a]
                    for b in range(256):
                        reg[0] = a
                        reg[1] = 0
                        reg[j] = b
                        sim.run(0x8000)
                        if (reg[0], reg[1]) != tuple(row[b]) and bad is None:
                            bad = ({'A': a, 'F' if j == 1 else 'B': b}, (reg[0], reg[1]), tuple(row[b]))
                    n += 256
            elif how == 'c,A,B':
                for c in range(2):
                    for a in range(256):
                        row = tbl[c][a]
                        for b in range(256):
                            reg[0] = a
                            reg[1] = c
                            reg[2] = b
                            sim.run(0x8000)
                            if (reg[0], reg[1]) != tuple(row[b]) and bad is None:
                                bad = ({'A': a, 'F': c, 'B': b}, (reg[0], reg[1]), tuple(row[b]))
                        n += 256
            elif how in ('c,B', 'c,A='):
                j = 2 if how == 'c,B' else 0
                for f in range(256):
                    row = tbl[f & 1]
                    for b in range(256):
                        reg[1] = f
                        reg[j] = b
                        sim.run(0x8000)
                        if (reg[j], reg[1]) != tuple(row[b]) and bad is None:
                            bad = ({'F': f, 'AB'[j // 2]: b}, (reg[j], reg[1]), tuple(row[b]))
                    n += 256
            elif how in ('B', 'A='):
                j = 2 if how == 'B' else 0
                for b in range(256):
                    reg[1] = 0
                    reg[j] = b
                    sim.run(0x8000)
                    if (reg[j], reg[1]) != tuple(tbl[b]) and bad is None:
                        bad = ({'AB'[j // 2]: b}, (reg[j], reg[1]), tuple(tbl[b]))
                n += 256
            elif how == 'F,A':
                for f in range(256):
                    row = tbl[f]
                    for a in range(256):
                        reg[0] = a
                        reg[1] = f
                        sim.run(0x8000)
                        if reg[1] != row[a] and bad is None:
                            bad = ({'A': a, 'F': f}, reg[1], row[a])
                    n += 256
            else:
                _, bit, _ = how.split(',')
                for f in range(256):
                    row = tbl[f & 1][int(bit)]
                    for b in range(256):
                        reg[1] = f
                        reg[2] = b
                        sim.run(0x8000)
                        if reg[1] != row[b] and bad is None:
                            bad = ({'F': f, 'B': b}, reg[1], row[b])
                    n += 256
            total += n
            chk.case(f'ctable:{name}', (name, tname, how), {'table': tname, 'entries': n} if tname in ('ADD', 'BIT') else None)
            if bad:
                chk.violation(f'{name}:table:{tname}', f'{name}: instruction {" ".join("%02X" % b for b in code)} with {bad[0]} gives {bad[1]}; '
                              f'simtables.{tname} (Python simulators) gives {bad[2]}', {'kind': 'ctable', 'impl': name, 'code': code, 'regs': bad[0]})
    chk.extra['c_table_entries_compared'] = total
    return total


def c_corollaries(chk, module, base_ok):
    """Regenerate the C handler translation from the tree under test, build and audit `module`
    (a Props/CxxC.lean file: corollaries for the C simulators of C06's c_step_eq_python / c_run_eq_python).
    Call AFTER chk.audit of the property's own Props module."""
    # Props/CxxC.lean import Props.C06, which also rests on the loop translations (harness/looprun.py)
    import looprun
    cgen_ok = (regen_cgen(chk) and looprun.regen_loops(chk)) if base_ok else False
    if base_ok and cgen_ok:
        chk.lake_build([module])
    chk.audit(module)
