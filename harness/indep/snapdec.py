"""Independent decoders for Z80 (v1/v2/v3) and ZX-State (SZX) snapshots, written from the
published format descriptions (not from skoolkit).  Returns a dict of plain values."""
import zlib


def _w(d, i):
    return d[i] + 256 * d[i + 1]


def z80_rle(data, has_end_marker):
    out = []
    i = 0
    n = len(data)
    while i < n:
        if has_end_marker and data[i:i + 4] == [0, 0xED, 0xED, 0] and i + 4 == n:
            break
        if i + 3 < n and data[i] == 0xED and data[i + 1] == 0xED:
            out.extend([data[i + 3]] * data[i + 2])
            i += 4
        else:
            out.append(data[i])
            i += 1
    return out


def decode_z80(data):
    d = list(data)
    s = {}
    s['a'], s['f'] = d[0], d[1]
    s['bc'], s['hl'] = _w(d, 2), _w(d, 4)
    pc = _w(d, 6)
    s['sp'] = _w(d, 8)
    s['i'] = d[10]
    b12 = 1 if d[12] == 255 else d[12]
    s['r'] = (d[11] & 0x7F) | ((b12 & 1) << 7)
    s['border'] = (b12 >> 1) & 7
    s['de'] = _w(d, 13)
    s['bc2'], s['de2'], s['hl2'] = _w(d, 15), _w(d, 17), _w(d, 19)
    s['a2'], s['f2'] = d[21], d[22]
    s['iy'], s['ix'] = _w(d, 23), _w(d, 25)
    s['iff1'] = 1 if d[27] else 0
    s['iff2'] = 1 if d[28] else 0
    s['im'] = d[29] & 3
    s['issue2'] = (d[29] >> 2) & 1
    banks = {}
    if pc != 0:
        s['version'] = 1
        s['pc'] = pc
        body = d[30:]
        if b12 & 32:
            # 'the block is terminated by an end marker, 00 ED ED 00'
            if body[-4:] != [0, 0xED, 0xED, 0]:
                raise ValueError('version 1 compressed RAM does not end with the end marker 00 ED ED 00')
            ram = z80_rle(body[:-4], False)
        else:
            ram = body
        if len(ram) != 49152:
            raise ValueError(f'version 1 RAM is {len(ram)} bytes (should be 49152)')
        banks[5], banks[2], banks[0] = ram[:16384], ram[16384:32768], ram[32768:49152]
        s['machine'] = '48K'
    else:
        hlen = _w(d, 30)
        s['version'] = 2 if hlen == 23 else 3
        s['pc'] = _w(d, 32)
        hw = d[34]
        mod = d[37] >> 7
        if s['version'] == 2:
            is128 = hw in (3, 4) or hw >= 7 and hw in (7, 8, 12, 13)
        else:
            is128 = hw in (4, 5, 6, 7, 8, 12, 13)
        s['machine'] = ('+2' if (mod or hw == 12) else '128K') if is128 else '48K'
        s['out7ffd'] = d[35]
        s['outfffd'] = d[38]
        s['ay'] = tuple(d[39:55])
        if s['version'] == 3:
            frame = 70908 if is128 else 69888
            q = frame // 4
            lo, hi = _w(d, 55), d[57]
            s['tstates'] = ((hi + 1) % 4) * q + (q - 1 - lo % q)
        i = 32 + hlen
        while i < len(d):
            ln = _w(d, i)
            page = d[i + 2]
            if ln == 0xFFFF:
                blk = d[i + 3:i + 3 + 16384]
                i += 3 + 16384
            else:
                blk = z80_rle(d[i + 3:i + 3 + ln], False)
                i += 3 + ln
            if len(blk) != 16384:
                raise ValueError(f'page {page} holds {len(blk)} bytes (should be 16384)')
            if is128:
                banks[page - 3] = blk
            else:
                # 48K: page 8 = 0x4000, page 4 = 0x8000, page 5 = 0xC000; name them by SZX bank numbers
                banks[{8: 5, 4: 2, 5: 0}.get(page, page + 100)] = blk
    s['banks'] = banks
    return s


def decode_szx(data):
    d = bytes(data)
    assert d[:4] == b'ZXST'
    s = {'machine': {0: '16K', 1: '48K', 2: '128K', 3: '+2'}.get(d[6], str(d[6]))}
    banks = {}
    i = 8
    while i + 8 <= len(d):
        bid = d[i:i + 4]
        ln = int.from_bytes(d[i + 4:i + 8], 'little')
        b = d[i + 8:i + 8 + ln]
        i += 8 + ln
        if bid == b'Z80R':
            s['f'], s['a'] = b[0], b[1]
            for k, name in enumerate(('bc', 'de', 'hl')):
                s[name] = _w(b, 2 + 2 * k)
            s['f2'], s['a2'] = b[8], b[9]
            for k, name in enumerate(('bc2', 'de2', 'hl2', 'ix', 'iy', 'sp', 'pc')):
                s[name] = _w(b, 10 + 2 * k)
            s['i'], s['r'], s['iff1'], s['iff2'], s['im'] = b[24], b[25], b[26], b[27], b[28]
            s['tstates'] = int.from_bytes(b[29:33], 'little')
            s['flags'] = b[34]
            s['memptr'] = _w(b, 35)
        elif bid == b'SPCR':
            s['border'], s['out7ffd'], s['outfe'] = b[0], b[1], b[3]
        elif bid == b'AY\x00\x00':
            s['outfffd'] = b[1]
            s['ay'] = tuple(b[2:18])
        elif bid == b'KEYB':
            s['issue2'] = b[0] & 1
        elif bid == b'RAMP':
            flags = _w(b, 0)
            page = b[2]
            raw = b[3:]
            banks[page] = list(zlib.decompress(raw) if flags & 1 else raw)
    s['banks'] = banks
    return s
