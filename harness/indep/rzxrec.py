"""An RZX *recorder* and an RZX/snapshot *writer*, independent of skoolkit/rzxplay.py (C20).

The recorder drives the repository's pure Python `Simulator` one instruction at a time (the property is
about recordings "made from a run of the simulator itself") but everything that makes a recording -
counting M1 fetches, logging the port values the program consumed, deciding where frames end, and the
RZX end-of-frame interrupt convention (HALT, LD A,I/R, EI + short frame, IM 0/1/2 acceptance) - is
written here from the RZX format description and `rzxplay.py --flags help`, not taken from
`process_block`.  File writers (RZX container, Z80 v1/v2/v3, ZX-State) are written from the format
documents and produce uncompressed as well as compressed variants."""
import zlib

INDEXABLE = frozenset((
    0x09, 0x19, 0x21, 0x22, 0x23, 0x24, 0x25, 0x26, 0x29, 0x2A, 0x2B, 0x2C, 0x2D, 0x2E, 0x34, 0x35, 0x36, 0x39,
    0x44, 0x45, 0x46, 0x4C, 0x4D, 0x4E, 0x54, 0x55, 0x56, 0x5C, 0x5D, 0x5E,
    *range(0x60, 0x70), 0x70, 0x71, 0x72, 0x73, 0x74, 0x75, 0x77, 0x7C, 0x7D, 0x7E,
    0x84, 0x85, 0x86, 0x8C, 0x8D, 0x8E, 0x94, 0x95, 0x96, 0x9C, 0x9D, 0x9E,
    0xA4, 0xA5, 0xA6, 0xAC, 0xAD, 0xAE, 0xB4, 0xB5, 0xB6, 0xBC, 0xBD, 0xBE,
    0xCB, 0xE1, 0xE3, 0xE5, 0xE9, 0xF9))


def m1_count(b0, b1):
    """M1 cycles of the instruction starting with bytes b0 b1 (a DD/FD prefix that does not modify the
    following opcode is an instruction on its own)."""
    if b0 in (0xCB, 0xED):
        return 2
    if b0 in (0xDD, 0xFD):
        return 2 if b1 in INDEXABLE else 1
    return 1


def classify(b0, b1):
    if b0 == 0x76:
        return 'halt'
    if b0 == 0xED and b1 in (0x57, 0x5F):
        return 'ldair'
    if b0 == 0xFB:
        return 'ei'
    return 'other'


class SimulatorMismatch(Exception):
    """The simulator did something an RZX recorder cannot record faithfully (R did not advance by the
    instruction's M1 cycles)."""


class Machine:
    """Plain description of a machine state (what a snapshot holds)."""

    def __init__(self, is128, banks, regs, pc, iff=0, im=1, border=0, out7ffd=0, outfffd=0, ay=None, outfe=0,
                 memptr=0, plus2=False):
        self.is128 = is128
        self.banks = banks          # 48K: {5,2,0} used; 128K: 0..7 ; each a list of 16384
        self.regs = list(regs)      # 24 values as in the simulators' register file (slot 12 = SP, 13 = 0)
        self.pc = pc
        self.iff = iff
        self.im = im
        self.border = border
        self.out7ffd = out7ffd
        self.outfffd = outfffd
        self.ay = list(ay or [0] * 16)
        self.outfe = outfe
        self.memptr = memptr
        self.plus2 = plus2
        self.t = 0
        self.halted = 0

    def copy(self):
        m = Machine(self.is128, {k: list(v) for k, v in self.banks.items()}, self.regs, self.pc, self.iff, self.im,
                    self.border, self.out7ffd, self.outfffd, self.ay, self.outfe, self.memptr, self.plus2)
        m.t = self.t
        m.halted = self.halted
        return m

    def ram48(self):
        return self.banks[5] + self.banks[2] + self.banks[0]

    def pair(self, hi):
        return self.regs[hi + 1] + 256 * self.regs[hi]

    def fields(self):
        r = self.regs
        return {'a': r[0], 'f': r[1], 'bc': self.pair(2), 'de': self.pair(4), 'hl': self.pair(6),
                'ix': self.pair(8), 'iy': self.pair(10), 'sp': r[12], 'i': r[14], 'r': r[15],
                'a2': r[16], 'f2': r[17], 'bc2': self.pair(18), 'de2': self.pair(20), 'hl2': self.pair(22),
                'pc': self.pc, 'iff1': self.iff, 'im': self.im}


class _Tracer:
    """What the recorder plugs into the simulator: port reads come from `source`, port writes drive
    paging / border / AY exactly as the 128K hardware description says."""

    def __init__(self, rec):
        self.rec = rec

    def read_port(self, registers, port):
        rec = self.rec
        v = rec.source(port)
        rec.frame_reads.append(v)
        return v

    def write_port(self, registers, port, value, offset=None):
        m = self.rec.mach
        if port % 2 == 0:
            m.border = value % 8
            m.outfe = value
        if m.is128 and port & 0x8002 == 0 and m.out7ffd & 0x20 == 0:
            m.out7ffd = value
            self.rec.memory.out7ffd(value)
        # AY register select / data ports (an AY chip may be attached to a 48K machine as well)
        if port & 0xC002 == 0xC000:
            m.outfffd = value
        elif port & 0xC002 == 0x8000 and m.outfffd < 16:
            m.ay[m.outfffd] = value


class Recorder:
    """Runs the simulator and logs RZX frames.

    conv: recording convention = playback flags bits 0/1 the recording is made for:
      bit 0: LD A,I / LD A,R as the last instruction of a frame with interrupts enabled gets P/V reset;
      bit 1: an interrupt after EI may be blocked, announced by making the next frame short (1 instruction).
    """

    def __init__(self, skool, mach, source, conv=0):
        simulator, simutils, pagingtracer = skool['simulator'], skool['simutils'], skool['pagingtracer']
        self.mach = mach
        self.source = source
        self.conv = conv
        if mach.is128:
            banks = [list(mach.banks[i]) for i in range(8)]
            self.memory = pagingtracer.Memory(banks, mach.out7ffd, '+2' if mach.plus2 else '128K')
            fd = simutils.FRAME_DURATIONS[1]
        else:
            rom = list(skool['rom48'])
            self.memory = rom + mach.ram48()
            fd = simutils.FRAME_DURATIONS[0]
        self.frame_duration = fd
        self.sim = simulator.Simulator(self.memory, config={'frame_duration': fd, 'int_active': 0})
        r = self.sim.registers
        r[:24] = mach.regs
        r[24], r[25], r[26], r[27], r[28], r[29] = mach.pc, mach.t, mach.iff, mach.im, 0, mach.memptr
        self.sim.set_tracer(_Tracer(self))
        self.frames = []            # (fetch, [readings])
        self.frame_reads = []
        self.steps = 0
        self.notes = []
        self.stats = {}

    # -- one instruction ---------------------------------------------------
    def step(self):
        sim, mem = self.sim, self.memory
        r = sim.registers
        pc = r[24]
        b0, b1 = mem[pc], mem[(pc + 1) % 65536]
        r0 = r[15]
        sim.run()
        self.steps += 1
        n = m1_count(b0, b1)
        if not (b0 == 0xED and b1 == 0x4F):
            # M1 cycles are what increments R: the two ways of counting must agree
            d = (r[15] - r0) % 128
            if d != n or (r[15] ^ r0) & 0x80:
                raise SimulatorMismatch(f'R increment {d} (bit 7 {r[15] >> 7}/{r0 >> 7}) vs {n} M1 cycles for {b0:02X} {b1:02X} at {pc}')
        return pc, b0, b1, n

    def accept_interrupt(self):
        """Maskable interrupt acknowledge with 0xFF on the bus (IM 0/1: RST 38, 13 T; IM 2: vector, 19 T)."""
        r, mem = self.sim.registers, self.memory
        if r[27] == 2:
            v = 255 + 256 * r[14]
            target = mem[v] + 256 * mem[(v + 1) % 65536]
            r[25] += 19
        else:
            target = 0x38
            r[25] += 13
        pc = r[24]
        for b in (pc // 256, pc % 256):
            r[12] = (r[12] - 1) % 65536
            if r[12] >= 0x4000:
                mem[r[12]] = b
        r[15] = (r[15] & 0x80) | ((r[15] + 1) & 0x7F)
        r[24] = target
        r[26] = 0
        r[28] = 0

    def end_frame(self, last, block_after_ei):
        """RZX convention at a frame boundary; `last` = classification of the last instruction (by the
        bytes it was fetched from).  Returns True if an interrupt was blocked after EI."""
        r = self.sim.registers
        r[25] = 0
        st = getattr(self, 'stats', None)
        if st is not None:
            k = f"end:{last}:{'ei' if r[26] else 'di'}:im{r[27]}"
            st[k] = st.get(k, 0) + 1
        if not r[26]:
            return False
        if last == 'halt':
            r[24] = (r[24] + 1) % 65536
            self.accept_interrupt()
        elif self.conv & 1 and last == 'ldair':
            r[1] &= 0xFB
            self.accept_interrupt()
        elif self.conv & 2 and last == 'ei' and block_after_ei:
            return True
        else:
            self.accept_interrupt()
        return False

    def _reads_back_differently(self, pc, b0, b1):
        mem = self.memory
        return classify(mem[pc], mem[(pc + 1) % 65536]) != classify(b0, b1)

    def record(self, plan, tstates=0):
        """Record one input recording block.  plan: list of frame lengths: ('n', count) = that many
        instructions, ('s', count) = up to that many but ending right after the first HALT / EI / LD A,I/R,
        ('t',) = until the frame's T-states are used up.  Returns [(fetch, [readings])]."""
        r = self.sim.registers
        r[25] = tstates
        out = []
        must_short = must_long = False
        for i, kind in enumerate(plan):
            is_last = i == len(plan) - 1
            self.frame_reads = []
            fetch = steps = 0
            want = kind[1] if kind[0] in ('n', 's', 'l') else None
            # 's': end the frame early right after HALT / EI / LD A,I / LD A,R;  'l': after LD A,I / LD A,R / HALT only
            special = ('halt', 'ei', 'ldair') if kind[0] == 's' else (('halt', 'ldair') if kind[0] == 'l' else ())
            if must_short:
                want = 1
            elif must_long and want is not None:
                want = max(want, 3)
            while True:
                pc, b0, b1, n = self.step()
                fetch += n
                steps += 1
                last = classify(b0, b1)
                if want is None:
                    done = r[25] >= self.frame_duration and not (must_long and steps < 3)
                else:
                    done = steps >= want or (last in special and not (must_long and steps < 3))
                if not done:
                    continue
                if steps >= 60000 or fetch > 65000:
                    self.unsafe = True
                    break
                if self._reads_back_differently(pc, b0, b1):
                    # the player classifies the last instruction by re-reading memory afterwards: a frame
                    # must not end on an instruction that no longer reads back as what was executed
                    if must_short:
                        self.unsafe = True
                        break
                    self.notes.append('extended:reads-back-differently')
                    continue
                if want is None and last == 'ei':
                    continue          # a real machine takes the interrupt one instruction later
                break
            block = False
            if self.conv & 2 and last == 'ei' and r[26]:
                block = True if is_last else bool(self.decide_block())
            blocked = self.end_frame(last, block)
            must_short = blocked and not is_last
            must_long = bool(self.conv & 2 and last == 'ei' and not blocked and not is_last)
            out.append((fetch, list(self.frame_reads)))
        self.frames.extend(out)
        self.sync()
        return out

    unsafe = False

    def decide_block(self):
        return True

    def sync(self):
        """Copy the simulator's state back into the Machine description."""
        m, r = self.mach, self.sim.registers
        m.regs = list(r[:24])
        m.pc, m.t, m.iff, m.im, m.halted, m.memptr = r[24], r[25], r[26], r[27], r[28], r[29]
        if m.is128:
            m.banks = {i: list(self.memory.banks[i]) for i in range(8)}
        else:
            ram = self.memory[16384:]
            m.banks = {5: ram[:16384], 2: ram[16384:32768], 0: ram[32768:]}


# ---------------------------------------------------------------------------------------------------
# file writers

def _w(v):
    return [v % 256, (v >> 8) % 256]


def _dw(v):
    return [v % 256, (v >> 8) % 256, (v >> 16) % 256, (v >> 24) % 256]


def frames_bytes(frames, use_marker=False):
    out = []
    prev = []
    for fetch, reads in frames:
        if use_marker and reads == prev:
            out += _w(fetch) + [255, 255]
        else:
            out += _w(fetch) + _w(len(reads)) + list(reads)
            prev = list(reads)
    return out


def input_block(frames, tstates=0, compress=True, use_marker=False, raw=None):
    body = bytes(frames_bytes(frames, use_marker) if raw is None else raw)
    flags = 0
    if compress:
        body = zlib.compress(body, 6)
        flags = 2
    return bytes([0x80] + _dw(18 + len(body)) + _dw(len(frames)) + [0] + _dw(tstates) + _dw(flags)) + body


def snapshot_block(data, ext, compress=True):
    body = bytes(data)
    flags = 0
    if compress:
        body = zlib.compress(body, 6)
        flags = 2
    e = [ord(c) for c in ext[:3]] + [0] * (4 - len(ext[:3]))
    return bytes([0x30] + _dw(17 + len(body)) + _dw(flags) + e + _dw(len(data))) + body


def rzx_file(blocks, creator=True):
    out = bytearray(b'RZX!' + bytes([0, 13, 0, 0, 0, 0]))
    if creator:
        out += bytes([0x10] + _dw(29)) + b'verif-rec'.ljust(20, b'\0') + bytes([1, 0, 0, 0])
    for b in blocks:
        out += b
    return bytes(out)


def z80_header30(m, version):
    f = m.fields()
    h = [f['a'], f['f']] + _w(f['bc']) + _w(f['hl']) + (_w(f['pc']) if version == 1 else [0, 0]) + _w(f['sp'])
    h += [f['i'], f['r'] & 0x7F, ((f['r'] >> 7) & 1) | ((m.border & 7) << 1)]
    h += _w(f['de']) + _w(f['bc2']) + _w(f['de2']) + _w(f['hl2']) + [f['a2'], f['f2']] + _w(f['iy']) + _w(f['ix'])
    h += [1 if m.iff else 0, 1 if m.iff else 0, m.im & 3]
    return h


def z80_snapshot(m, version=3, rle=None):
    """Z80 snapshot of a Machine, uncompressed blocks unless `rle` (an encoder) is given."""
    h = z80_header30(m, version)
    if version == 1:
        if m.is128:
            raise ValueError('v1 is 48K only')
        if rle:
            h[12] |= 0x20
            return bytes(h + list(rle(m.ram48())) + [0, 0xED, 0xED, 0])
        return bytes(h + m.ram48())
    f = m.fields()
    if version == 2:
        ext = _w(f['pc']) + [3 if m.is128 else 0, m.out7ffd if m.is128 else 0, 0, 0x80 if m.plus2 else 0, m.outfffd] + list(m.ay)
        h += _w(23) + ext
    else:
        frame = 70908 if m.is128 else 69888
        q = frame // 4
        t = frame - 1 - (m.t % frame)
        t1, t2 = t % q, t // q
        ext = _w(f['pc']) + [4 if m.is128 else 0, m.out7ffd if m.is128 else 0, 0, 0x80 if m.plus2 else 0, m.outfffd] + list(m.ay)
        ext += _w(t1) + [(2 - t2) % 4] + [0] * 28
        h += _w(54) + ext
    out = h
    pages = [(b + 3, m.banks[b]) for b in range(8)] if m.is128 else [(8, m.banks[5]), (4, m.banks[2]), (5, m.banks[0])]
    for page, data in pages:
        if rle:
            body = list(rle(data))
            out += _w(len(body)) + [page] + body
        else:
            out += [0xFF, 0xFF, page] + list(data)
    return bytes(out)


def szx_snapshot(m, compress=True):
    f = m.fields()
    out = bytearray(b'ZXST' + bytes([1, 4, (3 if m.plus2 else 2) if m.is128 else 1, 0]))

    def block(bid, data):
        out.extend(bid + bytes(_dw(len(data))) + bytes(data))

    frame = 70908 if m.is128 else 69888
    z = [f['f'], f['a']] + _w(f['bc']) + _w(f['de']) + _w(f['hl']) + [f['f2'], f['a2']] + _w(f['bc2']) + _w(f['de2']) + _w(f['hl2'])
    z += _w(f['ix']) + _w(f['iy']) + _w(f['sp']) + _w(f['pc']) + [f['i'], f['r'], 1 if m.iff else 0, 1 if m.iff else 0, m.im & 3]
    z += _dw(m.t % frame) + [0, 0] + _w(m.memptr)
    block(b'Z80R', z)
    block(b'SPCR', [m.border & 7, m.out7ffd if m.is128 else 0, 0, m.outfe, 0, 0, 0, 0])
    if m.is128 or m.outfffd or any(m.ay):
        block(b'AY\0\0', [0, m.outfffd] + list(m.ay))
    if not m.is128:
        block(b'KEYB', [0, 0, 0, 0, 0])
    for b in (range(8) if m.is128 else (5, 2, 0)):
        data = bytes(m.banks[b])
        if compress:
            block(b'RAMP', [1, 0, b] + list(zlib.compress(data, 6)))
        else:
            block(b'RAMP', [0, 0, b] + list(data))
    return bytes(out)


# ---------------------------------------------------------------------------------------------------
# independent RZX reader (for checking files written by rzxplay)

def read_rzx(data):
    """-> list of ('snap', ext, bytes) / ('input', tstates, [(fetch, [readings])]) / ('other', id)."""
    d = bytes(data)
    assert d[:4] == b'RZX!'
    i = 10
    out = []
    while i < len(d):
        bid = d[i]
        ln = int.from_bytes(d[i + 1:i + 5], 'little')
        if bid == 0x30:
            flags = int.from_bytes(d[i + 5:i + 9], 'little')
            ext = d[i + 9:i + 13].rstrip(b'\0').decode()
            body = d[i + 17:i + ln]
            if flags & 2:
                body = zlib.decompress(body)
            out.append(('snap', ext, body))
        elif bid == 0x80:
            nf = int.from_bytes(d[i + 5:i + 9], 'little')
            ts = int.from_bytes(d[i + 10:i + 14], 'little')
            flags = int.from_bytes(d[i + 14:i + 18], 'little')
            body = d[i + 18:i + ln]
            if flags & 2:
                body = zlib.decompress(body)
            frames = []
            j = 0
            prev = []
            for _ in range(nf):
                fc = body[j] + 256 * body[j + 1]
                ic = body[j + 2] + 256 * body[j + 3]
                j += 4
                if ic != 65535:
                    prev = list(body[j:j + ic])
                    j += ic
                frames.append((fc, list(prev)))
            out.append(('input', ts, frames))
        else:
            out.append(('other', bid))
        i += ln
    return out
