"""Independent statement of what an image built from Spectrum tiles must look like, written from
the ZX Spectrum display rules and the SkoolKit *documentation* (skool-macros.rst: "Masks",
"Palette", crop specification, flip/rotate) -- not from skoolkit's image code.

A tile is (attr, data[8], mask[8] | None).  A picture is a list of rows of tiles.
Colours are palette slots 0..15 (0 = transparent, 1..8 normal black..white, 9..15 bright
blue..white; bright black is black).
"""

DEFAULT_RGB = (
    (0, 254, 0),
    (0, 0, 0), (0, 0, 197), (197, 0, 0), (197, 0, 197), (0, 198, 0), (0, 198, 197), (197, 198, 0), (205, 198, 205),
    (0, 0, 255), (255, 0, 0), (255, 0, 255), (0, 255, 0), (0, 255, 255), (255, 255, 0), (255, 255, 255)
)


def slot(colour, bright):
    """Palette slot of Spectrum colour 0..7 at the given brightness."""
    if colour == 0:
        return 1
    return 8 + colour if bright else 1 + colour


def ink_paper(attr, swap=False):
    bright = attr & 64
    ink, paper = slot(attr & 7, bright), slot((attr >> 3) & 7, bright)
    if swap and attr & 128:
        ink, paper = paper, ink
    return ink, paper


def bit_rule(u, m, mask_type):
    """'I' ink, 'P' paper, 'T' transparent -- the documented truth tables."""
    if mask_type == 1:      # OR-AND
        return {(0, 0): 'P', (0, 1): 'T', (1, 0): 'P', (1, 1): 'I'}[(u, m)]
    if mask_type == 2:      # AND-OR
        return {(0, 0): 'P', (0, 1): 'T', (1, 0): 'I', (1, 1): 'I'}[(u, m)]
    return 'I' if u else 'P'


def source_pixel(tiles, X, Y, mask_type, swap=False):
    """Palette slot (0 = transparent) of the unscaled pixel (X, Y) of the tile array."""
    attr, data, mask = tiles[Y // 8][X // 8]
    u = (data[Y % 8] >> (7 - X % 8)) & 1
    if mask_type and mask:
        m = (mask[Y % 8] >> (7 - X % 8)) & 1
        r = bit_rule(u, m, mask_type)
    else:
        r = 'I' if u else 'P'
    ink, paper = ink_paper(attr, swap)
    return {'I': ink, 'P': paper, 'T': 0}[r]


def crop_rect(tiles, scale, x, y, width, height):
    """Visible rectangle (x, y, w, h) of the scaled picture for a crop specification."""
    fw, fh = 8 * scale * len(tiles[0]), 8 * scale * len(tiles)
    w = fw - x if not width else min(width, fw - x)
    h = fh - y if not height else min(height, fh - y)
    return x, y, w, h


def render(tiles, scale, rect, mask_type, swap=False):
    """Rows of palette slots for the visible rectangle."""
    x0, y0, w, h = rect
    return [[source_pixel(tiles, (x0 + x) // scale, (y0 + y) // scale, mask_type, swap) for x in range(w)]
            for y in range(h)]


def to_rgba(slots, tindex, alpha, any_transparent, rgb=DEFAULT_RGB):
    """Documented transparency rule: mask-transparent pixels are shown in the TRANSPARENT colour
    with the alpha value; `tindex` (if not 0) is the transparent colour only if the image has no
    mask-transparent bits at all."""
    out = []
    for row in slots:
        line = []
        for s in row:
            if s == 0:
                line.append(rgb[0] + (alpha,))
            elif not any_transparent and tindex and s == tindex:
                line.append(rgb[s] + (alpha,))
            else:
                line.append(rgb[s] + (255,))
        out.append(line)
    return out


# ---- documented geometry of flip / rotate on a tile array --------------------------------

def tile_bits(t):
    """8x8 matrix of (u, m) bit pairs (m None when the tile has no mask)."""
    attr, data, mask = t
    return [[((data[r] >> (7 - c)) & 1, ((mask[r] >> (7 - c)) & 1) if mask else None) for c in range(8)] for r in range(8)]


def picture_bits(tiles):
    """Matrix over the whole picture of (attr, u, m)."""
    H, W = 8 * len(tiles), 8 * len(tiles[0])
    out = []
    for Y in range(H):
        row = []
        for X in range(W):
            attr, data, mask = tiles[Y // 8][X // 8]
            u = (data[Y % 8] >> (7 - X % 8)) & 1
            m = ((mask[Y % 8] >> (7 - X % 8)) & 1) if mask else None
            row.append((attr, u, m))
        out.append(row)
    return out


def flip_matrix(mx, flip):
    if flip & 1:
        mx = [row[::-1] for row in mx]
    if flip & 2:
        mx = mx[::-1]
    return mx


def rotate_matrix(mx, rotate):
    for _ in range(rotate & 3):
        H, W = len(mx), len(mx[0])
        mx = [[mx[H - 1 - c][r] for c in range(H)] for r in range(W)]   # 90 degrees clockwise
    return mx


def matrix_to_tiles(mx):
    H, W = len(mx) // 8, len(mx[0]) // 8
    tiles = []
    for ty in range(H):
        row = []
        for tx in range(W):
            attr = mx[8 * ty][8 * tx][0]
            data, mask = [], []
            has_mask = mx[8 * ty][8 * tx][2] is not None
            for r in range(8):
                d = m = 0
                for c in range(8):
                    a, u, mm = mx[8 * ty + r][8 * tx + c]
                    d = d * 2 + u
                    m = m * 2 + (mm or 0)
                data.append(d)
                mask.append(m)
            row.append((attr, data, mask if has_mask else None))
        tiles.append(row)
    return tiles
