"""Independent side of the C18 end-to-end checks (no skoolkit imports).

* a generator of *annotated entry specifications* (plain dicts/lists, JSON-able) and of the
  skool-file / control-file text that expresses them, following the skool file format
  documentation (sphinx/source/skool-files.rst: entry header sections, '.' paragraph separators,
  register lines, instruction comments, the rules for braces in comments);
* parsers of what the tools emit (skool2asm output, skool2html entry pages, sna2skool output)
  back into the same shape, so that word sequences can be compared.

Words are compared after splitting on white space: wrapping may only change white space."""
import html.parser
import re

# ---------------------------------------------------------------------------------------------
# generation

# punctuation that has no meaning to the parsers in the positions we use it ('#' starts a macro and
# is never generated; braces are injected separately, under the documented rules)
LETTERS = 'abcdefghijklmnopqrstuvwxyzABCDEFGHIJKLMNOPQRSTUVWXYZ'
PUNCT = ".,:!?'()-_/*+=[]%$^~|"
OPS_CODE = [('NOP', 0x00), ('LD A,B', 0x78), ('LD (HL),A', 0x77), ('XOR A', 0xAF), ('INC HL', 0x23),
            ('RET', 0xC9), ('EX DE,HL', 0xEB), ('ADD A,(HL)', 0x86), ('LD SP,HL', 0xF9), ('EXX', 0xD9)]


DOT_WORDS = ('.25', '...more', '..', '...', '.x', '.a.b', '....', '.,', '..z')
SEMI_WORDS = (';x', ';', ';;', ';note:', ';.')       # ';' opens a comment only once per line: later ones are text


def gen_word(rng, n, braces=False, dots=False):
    if dots and rng.random() < 0.07:
        # a word that starts with a dot (or consists of two or more dots): text like any other, wherever it stands.
        # Only a line holding nothing but a single '.' is a paragraph separator, and only the first '.' of a
        # register continuation line is its marker
        return rng.choice(DOT_WORDS)
    if dots and rng.random() < 0.03:
        return rng.choice(SEMI_WORDS)
    w = []
    for i in range(n):
        r = rng.random()
        if braces and r < 0.15:
            w.append(rng.choice('{}'))
        elif r < 0.25:
            w.append(rng.choice(PUNCT))
        else:
            w.append(rng.choice(LETTERS))
    s = ''.join(w)
    if s.strip('.') == '':           # a line consisting of '.' is a paragraph separator
        s = 'a' + s[1:]
    if s[0] in '.@':                 # dot-leading words come from DOT_WORDS only (see above)
        s = 'x' + s[1:]
    if dots and rng.random() < 0.06:
        s += rng.choice(('.', '...', '.)', ';', ':'))       # sentence ends
    return s


def gen_words(rng, count, widths, braces=False, dots=False):
    out = []
    for _ in range(count):
        n = rng.choice(widths)
        out.append(gen_word(rng, max(1, n), braces, dots))
    return out


def split_lines(rng, words, max_lines=4, first_nonempty=True):
    """Distribute words over 1..max_lines source lines (each non-empty)."""
    if not words:
        return []
    k = min(len(words), rng.randint(1, max_lines))
    cuts = sorted(rng.sample(range(1, len(words)), k - 1)) if k > 1 else []
    lines, prev = [], 0
    for c in cuts + [len(words)]:
        lines.append(words[prev:c])
        prev = c
    return lines


def join_words(rng, words):
    """Join the words of one source line; sometimes with runs of spaces (white space is free)."""
    if rng.random() < 0.15:
        return ''.join(w + ' ' * rng.choice((1, 1, 2, 3)) for w in words).rstrip()
    return ' '.join(words)


def brace_encode(per_instr):
    """per_instr: for each instruction of a group, the list of its comment source lines (each a
    list of words; the first line sits on the instruction line).  Returns the same structure as
    lists of strings, with the opening/closing braces required by the rules in skool-files.rst
    ('Braces in comments'):  the comment ends at the instruction where #closing >= #opening;
    adjacent opening braces at the start and adjacent closing braces at the end are removed."""
    texts = [' '.join(' '.join(l) for l in lines) for lines in per_instr]
    full = ' '.join(t for t in texts if t).strip()
    n = len(per_instr)
    out = [[' '.join(l) for l in lines] for lines in per_instr]
    if n == 1 and not full.startswith('{'):
        return out                      # taken verbatim
    bal, worst = 0, 0
    for t in texts[:-1]:
        bal += t.count('{') - t.count('}')
        worst = min(worst, bal)
    k = max(1, 1 - worst)
    total = bal + texts[-1].count('{') - texts[-1].count('}')
    m = max(1, k + total)
    # first line of the first instruction / last line of the last instruction
    first = out[0][0]
    out[0][0] = '{' * k + (' ' if first.startswith('{') else '') + first
    last = out[-1][-1]
    out[-1][-1] = last + (' ' if last.endswith('}') else '') + '}' * m
    return out


def gen_spec(rng, n_entries=3, cfg=None, one_byte_ops=False, long_word_in_comment_line=False, long_words=False,
             contiguous=False, dots=True):
    """A random annotated disassembly. `cfg` keys: line_width, instr_width, indent, tab, crlf, min_cw."""
    cfg = dict(cfg or {})
    lw = cfg.setdefault('line_width', 79)
    iw = cfg.setdefault('instr_width', 23)
    ind = 8 if cfg.setdefault('tab', 0) else cfg.setdefault('indent', 2)
    cfg.setdefault('indent', 2)
    cfg.setdefault('crlf', 0)
    mcw = cfg.setdefault('min_cw', 10)
    cw = max(lw - 3 - iw - ind, mcw)
    dw = lw - 2
    short = (1, 2, 3, 4, 5, 7, 9)
    cwidths = short * 3 + (cw - 1, cw, cw + 1)
    dwidths = short * 4 + (dw - 1, dw, dw // 2) + ((dw + 1, dw + 9) if long_words else ())
    rwidths = short * 4 + (dw // 2,) + ((dw - 1, dw) if long_words else ())
    addr = rng.choice((24576, 32768, 40000, 49152, 65000))
    entries = []
    label_no = 0
    for e in range(n_entries):
        ent = {'ctl': 'c', 'addr': addr}
        ent['title'] = split_lines(rng, gen_words(rng, rng.randint(1, 12), dwidths, dots=dots), 2)
        ent['details'] = [split_lines(rng, gen_words(rng, rng.randint(1, 25), dwidths, dots=dots), 4)
                          for _ in range(rng.choice((0, 0, 1, 2, 3)))]
        regs = []
        for _ in range(rng.choice((0, 0, 1, 2, 4))):
            prefix = rng.choice(('', '', 'Input', 'Output', 'I', 'O', 'In'))
            name = rng.choice(('A', 'B', 'HL', 'DE', 'BC', "A'", 'IX', 'abc'))
            delim = ''
            if rng.random() < 0.25:
                # delimited register name: any text between two equal non-alphanumeric characters
                # or a bracket pair; the delimiters are not rendered
                delim = rng.choice(('()', '[]', '//', '||', '""'))
                name = rng.choice(('B, D', '(HL)', 'HL and DE', 'A', 'x y z'))
            desc = split_lines(rng, gen_words(rng, rng.randint(0, 14), rwidths, dots=dots), 3)
            regs.append({'prefix': prefix, 'name': name, 'delim': delim, 'desc': desc})
        ent['registers'] = regs
        ent['start'] = [split_lines(rng, gen_words(rng, rng.randint(1, 12), dwidths, dots=dots), 3)
                        for _ in range(rng.choice((0, 0, 0, 1, 2)))]
        groups = []
        for g in range(rng.randint(1, 5)):
            n = rng.choice((1, 1, 1, 2, 2, 3, 5))
            instrs = []
            for j in range(n):
                if one_byte_ops:
                    op = rng.choice(OPS_CODE)[0]
                else:
                    op = rng.choice([o for o, _ in OPS_CODE] + ['DEFB 1,2,3', 'DEFM "abc"', 'DEFW 12345',
                                                                'LD A,(IX+1)', 'DEFB ' + ','.join(['0'] * rng.choice((4, 8, 12, 16)))])
                label = None
                if rng.random() < 0.12:
                    label_no += 1
                    label = 'L%d' % label_no
                instrs.append({'addr': addr, 'op': op, 'label': label})
                addr += 1
            nwords = rng.choice((0, 0, 1, 2, 3, 6, 10, 18, 30))
            braces = rng.random() < 0.3
            words = gen_words(rng, nwords, cwidths, braces, dots)
            if n == 1 and words and words[0].startswith(';'):
                words[0] = 'x' + words[0]
            if len(words) == 1 and words[0].strip('.') == '':
                # a multi-instruction comment made only of dots has its own encoding in control files
                # (control-files.rst: another dot is prefixed); not generated
                words[0] = 'x' + words[0]
            # distribute over instructions then over source lines
            per_instr = []
            if words:
                k = min(n, len(words))
                cuts = sorted(rng.sample(range(1, len(words)), k - 1)) if k > 1 else []
                parts, prev = [], 0
                for c in cuts + [len(words)]:
                    parts.append(words[prev:c])
                    prev = c
                # the first and the last instruction get text; instructions in between may get none
                slots = [[] for _ in range(n)]
                if k == 1:
                    slots[0] = parts[0]
                else:
                    idx = [0] + sorted(rng.sample(range(1, n - 1), k - 2)) + [n - 1] if n > 2 else [0, n - 1]
                    for i_, p in zip(idx, parts):
                        slots[i_] = p
                for s in slots:
                    per_instr.append(split_lines(rng, s, 3) or [[]])
            else:
                per_instr = [[[]] for _ in range(n)]
            mid = []
            if g > 0 and rng.random() < 0.3:
                mid = [split_lines(rng, gen_words(rng, rng.randint(1, 12), dwidths, dots=dots), 3)
                       for _ in range(rng.choice((1, 1, 2)))]
            groups.append({'instrs': instrs, 'lines': per_instr, 'mid': mid})
        ent['groups'] = groups
        ent['end'] = [split_lines(rng, gen_words(rng, rng.randint(1, 12), dwidths, dots=dots), 3)
                      for _ in range(rng.choice((0, 0, 1, 2)))]
        entries.append(ent)
        addr += 0 if contiguous else rng.choice((0, 0, 3))
    if long_word_in_comment_line:
        # deterministic instance of the class "unbreakable word in a non-instruction comment line"
        entries[0]['title'] = [['Routine', 'w' * (dw + 5), 'here']]
    return {'cfg': cfg, 'entries': entries}


def reg_heads(ent, delimiters=False):
    res = []
    for r in ent['registers']:
        h = (r['prefix'] + ':' if r['prefix'] else '') + r['name']
        if delimiters and r.get('delim'):
            h = r['delim'][0] + h + r['delim'][1]
        res.append(h)
        res.append(r['name'])
    return sorted(set(res), key=len, reverse=True)


def comment_text_portion(line, heads):
    """The part of a comment line that wrapping controls: the text after '; ', after the
    register name column of a register line, or after the '.' of a continuation line."""
    t = line[1:].strip()
    if t.startswith('. ') or t == '.':
        return t[1:].strip()
    for h in heads:
        if t.startswith(h + ' '):
            return t[len(h):].strip()
    return t


def mixed_eol(text, cfg):
    """Number of bare LF terminators in a CRLF output."""
    if not cfg['crlf']:
        return 0
    return text.count('\n') - text.count('\r\n')


def flat(lines):
    return [w for l in lines for w in l]


def para_words(paragraphs):
    return [w for p in paragraphs for w in flat(p)]


def skool_text(rng, spec, set_directives=True):
    """The skool file expressing `spec`."""
    cfg = spec['cfg']
    out = ['@start']
    if set_directives:
        out += ['@set-line-width=%d' % cfg['line_width'], '@set-instruction-width=%d' % cfg['instr_width'],
                '@set-indent=%d' % cfg['indent'], '@set-tab=%d' % cfg['tab'], '@set-crlf=%d' % cfg['crlf'],
                '@set-comment-width-min=%d' % cfg['min_cw']]

    def sec():
        # an empty comment line separates the sections; trailing white space is not content
        return rng.choice((';', ';', ';', '; ', ';  ', ';\t'))

    def dot():
        # a comment line holding a single dot (white space around it is free)
        return rng.choice(('; .', '; .', '; .', ';.', '; . ', ';  .', ';\t.'))

    def comment_lines(lines):
        return ['; ' + join_words(rng, l) for l in lines]

    def paragraphs(ps):
        res = []
        for i, p in enumerate(ps):
            if i:
                res.append(dot())
            res += comment_lines(p)
        return res

    for ent in spec['entries']:
        out += comment_lines(ent['title'])
        need_details = ent['details'] or ent['registers'] or ent['start']
        if need_details:
            out.append(sec())
            out += paragraphs(ent['details']) if ent['details'] else [dot()]
        if ent['registers'] or ent['start']:
            out.append(sec())
            if ent['registers']:
                for r in ent['registers']:
                    head = (r['prefix'] + ':' if r['prefix'] else '') + r['name']
                    if r.get('delim'):
                        head = r['delim'][0] + head + r['delim'][1]
                    lines = r['desc'] or [[]]
                    out.append(('; ' + head + ' ' + join_words(rng, lines[0])).rstrip())
                    for l in lines[1:]:
                        out.append('; .' + rng.choice(('', ' ', '  ')) + join_words(rng, l))
            else:
                out.append(dot())
        if ent['start']:
            out.append(sec())
            out += paragraphs(ent['start'])
        first = True
        for g in ent['groups']:
            if g['mid']:
                out += paragraphs(g['mid'])
            enc = brace_encode(g['lines'])
            for ins, lines in zip(g['instrs'], enc):
                if ins['label']:
                    out.append('@label=' + ins['label'])
                ctl = ent['ctl'] if first else ' '
                first = False
                line = '%s%05d %s' % (ctl, ins['addr'], ins['op'])
                pad = ' ' * rng.choice((0, 1, 4, 12))
                if lines[0] or len(lines) > 1:
                    line = line + pad + ' ; ' + lines[0]
                out.append(line.rstrip())
                for l in lines[1:]:
                    out.append(' ' * rng.choice((1, 7, 20)) + '; ' + l)
        out += paragraphs(ent['end'])
        out.append('')
    return '\n'.join(out) + '\n'


def group_words(g):
    return [w for lines in g['lines'] for w in flat(lines)]


# ---------------------------------------------------------------------------------------------
# skool2asm output

def parse_asm(text, spec):
    """Split skool2asm's stdout into per-entry structures:
    {'header': [comment texts], 'rows': [(kind, ...)], ...}.  Returns (entries, problems)."""
    cfg = spec['cfg']
    eol = '\r\n' if cfg['crlf'] else '\n'
    problems = []
    if not text.endswith(eol):
        problems.append(('asm-eol', 'output does not end with the configured line terminator'))
    # universal newlines: a line ends at CRLF or LF (mixed terminators are reported as a note by
    # the caller through `mixed_eol`)
    lines = text.replace('\r\n', '\n').split('\n')
    if lines and lines[-1] == '':
        lines.pop()
    for l in lines:
        if '\r' in l:
            problems.append(('asm-eol', 'stray carriage return inside %r' % l[:60]))
    blocks, cur = [], []
    for l in lines:
        if l == '':
            if cur:
                blocks.append(cur)
            cur = []
        else:
            cur.append(l)
    if cur:
        blocks.append(cur)
    # drop ORG blocks
    blocks = [b for b in blocks if not (len(b) == 1 and b[0].strip().upper().startswith('ORG '))]
    return blocks, problems


def check_asm_entry(block, ent, cfg, warned):
    """Compare one entry's output block with its specification.  Returns a list of (key, desc).
    `warned`: list of lines skool2asm warned about ('Line is N characters long'); consumed."""
    fails = []
    labels = {ins['label'] + ':' for g in ent['groups'] for ins in g['instrs'] if ins['label']}
    items = []       # ('c', text) | ('l', label) | ('i', op, text, rawline)
    for l in block:
        if l.startswith(';'):
            items.append(('c', l[1:].strip(), l))
        elif l in labels:
            items.append(('l', l[:-1], l))
        else:
            k = l.find(' ;')
            if k < 0:
                items.append(('i', l.strip(), '', l, False))
            else:
                items.append(('i', l[:k].strip(), l[k + 2:].strip(), l, True))
    pos = 0

    def take_comments():
        nonlocal pos
        res = []
        while pos < len(items) and items[pos][0] == 'c':
            res.append(items[pos][1])
            pos += 1
        return res

    def words(texts):
        return [w for t in texts for w in t.split()]

    # header: title, details, registers, start comment
    header = take_comments()
    exp = flat(ent['title']) + para_words(ent['details'])
    for r in ent['registers']:
        exp += ((r['prefix'] + ':' if r['prefix'] else '') + r['name']).split() + flat(r['desc'])
    exp += para_words(ent['start'])
    if words(header) != exp:
        fails.append(('asm-header-words', 'entry %d: header words differ: expected %r, got %r' % (ent['addr'], exp[:40], words(header)[:40])))
    for gi, g in enumerate(ent['groups']):
        if gi > 0:
            mid = take_comments()
            if words(mid) != para_words(g['mid']):
                fails.append(('asm-midblock-words', 'entry %d group %d: mid-block comment words differ: expected %r got %r'
                              % (ent['addr'], gi, para_words(g['mid'])[:30], words(mid)[:30])))
        got_words = []
        for j, ins in enumerate(g['instrs']):
            if ins['label']:
                if pos < len(items) and items[pos][0] == 'l' and items[pos][1] == ins['label']:
                    pos += 1
                else:
                    fails.append(('asm-label', 'entry %d: label %s missing before %s' % (ent['addr'], ins['label'], ins['op'])))
            if pos >= len(items) or items[pos][0] != 'i' or items[pos][1] != ins['op']:
                got = items[pos][1:3] if pos < len(items) else None
                fails.append(('asm-instruction', 'entry %d: expected instruction %r, got %r' % (ent['addr'], ins['op'], got)))
                return fails
            got_words += items[pos][2].split()
            pos += 1
        # continuation rows (blank operation field)
        while pos < len(items) and items[pos][0] == 'i' and items[pos][1] == '':
            got_words += items[pos][2].split()
            pos += 1
        if got_words != group_words(g):
            fails.append(('asm-comment-words', 'entry %d group %d (%d instr): comment words differ: expected %r got %r'
                          % (ent['addr'], gi, len(g['instrs']), group_words(g)[:30], got_words[:30])))
    end = take_comments()
    if words(end) != para_words(ent['end']):
        fails.append(('asm-end-words', 'entry %d: end comment words differ: expected %r got %r' % (ent['addr'], para_words(ent['end'])[:30], words(end)[:30])))
    if pos != len(items):
        fails.append(('asm-extra-lines', 'entry %d: unexpected extra output %r' % (ent['addr'], items[pos][-1][:60])))
    return fails


def asm_width_check(blocks, spec, warned_lines):
    """Line-width clause.  Returns (fails, notes): fails = [(key, desc)].
    An over-wide line is legitimate only if what makes it over-wide cannot be broken: a comment
    line / row whose text is a single word, or a row whose instruction field leaves less than the
    minimum comment width.  skool2asm must warn about every over-wide line and about nothing else."""
    cfg = spec['cfg']
    lw = cfg['line_width']
    ind = 8 if cfg['tab'] else cfg['indent']
    fails, notes = [], []
    warned = list(warned_lines)
    for block, ent in zip(blocks, spec['entries']):
        labels = {ins['label'] + ':' for g in ent['groups'] for ins in g['instrs'] if ins['label']}
        # first lines of registers: '; <head> <text>' - the text column is what wrapping controls
        heads = reg_heads(ent)
        # group widths, by operation
        row_group = []
        for g in ent['groups']:
            giw = max([len(i['op']) for i in g['instrs']] + [cfg['instr_width']])
            row_group.append((g, giw))
        gidx = -1
        seen_in_group = 0
        for l in block:
            over = len(l) > lw
            if l.startswith(';'):
                if over:
                    single = len(comment_text_portion(l, heads).split()) <= 1
                    if not single:
                        fails.append(('asm-comment-line-too-wide', 'comment line of %d chars (width %d) with breakable text: %r' % (len(l), lw, l[:100])))
                    elif l in warned:
                        warned.remove(l)
                    else:
                        fails.append(('asm-overlong-comment-line-no-warning',
                                      'comment line of %d chars exceeds line width %d because of an unbreakable word, and skool2asm does not warn: %r' % (len(l), lw, l[:100])))
                continue
            if l in labels:
                continue
            k = l.find(' ;')
            op = (l if k < 0 else l[:k]).strip()
            text = '' if k < 0 else l[k + 2:].strip()
            if op:
                if gidx < 0 or seen_in_group >= len(row_group[gidx][0]['instrs']):
                    gidx += 1
                    seen_in_group = 0
                seen_in_group += 1
            g, giw = row_group[max(gidx, 0)]
            cw = lw - 3 - giw - ind
            if over:
                legit = (len(text.split()) <= 1) or cw < cfg['min_cw']
                if not legit:
                    fails.append(('asm-row-too-wide', 'instruction row of %d chars (width %d) although its comment is breakable and the comment width %d is not below the minimum: %r'
                                  % (len(l), lw, cw, l[:120])))
                if l in warned:
                    warned.remove(l)
                else:
                    fails.append(('asm-row-no-warning', 'over-wide instruction row (%d > %d) without "Line is ... long" warning: %r' % (len(l), lw, l[:120])))
            elif cfg['tab'] and len(l) + 7 > lw:
                notes.append('tab=1: a row that is wider than the line width when the tab is expanded to 8 columns (but not in characters) gets no warning')
    for l in warned:
        fails.append(('asm-spurious-warning', 'warning "Line is %d characters long" for a line that is not over-wide or not emitted: %r' % (len(l), l[:100])))
    return fails, notes


# ---------------------------------------------------------------------------------------------
# skool2html entry pages

class _AsmPage(html.parser.HTMLParser):
    """Collects (class, rowspan, text) of the annotated cells of an entry page, in document order."""
    WANT = {('div', 'description'), ('div', 'paragraph'), ('td', 'register'), ('td', 'register-desc'),
            ('td', 'asm-label'), ('td', 'instruction')}

    def __init__(self):
        super().__init__(convert_charrefs=True)
        self.cells = []
        self.stack = []
        self.context = []    # enclosing div classes (details / comments)
        self.regtable = None

    def handle_starttag(self, tag, attrs):
        a = dict(attrs)
        cls = a.get('class', '')
        if tag == 'div' and cls in ('details', 'comments'):
            self.context.append(cls)
            self.stack.append((tag, None))
            return
        if tag == 'table' and cls in ('input', 'output'):
            self.regtable = cls
        want = (tag, cls) in self.WANT or (tag == 'td' and (cls.startswith('comment-') or cls.startswith('address-')))
        if want:
            cell = [cls, a.get('rowspan'), [], self.context[-1] if self.context else None]
            if cls in ('register', 'register-desc'):
                cell[3] = self.regtable          # which of the two register tables the cell is in
            self.cells.append(cell)
            self.stack.append((tag, cell))
        elif tag in ('div', 'td'):
            self.stack.append((tag, None))

    def handle_endtag(self, tag):
        if tag == 'table':
            self.regtable = None
        if tag in ('div', 'td'):
            while self.stack:
                t, cell = self.stack.pop()
                if t == tag:
                    break
            if tag == 'div' and cell is None and self.context and not any(c for t, c in self.stack if t == 'div' and c is None and False):
                pass
        if tag == 'div':
            # leaving a details/comments container: recompute from the stack
            depth = sum(1 for t, c in self.stack if t == 'div' and c is None)
            while len(self.context) > depth:
                self.context.pop()

    def handle_data(self, data):
        for t, cell in reversed(self.stack):
            if cell is not None:
                cell[2].append(data)
                break


def parse_html_entry(page):
    p = _AsmPage()
    p.feed(page)
    return [(c[0], c[1], ''.join(c[2]), c[3]) for c in p.cells]


def check_html_entry(cells, ent):
    fails = []
    pos = 0
    a = ent['addr']

    def w(s):
        return s.split()
    # title
    if not cells or cells[0][0] != 'description':
        return [('html-structure', 'entry %d: no description div' % a)]
    title = w(cells[0][2])
    if title[:1] != ['%d:' % a] or title[1:] != flat(ent['title']):
        fails.append(('html-title-words', 'entry %d: title words differ: expected %r got %r' % (a, flat(ent['title'])[:30], title[:31])))
    pos = 1
    # details paragraphs
    det = []
    while pos < len(cells) and cells[pos][0] == 'paragraph' and cells[pos][3] == 'details':
        det.append(w(cells[pos][2]))
        pos += 1
    exp = [flat(p) for p in ent['details']]
    if det != exp:
        fails.append(('html-details-words', 'entry %d: description paragraphs differ: expected %r got %r' % (a, exp[:4], det[:4])))
    # registers (inputs then outputs)
    regs = []
    while pos + 1 < len(cells) and cells[pos][0] == 'register':
        regs.append((w(cells[pos][2]), w(cells[pos + 1][2]), cells[pos][3]))
        pos += 2
    mode = 'I'
    ins_, outs_ = [], []
    for r in ent['registers']:
        if r['prefix']:
            mode = r['prefix'].upper()[0]
        (outs_ if mode == 'O' else ins_).append((r['name'].split(), flat(r['desc']), 'output' if mode == 'O' else 'input'))
    if [r[:2] for r in regs] != [r[:2] for r in ins_ + outs_]:
        fails.append(('html-register-words', 'entry %d: registers differ: expected %r got %r' % (a, (ins_ + outs_)[:4], regs[:4])))
    elif regs != ins_ + outs_:
        # input values and output values are shown in separate tables (prefix beginning with 'O' = output; no prefix =
        # same table as the previous register)
        fails.append(('html-register-table', 'entry %d: register in the wrong table (input/output): expected %r got %r'
                      % (a, [(r[0], r[2]) for r in ins_ + outs_][:6], [(r[0], r[2]) for r in regs][:6])))
    # instructions
    first = True
    for gi, g in enumerate(ent['groups']):
        exp_mid = [flat(p) for p in (ent['start'] if first else g['mid'])]
        first = False
        mid = []
        while pos < len(cells) and cells[pos][0] == 'paragraph' and cells[pos][3] == 'comments':
            mid.append(w(cells[pos][2]))
            pos += 1
        if mid != exp_mid:
            fails.append(('html-midblock-words', 'entry %d group %d: mid-block paragraphs differ: expected %r got %r' % (a, gi, exp_mid[:3], mid[:3])))
        for j, ins in enumerate(g['instrs']):
            if pos < len(cells) and cells[pos][0] == 'asm-label':
                if w(cells[pos][2]) != ([ins['label']] if ins['label'] else []):
                    fails.append(('html-label', 'entry %d: label cell %r for %s, expected %r' % (a, cells[pos][2], ins['op'], ins['label'])))
                pos += 1
            if pos + 1 >= len(cells) or not cells[pos][0].startswith('address-') or cells[pos + 1][0] != 'instruction':
                fails.append(('html-structure', 'entry %d: instruction row missing for %s' % (a, ins['op'])))
                return fails
            if w(cells[pos][2]) != [str(ins['addr'])] or w(cells[pos + 1][2]) != ins['op'].split():
                fails.append(('html-instruction', 'entry %d: expected %d %s, got %r %r' % (a, ins['addr'], ins['op'], cells[pos][2], cells[pos + 1][2])))
            pos += 2
            if j == 0:
                if pos >= len(cells) or not cells[pos][0].startswith('comment-'):
                    fails.append(('html-structure', 'entry %d: comment cell missing at %d' % (a, ins['addr'])))
                    return fails
                if cells[pos][1] != str(len(g['instrs'])):
                    fails.append(('html-rowspan', 'entry %d: comment at %d has rowspan %s, expected %d' % (a, ins['addr'], cells[pos][1], len(g['instrs']))))
                if w(cells[pos][2]) != group_words(g):
                    fails.append(('html-comment-words', 'entry %d: comment at %d differs: expected %r got %r' % (a, ins['addr'], group_words(g)[:30], w(cells[pos][2])[:30])))
                pos += 1
    end = []
    while pos < len(cells) and cells[pos][0] == 'paragraph' and cells[pos][3] == 'comments':
        end.append(w(cells[pos][2]))
        pos += 1
    if end != [flat(p) for p in ent['end']]:
        fails.append(('html-end-words', 'entry %d: end comment differs: expected %r got %r' % (a, [flat(p) for p in ent['end']][:3], end[:3])))
    if pos != len(cells):
        fails.append(('html-extra', 'entry %d: unexpected extra cell %r' % (a, cells[pos][:3])))
    return fails


# ---------------------------------------------------------------------------------------------
# control files and sna2skool output

def pack_lines(words, width):
    """Greedy packing of words into lines of at most `width` characters (a longer word gets a line of its own)."""
    lines, cur = [], ''
    for w in words:
        if cur and len(cur) + 1 + len(w) > width:
            lines.append(cur)
            cur = w
        else:
            cur = cur + ' ' + w if cur else w
    if cur:
        lines.append(cur)
    return lines


def ctl_text(spec, rng=None):
    """Control file expressing `spec` (entries with one-byte instructions).  With `rng`, some comments are written
    with dot directives (control-files.rst, 'The dot and colon directives'): the text of a D/N/E directive, or of a C
    directive (one '.' line per instruction, further lines of the same instruction with ':'), is given on the lines
    that follow it and is copied line by line instead of being wrapped."""
    out = []
    lw = spec['cfg'].get('line_width', 79)

    def dotted(words):
        # lines short enough to fit whatever sna2skool puts in front of them
        return rng is not None and words and rng.random() < 0.25

    def para(d, a, p):
        words = flat(p)
        if dotted(words):
            out.append('%s %05d' % (d, a))
            for l in pack_lines(words, rng.choice((20, 40, lw - 3))):
                out.append('. ' + l)
        else:
            out.append('%s %05d %s' % (d, a, ' '.join(words)))
    for ent in spec['entries']:
        a = ent['addr']
        out.append('%s %05d %s' % (ent['ctl'], a, ' '.join(flat(ent['title']))))
        for p in ent['details']:
            para('D', a, p)
        for r in ent['registers']:
            head = (r['prefix'] + ':' if r['prefix'] else '') + r['name']
            if r.get('delim'):
                head = r['delim'][0] + head + r['delim'][1]
            out.append(('R %05d %s %s' % (a, head, ' '.join(flat(r['desc'])))).rstrip())
        first = True
        for g in ent['groups']:
            ga = g['instrs'][0]['addr']
            for p in (ent['start'] if first else g['mid']):
                para('N', ga, p)
            first = False
            words = group_words(g)
            per = [flat(ls) for ls in g['lines']]
            if dotted(words) and all(per) and not any('{' in w or '}' in w for w in words) \
                    and not (len(words) == 1 and words[0].strip('.') == ''):
                # one '.' line per instruction (the instruction's first line), ':' for its further lines
                out.append('C %05d,%d' % (ga, len(g['instrs'])))
                cw = max(10, lw - 40)
                for ws in per:
                    for i, l in enumerate(pack_lines(ws, cw)):
                        out.append(('. ' if i == 0 else ': ') + l)
            else:
                out.append(('C %05d,%d %s' % (ga, len(g['instrs']), ' '.join(words))).rstrip())
        for p in ent['end']:
            para('E', a, p)
    last = spec['entries'][-1]
    end = last['groups'][-1]['instrs'][-1]['addr'] + 1
    out.append('i %05d' % end)
    return '\n'.join(out) + '\n', end


def code_bytes(spec):
    """(origin, bytes) for a spec generated with one_byte_ops=True (gaps filled with NOPs are not
    allowed: entries must be contiguous)."""
    opmap = dict(OPS_CODE)
    org = spec['entries'][0]['addr']
    data = []
    for ent in spec['entries']:
        for g in ent['groups']:
            for ins in g['instrs']:
                assert ins['addr'] == org + len(data), 'non-contiguous spec'
                data.append(opmap[ins['op']])
    return org, bytes(data)


def strip_braces(lines):
    """The documented rules: adjacent opening braces at the start and adjacent closing braces at
    the end of a multi-instruction comment are removed (one separating space goes with them)."""
    lines = list(lines)
    if not lines:
        return lines
    lines[0] = lines[0].lstrip('{')
    if lines[0].startswith(' {'):
        lines[0] = lines[0][1:]
    lines[-1] = lines[-1].rstrip('}')
    if lines[-1].endswith('} '):
        lines[-1] = lines[-1][:-1]
    return lines


def parse_skool_entries(text):
    """Independent reader of a skool file as written by sna2skool: returns a list of entries
    {'ctl','addr','header':[[lines] per section],'instrs':[{'addr','op','mid':[lines],'clines':[..]}],'end':[lines]}"""
    entries = []
    block = []
    for l in text.split('\n') + ['']:
        if l.strip() == '':
            if block:
                entries.append(block)
            block = []
        else:
            block.append(l)
    res = []
    for block in entries:
        if not any(re.match(r'^[a-z*][0-9$]', l) for l in block):
            continue
        ent = {'header': [[]], 'instrs': [], 'end': []}
        pending = []
        in_header = True
        for l in block:
            if l.startswith('@'):
                continue
            if l.startswith(';'):
                t = l[1:].strip()
                if in_header:
                    if t == '':
                        ent['header'].append([])
                    else:
                        ent['header'][-1].append(t)
                else:
                    pending.append(t)
                continue
            if l.startswith(' ') and l.lstrip().startswith(';'):
                ent['instrs'][-1]['clines'].append(l.lstrip()[1:].strip())
                continue
            m = re.match(r'^(.)([0-9]{5}) (.*)$', l)
            if not m:
                continue
            if in_header:
                ent['ctl'] = m.group(1)
                ent['addr'] = int(m.group(2))
                in_header = False
                # fourth header section = start comment
                pending = ent['header'][3] if len(ent['header']) > 3 else []
            rest = m.group(3)
            k = rest.find(' ;')
            if k < 0:
                op, c = rest.strip(), None
            else:
                op, c = rest[:k].strip(), rest[k + 2:].strip()
            ent['instrs'].append({'addr': int(m.group(2)), 'op': op, 'mid': pending, 'clines': [c] if c is not None else []})
            pending = []
        ent['end'] = pending
        res.append(ent)
    return res


def paragraphs_of(lines):
    ps = [[]]
    for l in lines:
        if l == '.':
            ps.append([])
        else:
            ps[-1].append(l)
    return [' '.join(p).split() for p in ps if p]


def check_skool_entry(got, ent, line_width, block_lines):
    """Compare an entry written by sna2skool with the control-file specification."""
    fails = []
    a = ent['addr']
    if got.get('addr') != a:
        return [('skool-entry-address', 'expected entry at %d, got %r' % (a, got.get('addr')))]
    h = got['header'] + [[], [], [], []]
    title = ' '.join(h[0]).split()
    if title != flat(ent['title']):
        fails.append(('skool-title-words', 'entry %d: title words differ: expected %r got %r' % (a, flat(ent['title'])[:30], title[:30])))
    det = paragraphs_of(h[1])
    if det != [flat(p) for p in ent['details']]:
        fails.append(('skool-details-words', 'entry %d: description differs: expected %r got %r' % (a, [flat(p) for p in ent['details']][:3], det[:3])))
    # registers: a line starting with '.' continues the previous register
    regs = []
    for l in h[2]:
        if l == '.':
            continue
        if l.startswith('.') and regs:
            regs[-1] += l[1:].split()
        else:
            regs.append(l.split())
    exp = []
    for r in ent['registers']:
        head = (r['prefix'] + ':' if r['prefix'] else '') + r['name']
        if r.get('delim'):
            head = r['delim'][0] + head + r['delim'][1]      # the skool file keeps the delimiters
        exp.append(head.split() + flat(r['desc']))
    if regs != exp:
        fails.append(('skool-register-words', 'entry %d: registers differ: expected %r got %r' % (a, exp[:3], regs[:3])))
    pos = 0
    first = True
    for gi, g in enumerate(ent['groups']):
        n = len(g['instrs'])
        rows = got['instrs'][pos:pos + n]
        if [r['addr'] for r in rows] != [i['addr'] for i in g['instrs']] or [r['op'] for r in rows] != [i['op'] for i in g['instrs']]:
            fails.append(('skool-instruction', 'entry %d group %d: expected %r got %r' % (a, gi, [(i['addr'], i['op']) for i in g['instrs']], [(r['addr'], r['op']) for r in rows])))
            return fails
        exp_mid = [flat(p) for p in (ent['start'] if first else g['mid'])]
        first = False
        if paragraphs_of(rows[0]['mid']) != exp_mid:
            fails.append(('skool-midblock-words', 'entry %d group %d: mid-block comment differs: expected %r got %r' % (a, gi, exp_mid[:3], paragraphs_of(rows[0]['mid'])[:3])))
        for r in rows[1:]:
            if r['mid']:
                fails.append(('skool-midblock-words', 'entry %d: unexpected comment inside group at %d' % (a, r['addr'])))
        clines = [c for r in rows for c in r['clines']]
        joined = ' '.join(clines).strip()
        if n > 1 or joined.startswith('{'):
            # the comment must be delimited so that it spans exactly these n instructions
            bal = 0
            spans = 0
            for r in rows:
                t = ' '.join(r['clines'])
                bal += t.count('{') - t.count('}')
                spans += 1
                if bal <= 0:
                    break
            span_ok = joined.startswith('{') and spans == n and bal <= 0
            if not span_ok and group_words(g):
                # class of the known finding: the specified comment has a prefix with more closing
                # than opening braces (sna2skool sizes the opening from the overall balance only), and sna2skool did
                # write the number of opening braces its own rule prescribes
                text = ' '.join(group_words(g))
                run, neg = 0, False
                for ch in text:
                    run += (ch == '{') - (ch == '}')
                    neg = neg or run < 0
                total = text.count('{') - text.count('}')
                k_rule = 1 - total if total < 0 else 1
                line0 = clines[0] if clines else ''
                k_got = len(line0) - len(line0.lstrip('{'))
                key = 'skool-brace-span-negative-prefix' if neg and k_got == k_rule else 'skool-brace-span'
                fails.append((key, 'entry %d group %d: the braces sna2skool wrote do not delimit exactly the %d instructions of the control-file comment (read back, the comment ends after %d): %r'
                              % (a, gi, n, spans, clines[:6])))
                pos += n
                continue
            clines = strip_braces(clines)
        got_words = ' '.join(clines).split()
        if got_words != group_words(g):
            fails.append(('skool-comment-words', 'entry %d group %d: comment words differ: expected %r got %r' % (a, gi, group_words(g)[:30], got_words[:30])))
        pos += n
    if pos != len(got['instrs']):
        fails.append(('skool-instruction', 'entry %d: %d unexpected extra instructions' % (a, len(got['instrs']) - pos)))
    if paragraphs_of(got['end']) != [flat(p) for p in ent['end']]:
        fails.append(('skool-end-words', 'entry %d: end comment differs: expected %r got %r' % (a, [flat(p) for p in ent['end']][:3], paragraphs_of(got['end'])[:3])))
    return fails


# ---------------------------------------------------------------------------------------------
# #LIST / #TABLE blocks in description paragraphs

def gen_blocks_case(rng):
    """One entry whose description has a paragraph with a #LIST block and a paragraph with a
    #TABLE block (simple cells, optional wrapped last column, optional wrap flags for sna2skool)."""
    lw = rng.choice((60, 79, 79, 100, 132))
    short = (1, 2, 3, 4, 5, 7, 9)

    def ws(lo, hi):
        # '=' starts cell flags, '|' separates cells: not used inside block words
        return [w.replace('=', 'e').replace('|', 'l') for w in gen_words(rng, rng.randint(lo, hi), short, dots=True)]
    title = ws(1, 6)
    intro, outro = ws(0, rng.choice((6, 6, 40))), ws(0, rng.choice((6, 6, 40)))     # text around the block wraps like any other
    items = [ws(1, rng.choice((3, 8, 25))) for _ in range(rng.randint(1, 4))]
    lflag = rng.choice(('', '', '<nowrap>', '<wrapalign>'))
    ncols = rng.randint(1, 3)
    wrapcol = rng.random() < 0.5
    header = rng.random() < 0.6
    rows = []
    for r in range(rng.randint(1, 4)):
        row = [ws(1, 4) for _ in range(ncols)]
        if wrapcol:
            row[-1] = ws(1, rng.choice((4, 12, 30)))
        rows.append(row)
    tflag = rng.choice(('', '', '<nowrap>', '<wrapalign>'))
    params = 'default' + ''.join(',' + (':w' if (wrapcol and c == ncols - 1) else '') for c in range(ncols))
    ltoks = intro + ['#LIST' + lflag] + [t for it in items for t in ['{'] + it + ['}']] + ['LIST#'] + outro
    ttoks = ['#TABLE(%s)%s' % (params, tflag)]
    for i, row in enumerate(rows):
        ttoks.append('{')
        for j, cell in enumerate(row):
            if j:
                ttoks.append('|')
            if header and i == 0:
                ttoks.append('=h')
            ttoks += cell
        ttoks.append('}')
    ttoks.append('TABLE#')
    return {'lw': lw, 'title': title, 'intro': intro, 'outro': outro, 'items': items, 'rows': rows, 'header': header, 'wrapcol': wrapcol,
            'ltoks': ltoks, 'ttoks': ttoks, 'lflag': lflag, 'tflag': tflag}


def blocks_skool(rng, case):
    out = ['@start', '@set-line-width=%d' % case['lw'], '; ' + ' '.join(case['title']), ';']
    for toks, last in ((case['ltoks'], False), (case['ttoks'], True)):
        # the flags are sna2skool syntax; skool2asm/skool2html accept and ignore them
        for l in split_lines(rng, toks, 5):
            out.append('; ' + ' '.join(l))
        if not last:
            out.append('; .')
    out.append('c32768 RET')
    return '\n'.join(out) + '\n'


def check_blocks_asm(out, err, case):
    fails = []
    lw = case['lw']
    lines = [l for l in out.replace('\r\n', '\n').split('\n')]
    com = [l for l in lines if l.startswith(';')]
    # sections separated by ';' lines: title / list paragraph / table paragraph
    secs = [[]]
    for l in com:
        if l == ';':
            secs.append([])
        else:
            secs[-1].append(l[1:])
    if len(secs) != 3:
        return [('asm-blocks-structure', 'expected title + 2 paragraphs, got %d sections: %r' % (len(secs), com[:8]))]
    if ' '.join(secs[0]).split() != case['title']:
        fails.append(('asm-blocks-title', 'title words differ: %r' % secs[0]))
    exp = case['intro'] + [t for it in case['items'] for t in ['*'] + it] + case['outro']
    got = ' '.join(secs[1]).split()
    if got != exp:
        fails.append(('asm-list-words', '#LIST paragraph: expected %r got %r' % (exp[:40], got[:40])))
    # table: column-wise word sequences
    ncols = len(case['rows'][0])
    cols = [[] for _ in range(ncols)]
    tw = 0
    for l in secs[2]:
        t = l.strip()
        tw = max(tw, len(l[1:]) if l.startswith(' ') else len(l))
        if t.startswith('+'):
            continue
        cells = t.split('|')[1:-1] if t.endswith('|') else t.split('|')[1:]
        if len(cells) != ncols:
            fails.append(('asm-table-structure', 'table line with %d cells, expected %d: %r' % (len(cells), ncols, l)))
            continue
        for j, c in enumerate(cells):
            cols[j] += c.split()
    expc = [[w for row in case['rows'] for w in row[j]] for j in range(ncols)]
    if cols != expc:
        fails.append(('asm-table-words', '#TABLE: column words differ: expected %r got %r' % (expc, cols)))
    warned = [l for l in err.split('\n') if l.startswith('WARNING: Table in entry at')]
    too_wide = tw > lw - 2
    if too_wide and not warned:
        fails.append(('asm-table-no-warning', 'table is %d characters wide (text width %d) and skool2asm does not warn' % (tw, lw - 2)))
    if warned and not too_wide:
        fails.append(('asm-table-spurious-warning', 'table warning although the table is %d wide (text width %d)' % (tw, lw - 2)))
    if too_wide:
        # a table may exceed the text width only if it cannot fit: the columns at their natural widths, the wrapped
        # column (if any) at the larger of the minimum column width (10) and its longest word
        nat = [max(len(' '.join(row[j])) for row in case['rows']) for j in range(ncols)]
        if case.get('wrapcol'):
            nat[-1] = max(10, max(len(w) for row in case['rows'] for w in row[-1]))
        fit = 3 * (ncols + 1) - 2 + sum(nat)
        if tw > max(fit, lw - 2):
            fails.append(('asm-table-wider-than-needed', 'table is %d characters wide although it fits in %d (text width %d) when its last column is wrapped'
                          % (tw, max(fit, lw - 2), lw - 2)))
    for l in com:
        if len(l) > lw and not (too_wide and l in [';' + x for x in secs[2]]):
            fails.append(('asm-blocks-line-too-wide', 'line of %d chars (width %d): %r' % (len(l), lw, l[:100])))
    return fails


def check_blocks_html(page, case):
    cells = parse_html_entry(page)
    paras = [c[2].split() for c in cells if c[0] == 'paragraph' and c[3] == 'details']
    exp1 = case['intro'] + [w for it in case['items'] for w in it] + case['outro']
    exp2 = [w for row in case['rows'] for cell in row for w in cell]
    if paras != [exp1, exp2]:
        return [('html-blocks-words', 'description paragraphs differ: expected %r got %r' % ([exp1[:30], exp2[:30]], [p[:30] for p in paras]))]
    return []


def blocks_ctl(case):
    return ('c 32768 %s\nD 32768 %s\nD 32768 %s\ni 32769\n'
            % (' '.join(case['title']), ' '.join(case['ltoks']), ' '.join(case['ttoks'])))


def check_blocks_skool(out, case):
    fails = []
    ents = parse_skool_entries(out)
    if len(ents) != 1:
        return [('skool-blocks-structure', '%d entries' % len(ents))]
    h = ents[0]['header'] + [[], []]
    if ' '.join(h[0]).split() != case['title']:
        fails.append(('skool-blocks-title', 'title words differ'))
    ps = paragraphs_of(h[1])
    if ps != [case['ltoks'], case['ttoks']]:
        fails.append(('skool-blocks-words', 'description with #LIST/#TABLE differs: expected %r got %r' % ([case['ltoks'][:30], case['ttoks'][:30]], [p[:30] for p in ps])))
    # widths: rows/items of a <nowrap> block are exempt
    nowrap = False
    for l in out.split('\n'):
        t = l[1:].strip() if l.startswith(';') else ''
        if t.startswith('#LIST') or t.startswith('#TABLE'):
            nowrap = '<nowrap>' in t
        if t in ('LIST#', 'TABLE#'):
            nowrap = False
        # a line holding one unbreakable word that cannot fit (e.g. a <wrapalign> continuation line
        # indented to its cell's column) is the property's own exception
        if len(l) > 79 and not nowrap and len(t.split()) > 1:
            fails.append(('skool-blocks-line-too-wide', 'line of %d chars: %r' % (len(l), l[:100])))
    return fails


def closing_boundary_spec(line_width):
    """Deterministic sweep for the sna2skool closing-brace fit test: comments that end with '}'
    (so the closing is ' }' ...) whose last wrapped line takes every length around the comment
    width, for groups of 1..3 instructions.  With the default instruction width (13) the comment
    column is line_width - 23 wide; the sweep covers a window well beyond that, so it does not
    depend on that figure being right."""
    cw = line_width - 23
    addr = 32768
    groups = []
    for n in (1, 2, 3):
        for k in range(3, cw + 6):
            if n == 1:
                # single instruction: the text starts with '{' and ends with '}'
                words = ['{' + 'a' * (k - 2) + '}'] if k % 2 else ['{ab', 'c' * max(1, k - 5) + '}']
            else:
                # n - 1 lines filled by one long word each, then a last line of length k
                words = ['b' * (cw - 3) for _ in range(n - 1)] + (['w' * (k - 1) + '}'] if k % 2 else ['uv', 'w' * max(1, k - 4) + '}'])
            instrs = [{'addr': addr + j, 'op': 'NOP', 'label': None} for j in range(n)]
            addr += n
            groups.append({'instrs': instrs, 'lines': [[words]] + [[[]] for _ in range(n - 1)], 'mid': []})
    return {'cfg': {'line_width': line_width}, 'entries': [{
        'ctl': 'c', 'addr': 32768, 'title': [['Closing', 'brace', 'boundary']], 'details': [], 'registers': [],
        'start': [], 'end': [], 'groups': groups}]}


def dot_words_spec(line_width, ctl=False):
    """Deterministic group: words that start with a dot ('.25', '...more', a word of dots only) at the start of
    every kind of source line — register description lines and their '.' continuation lines (with and without
    white space after the marker dot), title / description / start / mid-block / end comment lines and
    instruction comment lines and continuation lines.  For the control-file route (`ctl=True`, where sna2skool
    chooses the line breaks) the register descriptions and paragraphs instead push a dot-leading word across the
    wrap boundary: a filler word of every length around the text width, then the dot-leading word."""
    dw = line_width - 2
    DOT_WORDS = globals()['DOT_WORDS'] + SEMI_WORDS       # (a ';' after the first one of a line is text, too)
    addr = 32768
    entries = []
    if not ctl:
        regs = []
        for i, dot in enumerate(DOT_WORDS):
            regs.append({'prefix': ('', 'Input')[i % 2] if i < 5 else ('O', '')[i % 2], 'name': ('A', 'HL', 'xy')[i % 3], 'delim': '',
                         'desc': [['first', 'line'], [dot, 'after', 'marker'], [dot], ['tail', dot], [dot, dot]]})
        regs.append({'prefix': '', 'name': 'B', 'delim': '', 'desc': [[DOT_WORDS[0], 'leads', 'the', 'first', 'line'], ['...']]})
        groups = []
        for i, dot in enumerate(DOT_WORDS):
            n = 1 + i % 3
            instrs = [{'addr': addr + j, 'op': 'NOP', 'label': None} for j in range(n)]
            addr += n
            lines = [[[dot, 'on', 'the', 'instruction', 'line'], [dot, 'continued'], [dot]]] + [[[dot, 'row', str(j)], [dot]] for j in range(1, n)]
            groups.append({'instrs': instrs, 'lines': lines, 'mid': [[[dot, 'mid'], [dot], ['x', dot]], [[dot]]] if i else []})
        paras = [[[dot, 'para'], [dot], ['end', dot]] for dot in DOT_WORDS[:4]]
        entries.append({'ctl': 'c', 'addr': 32768, 'title': [[DOT_WORDS[0], 'title'], [DOT_WORDS[1]]], 'details': paras,
                        'registers': regs, 'start': [[[d, 'start']] for d in DOT_WORDS[2:5]], 'groups': groups,
                        'end': [[[d, 'end'], [d]] for d in DOT_WORDS[1:4]]})
    else:
        k0 = line_width - 30
        regs = []
        for i, k in enumerate(range(k0, dw + 2)):
            dot = DOT_WORDS[i % len(DOT_WORDS)]
            regs.append({'prefix': ('', 'I')[i % 2] if 2 * i < dw + 2 - k0 else ('Output', '')[i % 2], 'name': ('A', 'BC', 'abc')[i % 3], 'delim': '',
                         'desc': [['w' * k, dot, 'more', dot, 'v' * k, dot]]})
        paras = [[['u' * k, DOT_WORDS[k % len(DOT_WORDS)], 'z' * k, DOT_WORDS[(k + 1) % len(DOT_WORDS)], 'q']] for k in range(dw - 6, dw + 1)]
        groups = []
        for i, dot in enumerate(DOT_WORDS):
            n = 1 + i % 3
            instrs = [{'addr': addr + j, 'op': 'NOP', 'label': None} for j in range(n)]
            addr += n
            groups.append({'instrs': instrs, 'lines': [[[dot, 'c' * (line_width - 40), dot, 'd' * 20, dot]]] + [[[]] for _ in range(n - 1)],
                           'mid': [[[dot, 'm' * (dw - 8), dot, 'n']]] if i else []})
        entries.append({'ctl': 'c', 'addr': 32768, 'title': [[DOT_WORDS[0], 'title', DOT_WORDS[1]]], 'details': paras, 'registers': regs,
                        'start': [[[DOT_WORDS[2], 's' * (dw - 5), DOT_WORDS[3]]]], 'groups': groups,
                        'end': [[[DOT_WORDS[1], 'e' * (dw - 4), DOT_WORDS[4], 'x']]]})
    cfg = {'line_width': line_width, 'instr_width': 23, 'indent': 2, 'tab': 0, 'crlf': 0, 'min_cw': 10}
    return {'cfg': cfg, 'entries': entries}


def long_text_spec(line_width):
    """Deterministic group: annotations that wrap to very many lines (one word per line for 60-150 lines) in every
    place: description paragraph, register description, start / mid-block / end comments, instruction comments
    over 1 and 3 instructions."""
    dw = line_width - 2
    cw = line_width - 28

    def ws(n, k, tag):
        return ['%s%d%s' % (tag, i, 'x' * max(1, k - len(str(i)) - len(tag))) for i in range(n)]
    g1 = {'instrs': [{'addr': 32768, 'op': 'NOP', 'label': None}], 'lines': [[ws(70, cw // 2 + 1, 'c')]], 'mid': []}
    g2 = {'instrs': [{'addr': 32769 + j, 'op': 'NOP', 'label': None} for j in range(3)],
          'lines': [[ws(30, cw // 2 + 1, 'd')], [[]], [ws(45, cw // 2 + 2, 'e')]], 'mid': [[ws(90, dw // 2 + 1, 'm')]]}
    many = [[['para%d' % i, 'of', 'many']] for i in range(14)]
    g2['mid'] += [[['mid%d' % i]] for i in range(11)]
    ent = {'ctl': 'c', 'addr': 32768, 'title': [['Long', 'texts']], 'details': [[ws(150, dw // 2 + 1, 'p')], [ws(61, dw // 2 + 3, 'q')]] + many,
           'registers': [{'prefix': '', 'name': 'HL', 'delim': '', 'desc': [ws(64, (dw - 4) // 2 + 1, 'r')]}],
           'start': [[ws(80, dw // 2 + 1, 's')]] + [[['start%d' % i]] for i in range(10)], 'groups': [g1, g2],
           'end': [[ws(100, dw // 2 + 1, 'z')]] + [[['end%d' % i, 'x']] for i in range(12)]}
    cfg = {'line_width': line_width, 'instr_width': 23, 'indent': 2, 'tab': 0, 'crlf': 0, 'min_cw': 10}
    return {'cfg': cfg, 'entries': [ent]}


def gen_span_table_case(rng):
    """A #TABLE whose cells span rows and columns (=cN, =rN, header and transparent flags), every word unique, so
    that 'each word exactly once, in order within its cell' can be checked whatever the layout."""
    ncols, nrows = rng.randint(2, 4), rng.randint(2, 4)
    free = [[True] * ncols for _ in range(nrows)]
    rows, cells = [], []
    starts, ends = [], []
    wid = 0
    wrapcol = rng.random() < 0.4
    for r in range(nrows):
        row = []
        c = 0
        while c < ncols:
            if not free[r][c]:
                c += 1
                continue
            maxc = 1
            while c + maxc < ncols and free[r][c + maxc]:
                maxc += 1
            cs = rng.choice([1, 1, 1] + list(range(1, maxc + 1)))
            # column 0 never spans rows, so that every row has a cell of its own (a well-formed table)
            rs = rng.choice([1, 1, 1] + list(range(1, nrows - r + 1))) if c else 1
            starts.append(c)
            ends.append(c + cs)
            for y in range(r, r + rs):
                for x in range(c, c + cs):
                    free[y][x] = False
            nw = rng.choice((1, 1, 2, 3)) if not (wrapcol and c + cs == ncols) else rng.choice((1, 4, 12, 25))
            words = []
            for _ in range(nw):
                words.append('w%d%s' % (wid, ''.join(rng.choice(LETTERS) for _ in range(rng.choice((0, 1, 3, 6))))))
                wid += 1
            flags = []
            if cs > 1:
                flags.append('c%d' % cs)
            if rs > 1:
                flags.append('r%d' % rs)
            if r == 0 and rng.random() < 0.5:
                flags.append('h')
            if rng.random() < 0.1:
                flags.append('t')
            rng.shuffle(flags)
            row.append({'flags': flags, 'words': words})
            cells.append(words)
            c += cs
        rows.append(row)
    lw = rng.choice((60, 79, 100))
    params = 'default' + ''.join(',' + (':w' if (wrapcol and c == ncols - 1) else '') for c in range(ncols))
    ttoks = ['#TABLE(%s)' % params]
    for row in rows:
        if not row:
            continue                 # a row fully covered by cells spanning from above has no definition of its own
        ttoks.append('{')
        for j, cell in enumerate(row):
            if j:
                ttoks.append('|')
            if cell['flags']:
                ttoks.append('=' + ','.join(cell['flags']))
            ttoks += cell['words']
        ttoks.append('}')
    ttoks.append('TABLE#')
    # 'short': no cell *starts* in the last column (it is reached through colspans only)
    return {'lw': lw, 'cells': cells, 'ttoks': ttoks, 'title': ['Span', 'table'], 'short': max(ends) > max(starts) + 1}


SHORT_TABLE_CASE = {'lw': 79, 'cells': [['a'], ['bbbbbbbbbbbbb'], ['c'], ['d'], ['e']], 'title': ['Span', 'table'], 'short': True,
                    'ttoks': ['#TABLE(default)', '{', 'a', '|', '=c3', 'bbbbbbbbbbbbb', '}', '{', 'c', '|', 'd', '|', '=c2', 'e', '}', 'TABLE#']}


def span_table_skool(rng, case):
    out = ['@start', '@set-line-width=%d' % case['lw'], '; ' + ' '.join(case['title']), ';']
    for l in split_lines(rng, case['ttoks'], 4):
        out.append('; ' + ' '.join(l))
    out.append('c32768 RET')
    return '\n'.join(out) + '\n'


def check_span_table_asm(out, case):
    lines = [l[1:] for l in out.replace('\r\n', '\n').split('\n') if l.startswith(';')]
    secs = [[]]
    for l in lines:
        if l == '':
            secs.append([])
        else:
            secs[-1].append(l)
    if len(secs) != 2:
        return [('asm-blocks-structure', 'expected title + 1 paragraph, got %d sections' % len(secs))]
    toks = [t for l in secs[1] for t in l.split() if t.strip('+-|=')]
    return _span_words(toks, case, 'asm')


def _span_words(toks, case, tool):
    fails = []
    exp = [w for c in case['cells'] for w in c]
    if sorted(toks) != sorted(exp):
        missing = [w for w in exp if toks.count(w) < 1]
        dup = sorted({w for w in toks if toks.count(w) > 1})
        extra = [w for w in toks if w not in exp]
        fails.append((tool + '-table-words', '#TABLE with spans: words missing %r, duplicated %r, unexpected %r (definition %r)'
                      % (missing[:8], dup[:8], extra[:8], ' '.join(case['ttoks'])[:200])))
    else:
        for c in case['cells']:
            pos = [toks.index(w) for w in c]
            if pos != sorted(pos):
                fails.append((tool + '-table-words', '#TABLE with spans: words of cell %r out of order (definition %r)' % (c, ' '.join(case['ttoks'])[:200])))
                break
    return fails


def check_span_table_html(page, case):
    cells = parse_html_entry(page)
    paras = [c[2].split() for c in cells if c[0] == 'paragraph' and c[3] == 'details']
    if len(paras) != 1:
        return [('html-blocks-words', 'expected one description paragraph, got %d' % len(paras))]
    return _span_words(paras[0], case, 'html')


def span_table_ctl(case):
    return 'c 32768 %s\nD 32768 %s\ni 32769\n' % (' '.join(case['title']), ' '.join(case['ttoks']))


def check_span_table_skool(out, case):
    ents = parse_skool_entries(out)
    if len(ents) != 1:
        return [('skool-blocks-structure', '%d entries' % len(ents))]
    h = ents[0]['header'] + [[], []]
    ps = paragraphs_of(h[1])
    if ps != [case['ttoks']]:
        return [('skool-blocks-words', 'description with a #TABLE with spans differs: expected %r got %r' % (case['ttoks'][:40], [p[:40] for p in ps]))]
    return []


def exact_fit_table_case(lw=79):
    """A #TABLE whose minimum layout (wrapped column at the minimum column width of 10) fills the text width exactly:
    the wrapped column must stay at 10 and the table must not grow beyond the text width."""
    w1 = lw - 2 - 7 - 10
    rows = [[['k' * w1], ['wrapped', 'text'] + ['w%d' % i for i in range(30)]], [['key'], ['short']]]
    ttoks = ['#TABLE(default,,:w)']
    for row in rows:
        ttoks += ['{'] + row[0] + ['|'] + row[1] + ['}']
    ttoks.append('TABLE#')
    return {'lw': lw, 'title': ['Exact', 'fit'], 'intro': [], 'outro': [], 'items': [['item']], 'rows': rows, 'header': False, 'wrapcol': True,
            'ltoks': ['#LIST', '{', 'item', '}', 'LIST#'], 'ttoks': ttoks, 'lflag': '', 'tflag': ''}


def sentence_ends_blocks_case(lw=79):
    """#LIST and #TABLE with the <wrapalign> flag whose every word ends in a full stop, so that whatever the wrap
    points are, each wrapped line ends (and the next one starts) at a sentence end."""
    items = [['i%d.' % i for i in range(40)], ['short.', 'item...']]
    rows = [[['key.'], ['t%d.' % i for i in range(45)]], [['k2...'], ['u%d.)' % i for i in range(30)]]]
    ltoks = ['intro.', '#LIST<wrapalign>'] + [t for it in items for t in ['{'] + it + ['}']] + ['LIST#', 'outro.']
    ttoks = ['#TABLE(default,,:w)<wrapalign>']
    for row in rows:
        ttoks += ['{'] + row[0] + ['|'] + row[1] + ['}']
    ttoks.append('TABLE#')
    return {'lw': lw, 'title': ['Sentence', 'ends.'], 'intro': ['intro.'], 'outro': ['outro.'], 'items': items, 'rows': rows, 'header': False,
            'wrapcol': True, 'ltoks': ltoks, 'ttoks': ttoks, 'lflag': '<wrapalign>', 'tflag': '<wrapalign>'}


# ---------------------------------------------------------------------------------------------
# #TABLE with a wrappable (:w) column that holds cells spanning 2-3 columns: line-width sweep

def _short_words(n, tag):
    """n distinct words of 2..5 characters (none needs more room than the minimum width of a wrapped column)."""
    lens = (3, 5, 5, 3, 5, 4, 3, 4, 3, 5, 2, 4, 5, 3, 4, 4, 5, 2, 3, 5, 4)
    out = []
    for i in range(n):
        w = '%s%d' % (tag, i)
        out.append(w + 'abcde'[:max(0, lens[i % len(lens)] - len(w))])
    return out


def wrap_span_family():
    """A small family of tables in which a wrappable column holds a cell that spans columns and whose text (short
    words only) must be wrapped for the table to fit.  Each member: (name, #TABLE parameters, rows), a row being a
    list of (flags, words).  A spanning cell always *starts* in a ':w' column (a cell is wrapped iff its first
    column carries the flag), so every member fits in any text width >= 38 when its wrappable cells are wrapped."""
    S = _short_words
    fam = [
        ('c2-first', 'default,:w', [[('h', ['Value']), ('h', ['Mean'])], [('c2', S(21, 'a'))], [('', ['1']), ('', ['Short'])]]),
        ('c2-both', 'default,:w,:w', [[('h', ['Value']), ('h', ['Mean'])], [('c2', S(23, 'b'))], [('', ['1']), ('', S(6, 'B'))]]),
        ('c3-first', 'default,:w', [[('', ['k']), ('', ['val']), ('', ['n'])], [('c3', S(30, 'c'))], [('', ['1']), ('', ['2']), ('', ['3'])]]),
        ('c2-last', 'default,,:w', [[('', ['key']), ('c2', S(24, 'd'))], [('', ['x']), ('', ['y']), ('', ['z'])]]),
        ('c2-then-cell', 'default,:w', [[('c2', S(18, 'e')), ('', ['tail'])], [('', ['p']), ('', ['q']), ('', ['r'])]]),
        ('c2-twice', 'default,:w', [[('', ['x']), ('', ['y'])], [('c2', S(12, 'f'))], [('c2,h', S(26, 'F'))]]),
        ('c2-side-by-side', 'default,:w,,:w', [[('c2', S(15, 'g')), ('c2', S(17, 'G'))], [('', ['s']), ('', ['t']), ('', ['u']), ('', ['v'])]]),
        ('c2-and-wrapped-cell', 'default,:w', [[('', S(9, 'h')), ('', ['m'])], [('c2', S(20, 'H'))]]),
        ('c3-middle', 'default,,:w', [[('', ['id']), ('c3', S(27, 'i'))], [('', ['1']), ('', ['2']), ('', ['3']), ('', ['4'])]]),
        ('c2-rowspan', 'default,:w', [[('c2,r2', S(19, 'j')), ('', ['up'])], [('', ['down'])], [('', ['l']), ('', ['m']), ('', ['n'])]]),
    ]
    return fam


def wrap_span_overlap_family():
    """Two wrappable spanning cells that share a column (columns 0-1 and 1-2): the class of the finding
    `asm-table-overlapping-wrapped-colspans-too-wide`; kept out of the sweep, probed separately."""
    S = _short_words
    return [('c2-overlap', 'default,:w,:w', [[('c2', S(20, 'a')), ('', ['t'])], [('', ['k']), ('c2', S(26, 'b'))], [('', ['p']), ('', ['q']), ('', ['r'])]])]


def wrap_span_case(lw, overlap=False):
    """One skool file for line width `lw`: an entry per member of the family, the table being its description."""
    entries = []
    for i, (name, params, rows) in enumerate(wrap_span_overlap_family() if overlap else wrap_span_family()):
        ttoks = ['#TABLE(%s)' % params]
        cells = []
        for row in rows:
            ttoks.append('{')
            for j, (flags, words) in enumerate(row):
                if j:
                    ttoks.append('|')
                if flags:
                    ttoks.append('=' + flags)
                ttoks += words
                cells.append(words)
            ttoks.append('}')
        ttoks.append('TABLE#')
        entries.append({'addr': 32768 + i, 'name': name, 'ttoks': ttoks, 'cells': cells})
    return {'lw': lw, 'entries': entries}


def wrap_span_skool(case):
    out = ['@start', '@set-line-width=%d' % case['lw']]
    for e in case['entries']:
        out += ['; Table %s' % e['name'], ';']
        # one table row per source line (line breaks in a paragraph are white space)
        line = []
        for t in e['ttoks']:
            line.append(t)
            if t == '}' or t.startswith('#TABLE'):
                out.append('; ' + ' '.join(line))
                line = []
        out.append('; ' + ' '.join(line))
        out += ['c%d RET' % e['addr'], '']
    return '\n'.join(out)


def check_wrap_span_asm(out, err, case):
    """Every member of the family consists of short words only, so: no table line is wider than the line width, no
    'Table in entry at N is M characters wide' warning, and every word appears exactly once, in order within its cell."""
    fails = []
    lw = case['lw']
    blocks, cur = [], []
    for l in out.replace('\r\n', '\n').split('\n'):
        if l.startswith(';'):
            cur.append(l)
        elif cur:
            blocks.append(cur)
            cur = []
    if cur:
        blocks.append(cur)
    if len(blocks) != len(case['entries']):
        return [('asm-blocks-structure', 'expected %d entries, got %d comment blocks' % (len(case['entries']), len(blocks)))]
    warned = {}
    for l in err.split('\n'):
        m = re.match(r'WARNING: Table in entry at (\d+) is (\d+) characters wide', l)
        if m:
            warned[int(m.group(1))] = int(m.group(2))
    for b, e in zip(blocks, case['entries']):
        definition = ' '.join(e['ttoks'])
        if ';' not in b[1:2] or b[0].split() != [';', 'Table', e['name']]:
            fails.append(('asm-blocks-structure', 'entry %d: expected a title and one paragraph, got %r' % (e['addr'], b[:3])))
            continue
        tl = b[2:]
        wide = [l for l in tl if len(l) > lw]
        if wide:
            fails.append(('asm-table-wider-than-needed',
                          'line width %d, table %s (short words only, wrappable spanning cell): %d line(s) of %d characters, e.g. %r; definition %r'
                          % (lw, e['name'], len(wide), max(len(l) for l in wide), wide[0], definition)))
        if e['addr'] in warned and not wide:
            fails.append(('asm-table-spurious-warning', 'line width %d, table %s: warning "%d characters wide" although no line is wider than %d; definition %r'
                          % (lw, e['name'], warned[e['addr']], lw, definition)))
        if e['addr'] in warned and wide:
            fails.append(('asm-table-warning-for-a-table-that-fits', 'line width %d, table %s: skool2asm warns that the table is %d characters wide; every '
                          'word is at most 5 characters long, so the table fits when its wrappable cells are wrapped; definition %r'
                          % (lw, e['name'], warned[e['addr']], definition)))
        toks = [t for l in tl for t in l[1:].split() if t.strip('+-|=')]
        fails += _span_words(toks, {'cells': e['cells'], 'ttoks': e['ttoks']}, 'asm')
    return fails
