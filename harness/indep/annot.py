"""Independent side of the C18 end-to-end checks (no skoolkit imports).

* a generator of *annotated entry specifications* (plain dicts/lists, JSON-able) and of the
  skool-file / control-file text that expresses them, following the skool file format
  documentation (sphinx/source/skool-files.rst: entry header sections, '.' paragraph separators,
  register lines, instruction comments, the rules for braces in comments);
* parsers of what the tools emit (skool2asm output, skool2html entry pages, sna2skool output)
  back into the same shape, so that word sequences can be compared.

Words are compared after splitting on white space: wrapping may only change white space."""
import html.parser
import re

# ---------------------------------------------------------------------------------------------
# generation

# punctuation that has no meaning to the parsers in the positions we use it ('#' starts a macro and
# is never generated; braces are injected separately, under the documented rules)
LETTERS = 'abcdefghijklmnopqrstuvwxyzABCDEFGHIJKLMNOPQRSTUVWXYZ'
PUNCT = ".,:!?'()-_/*+=[]%$^~|"
OPS_CODE = [('NOP', 0x00), ('LD A,B', 0x78), ('LD (HL),A', 0x77), ('XOR A', 0xAF), ('INC HL', 0x23),
            ('RET', 0xC9), ('EX DE,HL', 0xEB), ('ADD A,(HL)', 0x86), ('LD SP,HL', 0xF9), ('EXX', 0xD9)]


def gen_word(rng, n, braces=False):
    w = []
    for i in range(n):
        r = rng.random()
        if braces and r < 0.15:
            w.append(rng.choice('{}'))
        elif r < 0.25:
            w.append(rng.choice(PUNCT))
        else:
            w.append(rng.choice(LETTERS))
    s = ''.join(w)
    if s.strip('.') == '':           # a line consisting of '.' is a paragraph separator
        s = 'a' + s[1:]
    if s[0] in '.@':                 # '.' starts a register continuation line / separator
        s = 'x' + s[1:]
    return s


def gen_words(rng, count, widths, braces=False):
    out = []
    for _ in range(count):
        n = rng.choice(widths)
        out.append(gen_word(rng, max(1, n), braces))
    return out


def split_lines(rng, words, max_lines=4, first_nonempty=True):
    """Distribute words over 1..max_lines source lines (each non-empty)."""
    if not words:
        return []
    k = min(len(words), rng.randint(1, max_lines))
    cuts = sorted(rng.sample(range(1, len(words)), k - 1)) if k > 1 else []
    lines, prev = [], 0
    for c in cuts + [len(words)]:
        lines.append(words[prev:c])
        prev = c
    return lines


def join_words(rng, words):
    """Join the words of one source line; sometimes with runs of spaces (white space is free)."""
    if rng.random() < 0.15:
        return ''.join(w + ' ' * rng.choice((1, 1, 2, 3)) for w in words).rstrip()
    return ' '.join(words)


def brace_encode(per_instr):
    """per_instr: for each instruction of a group, the list of its comment source lines (each a
    list of words; the first line sits on the instruction line).  Returns the same structure as
    lists of strings, with the opening/closing braces required by the rules in skool-files.rst
    ('Braces in comments'):  the comment ends at the instruction where #closing >= #opening;
    adjacent opening braces at the start and adjacent closing braces at the end are removed."""
    texts = [' '.join(' '.join(l) for l in lines) for lines in per_instr]
    full = ' '.join(t for t in texts if t).strip()
    n = len(per_instr)
    out = [[' '.join(l) for l in lines] for lines in per_instr]
    if n == 1 and not full.startswith('{'):
        return out                      # taken verbatim
    bal, worst = 0, 0
    for t in texts[:-1]:
        bal += t.count('{') - t.count('}')
        worst = min(worst, bal)
    k = max(1, 1 - worst)
    total = bal + texts[-1].count('{') - texts[-1].count('}')
    m = max(1, k + total)
    # first line of the first instruction / last line of the last instruction
    first = out[0][0]
    out[0][0] = '{' * k + (' ' if first.startswith('{') else '') + first
    last = out[-1][-1]
    out[-1][-1] = last + (' ' if last.endswith('}') else '') + '}' * m
    return out


def gen_spec(rng, n_entries=3, cfg=None, one_byte_ops=False, long_word_in_comment_line=False, long_words=False,
             contiguous=False):
    """A random annotated disassembly. `cfg` keys: line_width, instr_width, indent, tab, crlf, min_cw."""
    cfg = dict(cfg or {})
    lw = cfg.setdefault('line_width', 79)
    iw = cfg.setdefault('instr_width', 23)
    ind = 8 if cfg.setdefault('tab', 0) else cfg.setdefault('indent', 2)
    cfg.setdefault('indent', 2)
    cfg.setdefault('crlf', 0)
    mcw = cfg.setdefault('min_cw', 10)
    cw = max(lw - 3 - iw - ind, mcw)
    dw = lw - 2
    short = (1, 2, 3, 4, 5, 7, 9)
    cwidths = short * 3 + (cw - 1, cw, cw + 1)
    dwidths = short * 4 + (dw - 1, dw, dw // 2) + ((dw + 1, dw + 9) if long_words else ())
    rwidths = short * 4 + (dw // 2,) + ((dw - 1, dw) if long_words else ())
    addr = rng.choice((24576, 32768, 40000, 49152, 65000))
    entries = []
    label_no = 0
    for e in range(n_entries):
        ent = {'ctl': 'c', 'addr': addr}
        ent['title'] = split_lines(rng, gen_words(rng, rng.randint(1, 12), dwidths), 2)
        ent['details'] = [split_lines(rng, gen_words(rng, rng.randint(1, 25), dwidths), 4)
                          for _ in range(rng.choice((0, 0, 1, 2, 3)))]
        regs = []
        for _ in range(rng.choice((0, 0, 1, 2, 4))):
            prefix = rng.choice(('', '', 'Input', 'Output', 'I', 'O', 'In'))
            if regs and prefix and regs[-1]['prefix'][:1] == 'O' and prefix[:1] == 'I':
                prefix = 'Output'   # skool2html groups input registers before output registers
            name = rng.choice(('A', 'B', 'HL', 'DE', 'BC', "A'", 'IX', 'abc'))
            delim = ''
            if rng.random() < 0.25:
                # delimited register name: any text between two equal non-alphanumeric characters
                # or a bracket pair; the delimiters are not rendered
                delim = rng.choice(('()', '[]', '//', '||', '""'))
                name = rng.choice(('B, D', '(HL)', 'HL and DE', 'A', 'x y z'))
            desc = split_lines(rng, gen_words(rng, rng.randint(0, 14), rwidths), 3)
            regs.append({'prefix': prefix, 'name': name, 'delim': delim, 'desc': desc})
        ent['registers'] = regs
        ent['start'] = [split_lines(rng, gen_words(rng, rng.randint(1, 12), dwidths), 3)
                        for _ in range(rng.choice((0, 0, 0, 1, 2)))]
        groups = []
        for g in range(rng.randint(1, 5)):
            n = rng.choice((1, 1, 1, 2, 2, 3, 5))
            instrs = []
            for j in range(n):
                if one_byte_ops:
                    op = rng.choice(OPS_CODE)[0]
                else:
                    op = rng.choice([o for o, _ in OPS_CODE] + ['DEFB 1,2,3', 'DEFM "abc"', 'DEFW 12345',
                                                                'LD A,(IX+1)', 'DEFB ' + ','.join(['0'] * rng.choice((4, 8, 12, 16)))])
                label = None
                if rng.random() < 0.12:
                    label_no += 1
                    label = 'L%d' % label_no
                instrs.append({'addr': addr, 'op': op, 'label': label})
                addr += 1
            nwords = rng.choice((0, 0, 1, 2, 3, 6, 10, 18, 30))
            braces = rng.random() < 0.3
            words = gen_words(rng, nwords, cwidths, braces)
            if n == 1 and words and words[0].startswith(';'):
                words[0] = 'x' + words[0]
            # distribute over instructions then over source lines
            per_instr = []
            if words:
                k = min(n, len(words))
                cuts = sorted(rng.sample(range(1, len(words)), k - 1)) if k > 1 else []
                parts, prev = [], 0
                for c in cuts + [len(words)]:
                    parts.append(words[prev:c])
                    prev = c
                # the first and the last instruction get text; instructions in between may get none
                slots = [[] for _ in range(n)]
                if k == 1:
                    slots[0] = parts[0]
                else:
                    idx = [0] + sorted(rng.sample(range(1, n - 1), k - 2)) + [n - 1] if n > 2 else [0, n - 1]
                    for i_, p in zip(idx, parts):
                        slots[i_] = p
                for s in slots:
                    per_instr.append(split_lines(rng, s, 3) or [[]])
            else:
                per_instr = [[[]] for _ in range(n)]
            mid = []
            if g > 0 and rng.random() < 0.3:
                mid = [split_lines(rng, gen_words(rng, rng.randint(1, 12), dwidths), 3)
                       for _ in range(rng.choice((1, 1, 2)))]
            groups.append({'instrs': instrs, 'lines': per_instr, 'mid': mid})
        ent['groups'] = groups
        ent['end'] = [split_lines(rng, gen_words(rng, rng.randint(1, 12), dwidths), 3)
                      for _ in range(rng.choice((0, 0, 1, 2)))]
        entries.append(ent)
        addr += 0 if contiguous else rng.choice((0, 0, 3))
    if long_word_in_comment_line:
        # deterministic instance of the class "unbreakable word in a non-instruction comment line"
        entries[0]['title'] = [['Routine', 'w' * (dw + 5), 'here']]
    return {'cfg': cfg, 'entries': entries}


def reg_heads(ent, delimiters=False):
    res = []
    for r in ent['registers']:
        h = (r['prefix'] + ':' if r['prefix'] else '') + r['name']
        if delimiters and r.get('delim'):
            h = r['delim'][0] + h + r['delim'][1]
        res.append(h)
        res.append(r['name'])
    return sorted(set(res), key=len, reverse=True)


def comment_text_portion(line, heads):
    """The part of a comment line that wrapping controls: the text after '; ', after the
    register name column of a register line, or after the '.' of a continuation line."""
    t = line[1:].strip()
    if t.startswith('. ') or t == '.':
        return t[1:].strip()
    for h in heads:
        if t.startswith(h + ' '):
            return t[len(h):].strip()
    return t


def mixed_eol(text, cfg):
    """Number of bare LF terminators in a CRLF output."""
    if not cfg['crlf']:
        return 0
    return text.count('\n') - text.count('\r\n')


def flat(lines):
    return [w for l in lines for w in l]


def para_words(paragraphs):
    return [w for p in paragraphs for w in flat(p)]


def skool_text(rng, spec, set_directives=True):
    """The skool file expressing `spec`."""
    cfg = spec['cfg']
    out = ['@start']
    if set_directives:
        out += ['@set-line-width=%d' % cfg['line_width'], '@set-instruction-width=%d' % cfg['instr_width'],
                '@set-indent=%d' % cfg['indent'], '@set-tab=%d' % cfg['tab'], '@set-crlf=%d' % cfg['crlf'],
                '@set-comment-width-min=%d' % cfg['min_cw']]

    def comment_lines(lines):
        return ['; ' + join_words(rng, l) for l in lines]

    def paragraphs(ps):
        res = []
        for i, p in enumerate(ps):
            if i:
                res.append('; .')
            res += comment_lines(p)
        return res

    for ent in spec['entries']:
        out += comment_lines(ent['title'])
        need_details = ent['details'] or ent['registers'] or ent['start']
        if need_details:
            out.append(';')
            out += paragraphs(ent['details']) if ent['details'] else ['; .']
        if ent['registers'] or ent['start']:
            out.append(';')
            if ent['registers']:
                for r in ent['registers']:
                    head = (r['prefix'] + ':' if r['prefix'] else '') + r['name']
                    if r.get('delim'):
                        head = r['delim'][0] + head + r['delim'][1]
                    lines = r['desc'] or [[]]
                    out.append(('; ' + head + ' ' + join_words(rng, lines[0])).rstrip())
                    for l in lines[1:]:
                        out.append('; .' + rng.choice(('', ' ')) + join_words(rng, l))
            else:
                out.append('; .')
        if ent['start']:
            out.append(';')
            out += paragraphs(ent['start'])
        first = True
        for g in ent['groups']:
            if g['mid']:
                out += paragraphs(g['mid'])
            enc = brace_encode(g['lines'])
            for ins, lines in zip(g['instrs'], enc):
                if ins['label']:
                    out.append('@label=' + ins['label'])
                ctl = ent['ctl'] if first else ' '
                first = False
                line = '%s%05d %s' % (ctl, ins['addr'], ins['op'])
                pad = ' ' * rng.choice((0, 1, 4, 12))
                if lines[0] or len(lines) > 1:
                    line = line + pad + ' ; ' + lines[0]
                out.append(line.rstrip())
                for l in lines[1:]:
                    out.append(' ' * rng.choice((1, 7, 20)) + '; ' + l)
        out += paragraphs(ent['end'])
        out.append('')
    return '\n'.join(out) + '\n'


def group_words(g):
    return [w for lines in g['lines'] for w in flat(lines)]


# ---------------------------------------------------------------------------------------------
# skool2asm output

def parse_asm(text, spec):
    """Split skool2asm's stdout into per-entry structures:
    {'header': [comment texts], 'rows': [(kind, ...)], ...}.  Returns (entries, problems)."""
    cfg = spec['cfg']
    eol = '\r\n' if cfg['crlf'] else '\n'
    problems = []
    if not text.endswith(eol):
        problems.append(('asm-eol', 'output does not end with the configured line terminator'))
    # universal newlines: a line ends at CRLF or LF (mixed terminators are reported as a note by
    # the caller through `mixed_eol`)
    lines = text.replace('\r\n', '\n').split('\n')
    if lines and lines[-1] == '':
        lines.pop()
    for l in lines:
        if '\r' in l:
            problems.append(('asm-eol', 'stray carriage return inside %r' % l[:60]))
    blocks, cur = [], []
    for l in lines:
        if l == '':
            if cur:
                blocks.append(cur)
            cur = []
        else:
            cur.append(l)
    if cur:
        blocks.append(cur)
    # drop ORG blocks
    blocks = [b for b in blocks if not (len(b) == 1 and b[0].strip().upper().startswith('ORG '))]
    return blocks, problems


def check_asm_entry(block, ent, cfg, warned):
    """Compare one entry's output block with its specification.  Returns a list of (key, desc).
    `warned`: list of lines skool2asm warned about ('Line is N characters long'); consumed."""
    fails = []
    labels = {ins['label'] + ':' for g in ent['groups'] for ins in g['instrs'] if ins['label']}
    items = []       # ('c', text) | ('l', label) | ('i', op, text, rawline)
    for l in block:
        if l.startswith(';'):
            items.append(('c', l[1:].strip(), l))
        elif l in labels:
            items.append(('l', l[:-1], l))
        else:
            k = l.find(' ;')
            if k < 0:
                items.append(('i', l.strip(), '', l, False))
            else:
                items.append(('i', l[:k].strip(), l[k + 2:].strip(), l, True))
    pos = 0

    def take_comments():
        nonlocal pos
        res = []
        while pos < len(items) and items[pos][0] == 'c':
            res.append(items[pos][1])
            pos += 1
        return res

    def words(texts):
        return [w for t in texts for w in t.split()]

    # header: title, details, registers, start comment
    header = take_comments()
    exp = flat(ent['title']) + para_words(ent['details'])
    for r in ent['registers']:
        exp += ((r['prefix'] + ':' if r['prefix'] else '') + r['name']).split() + flat(r['desc'])
    exp += para_words(ent['start'])
    if words(header) != exp:
        fails.append(('asm-header-words', 'entry %d: header words differ: expected %r, got %r' % (ent['addr'], exp[:40], words(header)[:40])))
    for gi, g in enumerate(ent['groups']):
        if gi > 0:
            mid = take_comments()
            if words(mid) != para_words(g['mid']):
                fails.append(('asm-midblock-words', 'entry %d group %d: mid-block comment words differ: expected %r got %r'
                              % (ent['addr'], gi, para_words(g['mid'])[:30], words(mid)[:30])))
        got_words = []
        for j, ins in enumerate(g['instrs']):
            if ins['label']:
                if pos < len(items) and items[pos][0] == 'l' and items[pos][1] == ins['label']:
                    pos += 1
                else:
                    fails.append(('asm-label', 'entry %d: label %s missing before %s' % (ent['addr'], ins['label'], ins['op'])))
            if pos >= len(items) or items[pos][0] != 'i' or items[pos][1] != ins['op']:
                got = items[pos][1:3] if pos < len(items) else None
                fails.append(('asm-instruction', 'entry %d: expected instruction %r, got %r' % (ent['addr'], ins['op'], got)))
                return fails
            got_words += items[pos][2].split()
            pos += 1
        # continuation rows (blank operation field)
        while pos < len(items) and items[pos][0] == 'i' and items[pos][1] == '':
            got_words += items[pos][2].split()
            pos += 1
        if got_words != group_words(g):
            fails.append(('asm-comment-words', 'entry %d group %d (%d instr): comment words differ: expected %r got %r'
                          % (ent['addr'], gi, len(g['instrs']), group_words(g)[:30], got_words[:30])))
    end = take_comments()
    if words(end) != para_words(ent['end']):
        fails.append(('asm-end-words', 'entry %d: end comment words differ: expected %r got %r' % (ent['addr'], para_words(ent['end'])[:30], words(end)[:30])))
    if pos != len(items):
        fails.append(('asm-extra-lines', 'entry %d: unexpected extra output %r' % (ent['addr'], items[pos][-1][:60])))
    return fails


def asm_width_check(blocks, spec, warned_lines):
    """Line-width clause.  Returns (fails, notes): fails = [(key, desc)].
    An over-wide line is legitimate only if what makes it over-wide cannot be broken: a comment
    line / row whose text is a single word, or a row whose instruction field leaves less than the
    minimum comment width.  skool2asm must warn about every over-wide line and about nothing else."""
    cfg = spec['cfg']
    lw = cfg['line_width']
    ind = 8 if cfg['tab'] else cfg['indent']
    fails, notes = [], []
    warned = list(warned_lines)
    for block, ent in zip(blocks, spec['entries']):
        labels = {ins['label'] + ':' for g in ent['groups'] for ins in g['instrs'] if ins['label']}
        # first lines of registers: '; <head> <text>' - the text column is what wrapping controls
        heads = reg_heads(ent)
        # group widths, by operation
        row_group = []
        for g in ent['groups']:
            giw = max([len(i['op']) for i in g['instrs']] + [cfg['instr_width']])
            row_group.append((g, giw))
        gidx = -1
        seen_in_group = 0
        for l in block:
            over = len(l) > lw
            if l.startswith(';'):
                if over:
                    single = len(comment_text_portion(l, heads).split()) <= 1
                    if not single:
                        fails.append(('asm-comment-line-too-wide', 'comment line of %d chars (width %d) with breakable text: %r' % (len(l), lw, l[:100])))
                    elif l in warned:
                        warned.remove(l)
                    else:
                        fails.append(('asm-overlong-comment-line-no-warning',
                                      'comment line of %d chars exceeds line width %d because of an unbreakable word, and skool2asm does not warn: %r' % (len(l), lw, l[:100])))
                continue
            if l in labels:
                continue
            k = l.find(' ;')
            op = (l if k < 0 else l[:k]).strip()
            text = '' if k < 0 else l[k + 2:].strip()
            if op:
                if gidx < 0 or seen_in_group >= len(row_group[gidx][0]['instrs']):
                    gidx += 1
                    seen_in_group = 0
                seen_in_group += 1
            g, giw = row_group[max(gidx, 0)]
            cw = lw - 3 - giw - ind
            if over:
                legit = (len(text.split()) <= 1) or cw < cfg['min_cw']
                if not legit:
                    fails.append(('asm-row-too-wide', 'instruction row of %d chars (width %d) although its comment is breakable and the comment width %d is not below the minimum: %r'
                                  % (len(l), lw, cw, l[:120])))
                if l in warned:
                    warned.remove(l)
                else:
                    fails.append(('asm-row-no-warning', 'over-wide instruction row (%d > %d) without "Line is ... long" warning: %r' % (len(l), lw, l[:120])))
            elif cfg['tab'] and len(l) + 7 > lw:
                notes.append('tab=1: a row that is wider than the line width when the tab is expanded to 8 columns (but not in characters) gets no warning')
    for l in warned:
        fails.append(('asm-spurious-warning', 'warning "Line is %d characters long" for a line that is not over-wide or not emitted: %r' % (len(l), l[:100])))
    return fails, notes


# ---------------------------------------------------------------------------------------------
# skool2html entry pages

class _AsmPage(html.parser.HTMLParser):
    """Collects (class, rowspan, text) of the annotated cells of an entry page, in document order."""
    WANT = {('div', 'description'), ('div', 'paragraph'), ('td', 'register'), ('td', 'register-desc'),
            ('td', 'asm-label'), ('td', 'instruction')}

    def __init__(self):
        super().__init__(convert_charrefs=True)
        self.cells = []
        self.stack = []
        self.context = []    # enclosing div classes (details / comments)

    def handle_starttag(self, tag, attrs):
        a = dict(attrs)
        cls = a.get('class', '')
        if tag == 'div' and cls in ('details', 'comments'):
            self.context.append(cls)
            self.stack.append((tag, None))
            return
        want = (tag, cls) in self.WANT or (tag == 'td' and (cls.startswith('comment-') or cls.startswith('address-')))
        if want:
            cell = [cls, a.get('rowspan'), [], self.context[-1] if self.context else None]
            self.cells.append(cell)
            self.stack.append((tag, cell))
        elif tag in ('div', 'td'):
            self.stack.append((tag, None))

    def handle_endtag(self, tag):
        if tag in ('div', 'td'):
            while self.stack:
                t, cell = self.stack.pop()
                if t == tag:
                    break
            if tag == 'div' and cell is None and self.context and not any(c for t, c in self.stack if t == 'div' and c is None and False):
                pass
        if tag == 'div':
            # leaving a details/comments container: recompute from the stack
            depth = sum(1 for t, c in self.stack if t == 'div' and c is None)
            while len(self.context) > depth:
                self.context.pop()

    def handle_data(self, data):
        for t, cell in reversed(self.stack):
            if cell is not None:
                cell[2].append(data)
                break


def parse_html_entry(page):
    p = _AsmPage()
    p.feed(page)
    return [(c[0], c[1], ''.join(c[2]), c[3]) for c in p.cells]


def check_html_entry(cells, ent):
    fails = []
    pos = 0
    a = ent['addr']

    def w(s):
        return s.split()
    # title
    if not cells or cells[0][0] != 'description':
        return [('html-structure', 'entry %d: no description div' % a)]
    title = w(cells[0][2])
    if title[:1] != ['%d:' % a] or title[1:] != flat(ent['title']):
        fails.append(('html-title-words', 'entry %d: title words differ: expected %r got %r' % (a, flat(ent['title'])[:30], title[:31])))
    pos = 1
    # details paragraphs
    det = []
    while pos < len(cells) and cells[pos][0] == 'paragraph' and cells[pos][3] == 'details':
        det.append(w(cells[pos][2]))
        pos += 1
    exp = [flat(p) for p in ent['details']]
    if det != exp:
        fails.append(('html-details-words', 'entry %d: description paragraphs differ: expected %r got %r' % (a, exp[:4], det[:4])))
    # registers (inputs then outputs)
    regs = []
    while pos + 1 < len(cells) and cells[pos][0] == 'register':
        regs.append((w(cells[pos][2]), w(cells[pos + 1][2])))
        pos += 2
    mode = 'I'
    ins_, outs_ = [], []
    for r in ent['registers']:
        if r['prefix']:
            mode = r['prefix'].upper()[0]
        (outs_ if mode == 'O' else ins_).append((r['name'].split(), flat(r['desc'])))
    if regs != ins_ + outs_:
        fails.append(('html-register-words', 'entry %d: registers differ: expected %r got %r' % (a, (ins_ + outs_)[:4], regs[:4])))
    # instructions
    first = True
    for gi, g in enumerate(ent['groups']):
        exp_mid = [flat(p) for p in (ent['start'] if first else g['mid'])]
        first = False
        mid = []
        while pos < len(cells) and cells[pos][0] == 'paragraph' and cells[pos][3] == 'comments':
            mid.append(w(cells[pos][2]))
            pos += 1
        if mid != exp_mid:
            fails.append(('html-midblock-words', 'entry %d group %d: mid-block paragraphs differ: expected %r got %r' % (a, gi, exp_mid[:3], mid[:3])))
        for j, ins in enumerate(g['instrs']):
            if pos < len(cells) and cells[pos][0] == 'asm-label':
                if w(cells[pos][2]) != ([ins['label']] if ins['label'] else []):
                    fails.append(('html-label', 'entry %d: label cell %r for %s, expected %r' % (a, cells[pos][2], ins['op'], ins['label'])))
                pos += 1
            if pos + 1 >= len(cells) or not cells[pos][0].startswith('address-') or cells[pos + 1][0] != 'instruction':
                fails.append(('html-structure', 'entry %d: instruction row missing for %s' % (a, ins['op'])))
                return fails
            if w(cells[pos][2]) != [str(ins['addr'])] or w(cells[pos + 1][2]) != ins['op'].split():
                fails.append(('html-instruction', 'entry %d: expected %d %s, got %r %r' % (a, ins['addr'], ins['op'], cells[pos][2], cells[pos + 1][2])))
            pos += 2
            if j == 0:
                if pos >= len(cells) or not cells[pos][0].startswith('comment-'):
                    fails.append(('html-structure', 'entry %d: comment cell missing at %d' % (a, ins['addr'])))
                    return fails
                if cells[pos][1] != str(len(g['instrs'])):
                    fails.append(('html-rowspan', 'entry %d: comment at %d has rowspan %s, expected %d' % (a, ins['addr'], cells[pos][1], len(g['instrs']))))
                if w(cells[pos][2]) != group_words(g):
                    fails.append(('html-comment-words', 'entry %d: comment at %d differs: expected %r got %r' % (a, ins['addr'], group_words(g)[:30], w(cells[pos][2])[:30])))
                pos += 1
    end = []
    while pos < len(cells) and cells[pos][0] == 'paragraph' and cells[pos][3] == 'comments':
        end.append(w(cells[pos][2]))
        pos += 1
    if end != [flat(p) for p in ent['end']]:
        fails.append(('html-end-words', 'entry %d: end comment differs: expected %r got %r' % (a, [flat(p) for p in ent['end']][:3], end[:3])))
    if pos != len(cells):
        fails.append(('html-extra', 'entry %d: unexpected extra cell %r' % (a, cells[pos][:3])))
    return fails


# ---------------------------------------------------------------------------------------------
# control files and sna2skool output

def ctl_text(spec):
    """Control file expressing `spec` (entries with one-byte instructions)."""
    out = []
    for ent in spec['entries']:
        a = ent['addr']
        out.append('%s %05d %s' % (ent['ctl'], a, ' '.join(flat(ent['title']))))
        for p in ent['details']:
            out.append('D %05d %s' % (a, ' '.join(flat(p))))
        for r in ent['registers']:
            head = (r['prefix'] + ':' if r['prefix'] else '') + r['name']
            if r.get('delim'):
                head = r['delim'][0] + head + r['delim'][1]
            out.append(('R %05d %s %s' % (a, head, ' '.join(flat(r['desc'])))).rstrip())
        first = True
        for g in ent['groups']:
            ga = g['instrs'][0]['addr']
            for p in (ent['start'] if first else g['mid']):
                out.append('N %05d %s' % (ga, ' '.join(flat(p))))
            first = False
            out.append(('C %05d,%d %s' % (ga, len(g['instrs']), ' '.join(group_words(g)))).rstrip())
        for p in ent['end']:
            out.append('E %05d %s' % (a, ' '.join(flat(p))))
    last = spec['entries'][-1]
    end = last['groups'][-1]['instrs'][-1]['addr'] + 1
    out.append('i %05d' % end)
    return '\n'.join(out) + '\n', end


def code_bytes(spec):
    """(origin, bytes) for a spec generated with one_byte_ops=True (gaps filled with NOPs are not
    allowed: entries must be contiguous)."""
    opmap = dict(OPS_CODE)
    org = spec['entries'][0]['addr']
    data = []
    for ent in spec['entries']:
        for g in ent['groups']:
            for ins in g['instrs']:
                assert ins['addr'] == org + len(data), 'non-contiguous spec'
                data.append(opmap[ins['op']])
    return org, bytes(data)


def strip_braces(lines):
    """The documented rules: adjacent opening braces at the start and adjacent closing braces at
    the end of a multi-instruction comment are removed (one separating space goes with them)."""
    lines = list(lines)
    if not lines:
        return lines
    lines[0] = lines[0].lstrip('{')
    if lines[0].startswith(' {'):
        lines[0] = lines[0][1:]
    lines[-1] = lines[-1].rstrip('}')
    if lines[-1].endswith('} '):
        lines[-1] = lines[-1][:-1]
    return lines


def parse_skool_entries(text):
    """Independent reader of a skool file as written by sna2skool: returns a list of entries
    {'ctl','addr','header':[[lines] per section],'instrs':[{'addr','op','mid':[lines],'clines':[..]}],'end':[lines]}"""
    entries = []
    block = []
    for l in text.split('\n') + ['']:
        if l.strip() == '':
            if block:
                entries.append(block)
            block = []
        else:
            block.append(l)
    res = []
    for block in entries:
        if not any(re.match(r'^[a-z*][0-9$]', l) for l in block):
            continue
        ent = {'header': [[]], 'instrs': [], 'end': []}
        pending = []
        in_header = True
        for l in block:
            if l.startswith('@'):
                continue
            if l.startswith(';'):
                t = l[1:].strip()
                if in_header:
                    if t == '':
                        ent['header'].append([])
                    else:
                        ent['header'][-1].append(t)
                else:
                    pending.append(t)
                continue
            if l.startswith(' ') and l.lstrip().startswith(';'):
                ent['instrs'][-1]['clines'].append(l.lstrip()[1:].strip())
                continue
            m = re.match(r'^(.)([0-9]{5}) (.*)$', l)
            if not m:
                continue
            if in_header:
                ent['ctl'] = m.group(1)
                ent['addr'] = int(m.group(2))
                in_header = False
                # fourth header section = start comment
                pending = ent['header'][3] if len(ent['header']) > 3 else []
            rest = m.group(3)
            k = rest.find(' ;')
            if k < 0:
                op, c = rest.strip(), None
            else:
                op, c = rest[:k].strip(), rest[k + 2:].strip()
            ent['instrs'].append({'addr': int(m.group(2)), 'op': op, 'mid': pending, 'clines': [c] if c is not None else []})
            pending = []
        ent['end'] = pending
        res.append(ent)
    return res


def paragraphs_of(lines):
    ps = [[]]
    for l in lines:
        if l == '.':
            ps.append([])
        else:
            ps[-1].append(l)
    return [' '.join(p).split() for p in ps if p]


def check_skool_entry(got, ent, line_width, block_lines):
    """Compare an entry written by sna2skool with the control-file specification."""
    fails = []
    a = ent['addr']
    if got.get('addr') != a:
        return [('skool-entry-address', 'expected entry at %d, got %r' % (a, got.get('addr')))]
    h = got['header'] + [[], [], [], []]
    title = ' '.join(h[0]).split()
    if title != flat(ent['title']):
        fails.append(('skool-title-words', 'entry %d: title words differ: expected %r got %r' % (a, flat(ent['title'])[:30], title[:30])))
    det = paragraphs_of(h[1])
    if det != [flat(p) for p in ent['details']]:
        fails.append(('skool-details-words', 'entry %d: description differs: expected %r got %r' % (a, [flat(p) for p in ent['details']][:3], det[:3])))
    # registers: a line starting with '.' continues the previous register
    regs = []
    for l in h[2]:
        if l == '.':
            continue
        if l.startswith('.') and regs:
            regs[-1] += l[1:].split()
        else:
            regs.append(l.split())
    exp = []
    for r in ent['registers']:
        head = (r['prefix'] + ':' if r['prefix'] else '') + r['name']
        if r.get('delim'):
            head = r['delim'][0] + head + r['delim'][1]      # the skool file keeps the delimiters
        exp.append(head.split() + flat(r['desc']))
    if regs != exp:
        fails.append(('skool-register-words', 'entry %d: registers differ: expected %r got %r' % (a, exp[:3], regs[:3])))
    pos = 0
    first = True
    for gi, g in enumerate(ent['groups']):
        n = len(g['instrs'])
        rows = got['instrs'][pos:pos + n]
        if [r['addr'] for r in rows] != [i['addr'] for i in g['instrs']] or [r['op'] for r in rows] != [i['op'] for i in g['instrs']]:
            fails.append(('skool-instruction', 'entry %d group %d: expected %r got %r' % (a, gi, [(i['addr'], i['op']) for i in g['instrs']], [(r['addr'], r['op']) for r in rows])))
            return fails
        exp_mid = [flat(p) for p in (ent['start'] if first else g['mid'])]
        first = False
        if paragraphs_of(rows[0]['mid']) != exp_mid:
            fails.append(('skool-midblock-words', 'entry %d group %d: mid-block comment differs: expected %r got %r' % (a, gi, exp_mid[:3], paragraphs_of(rows[0]['mid'])[:3])))
        for r in rows[1:]:
            if r['mid']:
                fails.append(('skool-midblock-words', 'entry %d: unexpected comment inside group at %d' % (a, r['addr'])))
        clines = [c for r in rows for c in r['clines']]
        joined = ' '.join(clines).strip()
        if n > 1 or joined.startswith('{'):
            # the comment must be delimited so that it spans exactly these n instructions
            bal = 0
            spans = 0
            for r in rows:
                t = ' '.join(r['clines'])
                bal += t.count('{') - t.count('}')
                spans += 1
                if bal <= 0:
                    break
            span_ok = joined.startswith('{') and spans == n and bal <= 0
            if not span_ok and group_words(g):
                # class of the known finding: the specified comment has a prefix with more closing
                # than opening braces (sna2skool sizes the opening from the overall balance only), and sna2skool did
                # write the number of opening braces its own rule prescribes
                text = ' '.join(group_words(g))
                run, neg = 0, False
                for ch in text:
                    run += (ch == '{') - (ch == '}')
                    neg = neg or run < 0
                total = text.count('{') - text.count('}')
                k_rule = 1 - total if total < 0 else 1
                line0 = clines[0] if clines else ''
                k_got = len(line0) - len(line0.lstrip('{'))
                key = 'skool-brace-span-negative-prefix' if neg and k_got == k_rule else 'skool-brace-span'
                fails.append((key, 'entry %d group %d: the braces sna2skool wrote do not delimit exactly the %d instructions of the control-file comment (read back, the comment ends after %d): %r'
                              % (a, gi, n, spans, clines[:6])))
                pos += n
                continue
            clines = strip_braces(clines)
        got_words = ' '.join(clines).split()
        if got_words != group_words(g):
            fails.append(('skool-comment-words', 'entry %d group %d: comment words differ: expected %r got %r' % (a, gi, group_words(g)[:30], got_words[:30])))
        pos += n
    if pos != len(got['instrs']):
        fails.append(('skool-instruction', 'entry %d: %d unexpected extra instructions' % (a, len(got['instrs']) - pos)))
    if paragraphs_of(got['end']) != [flat(p) for p in ent['end']]:
        fails.append(('skool-end-words', 'entry %d: end comment differs: expected %r got %r' % (a, [flat(p) for p in ent['end']][:3], paragraphs_of(got['end'])[:3])))
    return fails


# ---------------------------------------------------------------------------------------------
# #LIST / #TABLE blocks in description paragraphs

def gen_blocks_case(rng):
    """One entry whose description has a paragraph with a #LIST block and a paragraph with a
    #TABLE block (simple cells, optional wrapped last column, optional wrap flags for sna2skool)."""
    lw = rng.choice((60, 79, 79, 100, 132))
    short = (1, 2, 3, 4, 5, 7, 9)

    def ws(lo, hi):
        # '=' starts cell flags, '|' separates cells: not used inside block words
        return [w.replace('=', 'e').replace('|', 'l') for w in gen_words(rng, rng.randint(lo, hi), short)]
    title = ws(1, 6)
    intro, outro = ws(0, 6), ws(0, 6)
    items = [ws(1, rng.choice((3, 8, 25))) for _ in range(rng.randint(1, 4))]
    lflag = rng.choice(('', '', '<nowrap>', '<wrapalign>'))
    ncols = rng.randint(1, 3)
    wrapcol = rng.random() < 0.5
    header = rng.random() < 0.6
    rows = []
    for r in range(rng.randint(1, 4)):
        row = [ws(1, 4) for _ in range(ncols)]
        if wrapcol:
            row[-1] = ws(1, rng.choice((4, 12, 30)))
        rows.append(row)
    tflag = rng.choice(('', '', '<nowrap>', '<wrapalign>'))
    params = 'default' + ''.join(',' + (':w' if (wrapcol and c == ncols - 1) else '') for c in range(ncols))
    ltoks = intro + ['#LIST' + lflag] + [t for it in items for t in ['{'] + it + ['}']] + ['LIST#'] + outro
    ttoks = ['#TABLE(%s)%s' % (params, tflag)]
    for i, row in enumerate(rows):
        ttoks.append('{')
        for j, cell in enumerate(row):
            if j:
                ttoks.append('|')
            if header and i == 0:
                ttoks.append('=h')
            ttoks += cell
        ttoks.append('}')
    ttoks.append('TABLE#')
    return {'lw': lw, 'title': title, 'intro': intro, 'outro': outro, 'items': items, 'rows': rows, 'header': header,
            'ltoks': ltoks, 'ttoks': ttoks, 'lflag': lflag, 'tflag': tflag}


def blocks_skool(rng, case):
    out = ['@start', '@set-line-width=%d' % case['lw'], '; ' + ' '.join(case['title']), ';']
    for toks, last in ((case['ltoks'], False), (case['ttoks'], True)):
        # the flags are sna2skool syntax; skool2asm/skool2html accept and ignore them
        for l in split_lines(rng, toks, 5):
            out.append('; ' + ' '.join(l))
        if not last:
            out.append('; .')
    out.append('c32768 RET')
    return '\n'.join(out) + '\n'


def check_blocks_asm(out, err, case):
    fails = []
    lw = case['lw']
    lines = [l for l in out.replace('\r\n', '\n').split('\n')]
    com = [l for l in lines if l.startswith(';')]
    # sections separated by ';' lines: title / list paragraph / table paragraph
    secs = [[]]
    for l in com:
        if l == ';':
            secs.append([])
        else:
            secs[-1].append(l[1:])
    if len(secs) != 3:
        return [('asm-blocks-structure', 'expected title + 2 paragraphs, got %d sections: %r' % (len(secs), com[:8]))]
    if ' '.join(secs[0]).split() != case['title']:
        fails.append(('asm-blocks-title', 'title words differ: %r' % secs[0]))
    exp = case['intro'] + [t for it in case['items'] for t in ['*'] + it] + case['outro']
    got = ' '.join(secs[1]).split()
    if got != exp:
        fails.append(('asm-list-words', '#LIST paragraph: expected %r got %r' % (exp[:40], got[:40])))
    # table: column-wise word sequences
    ncols = len(case['rows'][0])
    cols = [[] for _ in range(ncols)]
    tw = 0
    for l in secs[2]:
        t = l.strip()
        tw = max(tw, len(l[1:]) if l.startswith(' ') else len(l))
        if t.startswith('+'):
            continue
        cells = t.split('|')[1:-1] if t.endswith('|') else t.split('|')[1:]
        if len(cells) != ncols:
            fails.append(('asm-table-structure', 'table line with %d cells, expected %d: %r' % (len(cells), ncols, l)))
            continue
        for j, c in enumerate(cells):
            cols[j] += c.split()
    expc = [[w for row in case['rows'] for w in row[j]] for j in range(ncols)]
    if cols != expc:
        fails.append(('asm-table-words', '#TABLE: column words differ: expected %r got %r' % (expc, cols)))
    warned = [l for l in err.split('\n') if l.startswith('WARNING: Table in entry at')]
    too_wide = tw > lw - 2
    if too_wide and not warned:
        fails.append(('asm-table-no-warning', 'table is %d characters wide (text width %d) and skool2asm does not warn' % (tw, lw - 2)))
    if warned and not too_wide:
        fails.append(('asm-table-spurious-warning', 'table warning although the table is %d wide (text width %d)' % (tw, lw - 2)))
    for l in com:
        if len(l) > lw and not (too_wide and l in [';' + x for x in secs[2]]):
            fails.append(('asm-blocks-line-too-wide', 'line of %d chars (width %d): %r' % (len(l), lw, l[:100])))
    return fails


def check_blocks_html(page, case):
    cells = parse_html_entry(page)
    paras = [c[2].split() for c in cells if c[0] == 'paragraph' and c[3] == 'details']
    exp1 = case['intro'] + [w for it in case['items'] for w in it] + case['outro']
    exp2 = [w for row in case['rows'] for cell in row for w in cell]
    if paras != [exp1, exp2]:
        return [('html-blocks-words', 'description paragraphs differ: expected %r got %r' % ([exp1[:30], exp2[:30]], [p[:30] for p in paras]))]
    return []


def blocks_ctl(case):
    return ('c 32768 %s\nD 32768 %s\nD 32768 %s\ni 32769\n'
            % (' '.join(case['title']), ' '.join(case['ltoks']), ' '.join(case['ttoks'])))


def check_blocks_skool(out, case):
    fails = []
    ents = parse_skool_entries(out)
    if len(ents) != 1:
        return [('skool-blocks-structure', '%d entries' % len(ents))]
    h = ents[0]['header'] + [[], []]
    if ' '.join(h[0]).split() != case['title']:
        fails.append(('skool-blocks-title', 'title words differ'))
    ps = paragraphs_of(h[1])
    if ps != [case['ltoks'], case['ttoks']]:
        fails.append(('skool-blocks-words', 'description with #LIST/#TABLE differs: expected %r got %r' % ([case['ltoks'][:30], case['ttoks'][:30]], [p[:30] for p in ps])))
    # widths: rows/items of a <nowrap> block are exempt
    nowrap = False
    for l in out.split('\n'):
        t = l[1:].strip() if l.startswith(';') else ''
        if t.startswith('#LIST') or t.startswith('#TABLE'):
            nowrap = '<nowrap>' in t
        if t in ('LIST#', 'TABLE#'):
            nowrap = False
        # a line holding one unbreakable word that cannot fit (e.g. a <wrapalign> continuation line
        # indented to its cell's column) is the property's own exception
        if len(l) > 79 and not nowrap and len(t.split()) > 1:
            fails.append(('skool-blocks-line-too-wide', 'line of %d chars: %r' % (len(l), l[:100])))
    return fails


def closing_boundary_spec(line_width):
    """Deterministic sweep for the sna2skool closing-brace fit test: comments that end with '}'
    (so the closing is ' }' ...) whose last wrapped line takes every length around the comment
    width, for groups of 1..3 instructions.  With the default instruction width (13) the comment
    column is line_width - 23 wide; the sweep covers a window well beyond that, so it does not
    depend on that figure being right."""
    cw = line_width - 23
    addr = 32768
    groups = []
    for n in (1, 2, 3):
        for k in range(3, cw + 6):
            if n == 1:
                # single instruction: the text starts with '{' and ends with '}'
                words = ['{' + 'a' * (k - 2) + '}'] if k % 2 else ['{ab', 'c' * max(1, k - 5) + '}']
            else:
                # n - 1 lines filled by one long word each, then a last line of length k
                words = ['b' * (cw - 3) for _ in range(n - 1)] + (['w' * (k - 1) + '}'] if k % 2 else ['uv', 'w' * max(1, k - 4) + '}'])
            instrs = [{'addr': addr + j, 'op': 'NOP', 'label': None} for j in range(n)]
            addr += n
            groups.append({'instrs': instrs, 'lines': [[words]] + [[[]] for _ in range(n - 1)], 'mid': []})
    return {'cfg': {'line_width': line_width}, 'entries': [{
        'ctl': 'c', 'addr': 32768, 'title': [['Closing', 'brace', 'boundary']], 'details': [], 'registers': [],
        'start': [], 'end': [], 'groups': groups}]}
